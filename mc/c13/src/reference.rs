//! The reference resolver, written from the property statement and the
//! language reference ("Modules", "Imports"):
//!
//! * a bare name / the first segment of a path is looked up in the
//!   declarations of the innermost enclosing scope, then in that scope's
//!   imports, then in the next scope outward; the scope chain of a module ends
//!   at the package root (which only knows `pkg`) — a module does not fall
//!   through to its parent module;
//! * `pkg` at the start of a path makes it absolute; each leading `super` moves
//!   to the parent module (error at the root);
//! * every later segment is looked up only among the direct members of the
//!   item before it (the items and child modules a module declares — imports
//!   are not members; `super`/`pkg` are not allowed there);
//! * an import makes the item its path refers to available under the item's
//!   name in the scope holding the import, whatever its position in that scope
//!   and whatever the order of the imports; a list import is identical to the
//!   separate imports; every import of the program must resolve;
//! * declarations of a scope win over imports of the same scope.
//!
//! `Sem` selects deviations from those rules. `Sem::SPEC` is the oracle. The
//! other settings model two *known defects* of the implementation and are
//! used only by the known-finding matchers (a violation is attributed to a
//! listed finding only if the observation equals the defect model's
//! prediction).

use crate::model::*;

#[derive(Clone, Copy, PartialEq, Eq, Debug)]
pub struct Sem {
    /// imports of one scope are resolved in textual order, repeatedly, each
    /// seeing only the imports of its scope bound so far (so an import can
    /// resolve its first segment in an outer scope although a later import of
    /// its own scope binds that name)
    pub order_dependent: bool,
    /// the segment after leading `super`s is looked up like a first segment
    /// from the reached module's scope (its imports, then the root scope)
    pub super_walks: bool,
    /// settle what the documentation leaves open the way the implementation
    /// does (parameters and pattern variables live in the scope of the body
    /// block and win over its imports; imports are processed at block entry,
    /// before the block's `let`s; duplicate or cyclic imports are errors).
    /// Only set in defect models.
    pub impl_choices: bool,
}

impl Sem {
    pub const SPEC: Sem = Sem { order_dependent: false, super_walks: false, impl_choices: false };
    pub fn defect(order_dependent: bool, super_walks: bool) -> Sem {
        Sem { order_dependent, super_walks, impl_choices: true }
    }
}

#[derive(Clone, Copy, PartialEq, Eq, Debug)]
pub enum Res {
    Module(usize),
    Item(usize, Item),
    /// a local `u32` value with its tag
    Local(u32),
    Err,
    /// the documentation leaves the situation open
    Unspec,
}

#[derive(Clone, Copy, PartialEq, Eq, Debug, Hash)]
pub enum Expect {
    Tag(u32),
    Error,
    Unspec,
}

impl Expect {
    pub fn to_json(self) -> vcore::Value {
        match self {
            Expect::Tag(t) => vcore::json!({"ok": t}),
            Expect::Error => vcore::json!("compile error"),
            Expect::Unspec => vcore::json!("unspecified"),
        }
    }
}

#[derive(Clone, Copy, PartialEq, Eq, Debug, Hash)]
pub enum Scope {
    Root,
    Module(usize),
    /// function scope = parameters + body block of the probe function
    Fn,
    /// the inner block / arm
    Inner,
    /// the sibling arm
    Sibling,
}

/// one import path with the scope that holds it and its textual position
#[derive(Clone, Debug)]
struct Imp {
    scope: Scope,
    path: Path,
}

pub struct Eval<'a> {
    world: &'a World,
    prog: &'a Prog,
    sem: Sem,
    imps: Vec<Imp>,
    /// order_dependent mode: what each import is bound to (None = not yet)
    bound: Vec<Option<(Seg, Res)>>,
}

impl<'a> Eval<'a> {
    pub fn new(world: &'a World, prog: &'a Prog, sem: Sem) -> Eval<'a> {
        let mut imps = vec![];
        let mut add = |scope: Scope, stmts: &Vec<ImportStmt>| {
            for s in stmts {
                for p in s.paths() {
                    imps.push(Imp { scope, path: p });
                }
            }
        };
        // textual order inside each scope
        if let Some((m, v)) = &prog.foreign {
            add(Scope::Module(*m), v);
        }
        add(Scope::Module(prog.site), &prog.top_before);
        add(Scope::Module(prog.site), &prog.top_after);
        add(Scope::Fn, &prog.fnb.imports_before);
        add(Scope::Fn, &prog.fnb.imports_after);
        add(Scope::Inner, &prog.inner.imports_before);
        add(Scope::Inner, &prog.inner.imports_after);
        add(Scope::Sibling, &prog.sibling);
        let n = imps.len();
        Eval { world, prog, sem, imps, bound: vec![None; n] }
    }

    fn parent(&self, s: Scope) -> Option<Scope> {
        match s {
            Scope::Root => None,
            Scope::Module(_) => Some(Scope::Root),
            Scope::Fn => Some(Scope::Module(self.prog.site)),
            Scope::Inner | Scope::Sibling => Some(Scope::Fn),
        }
    }

    /// all local names a block scope declares anywhere
    fn locals_anywhere(&self, s: Scope) -> Vec<Seg> {
        let p = self.prog;
        let mut v = vec![];
        match s {
            Scope::Fn => {
                v.extend(p.param);
                v.extend(p.fnb.lets_before.iter());
                v.extend(p.fnb.lets_after.iter());
            }
            Scope::Inner => {
                if p.nest == Nest::Match {
                    v.extend(p.pattern);
                }
                v.extend(p.inner.lets_before.iter());
                v.extend(p.inner.lets_after.iter());
            }
            _ => {}
        }
        v
    }

    /// local declared in `s` and visible at the use / at constructs nested
    /// after the `lets_before`
    fn local_before(&self, s: Scope, name: &str) -> Option<u32> {
        let p = self.prog;
        match s {
            Scope::Fn => {
                // a `let` after the parameter of the same name would be a
                // redeclaration; the generator never produces it
                if p.fnb.lets_before.iter().any(|l| *l == name) {
                    return Some(TAG_FN_LET);
                }
                if p.param.is_some_and(|q| q == name) {
                    return Some(TAG_PARAM);
                }
                None
            }
            Scope::Inner => {
                if p.inner.lets_before.iter().any(|l| *l == name) {
                    return Some(TAG_IN_LET);
                }
                if p.nest == Nest::Match && p.pattern.is_some_and(|q| q == name) {
                    return Some(TAG_PATTERN);
                }
                None
            }
            _ => None,
        }
    }

    fn member(&self, m: usize, name: &str) -> Option<Res> {
        if let Some(c) = self.world.tree.child(m, name) {
            return Some(Res::Module(c));
        }
        if let Some(it) = Item::from_name(name) {
            if self.world.has(it, m) {
                return Some(Res::Item(m, it));
            }
        }
        None
    }

    /// name under which import `i` binds, if it can be told
    fn binding_name(&mut self, i: usize, stack: &mut Vec<usize>) -> Option<Seg> {
        let last = *self.imps[i].path.last().unwrap();
        if last != "super" && last != "pkg" {
            return Some(last);
        }
        if self.imps[i].path.len() == 1 && last == "pkg" {
            return Some("pkg");
        }
        match self.resolve_import(i, stack) {
            Res::Module(m) => Some(self.world.tree.mods[m].name),
            _ => None,
        }
    }

    fn resolve_import(&mut self, i: usize, stack: &mut Vec<usize>) -> Res {
        if stack.contains(&i) {
            // genuinely cyclic imports: not described anywhere
            return if self.sem.impl_choices { Res::Err } else { Res::Unspec };
        }
        stack.push(i);
        let imp = self.imps[i].clone();
        let r = self.resolve_path(imp.scope, &imp.path, Some(i), stack);
        stack.pop();
        r
    }

    /// Look a first segment up, walking outward from `s`.
    /// `for_import`: the lookup is the first segment of import `i` (held by
    /// scope `s0`): that import itself is not a candidate, and locals of its
    /// own scope are a position question the documentation does not answer.
    fn lookup(&mut self, s0: Scope, name: Seg, for_import: Option<usize>, stack: &mut Vec<usize>) -> Res {
        let mut s = s0;
        loop {
            // 1. declarations of the scope
            match s {
                Scope::Root => {
                    return if name == "pkg" { Res::Module(0) } else { Res::Err };
                }
                Scope::Module(m) => {
                    if let Some(r) = self.member(m, name) {
                        return r;
                    }
                }
                Scope::Fn | Scope::Inner | Scope::Sibling => {
                    if for_import.is_some() && s == s0 {
                        if self.sem.impl_choices {
                            let pv = match s {
                                Scope::Fn => self.prog.param.filter(|q| *q == name).map(|_| TAG_PARAM),
                                Scope::Inner if self.prog.nest == Nest::Match => {
                                    self.prog.pattern.filter(|q| *q == name).map(|_| TAG_PATTERN)
                                }
                                _ => None,
                            };
                            if let Some(t) = pv {
                                return Res::Local(t);
                            }
                        } else if self.locals_anywhere(s).contains(&name) {
                            return Res::Unspec;
                        }
                    } else if let Some(t) = self.local_before(s, name) {
                        return Res::Local(t);
                    }
                }
            }
            // 2. imports of the scope
            if self.sem.order_dependent {
                let hit = (0..self.imps.len())
                    .find(|&j| self.imps[j].scope == s && self.bound[j].is_some_and(|(n, _)| n == name));
                if let Some(j) = hit {
                    return self.bound[j].unwrap().1;
                }
            } else {
                let mut cands = vec![];
                for j in 0..self.imps.len() {
                    if self.imps[j].scope != s || Some(j) == for_import {
                        continue;
                    }
                    // cheap syntactic filter first
                    let last = *self.imps[j].path.last().unwrap();
                    if last != "super" && last != "pkg" && last != name {
                        continue;
                    }
                    if stack.contains(&j) {
                        // needs an import that is being resolved: cyclic
                        return if self.sem.impl_choices { Res::Err } else { Res::Unspec };
                    }
                    if self.binding_name(j, stack) == Some(name) {
                        cands.push(j);
                    }
                }
                if cands.len() > 1 {
                    // two imports of one name in one scope: not described
                    return if self.sem.impl_choices { Res::Err } else { Res::Unspec };
                }
                if let Some(&j) = cands.first() {
                    return self.resolve_import(j, stack);
                }
            }
            // 3. outward
            match self.parent(s) {
                Some(p) => s = p,
                None => return Res::Err,
            }
        }
    }

    fn enclosing_module(&self, s: Scope) -> usize {
        match s {
            Scope::Module(m) => m,
            Scope::Root => 0,
            _ => self.prog.site,
        }
    }

    pub fn resolve_path(&mut self, scope: Scope, path: &Path, for_import: Option<usize>, stack: &mut Vec<usize>) -> Res {
        let mut i = 0;
        let mut cur: usize;
        if path[0] == "super" {
            cur = self.enclosing_module(scope);
            while i < path.len() && path[i] == "super" {
                match self.world.tree.mods[cur].parent {
                    Some(p) => cur = p,
                    None => return Res::Err,
                }
                i += 1;
            }
            if i == path.len() {
                return Res::Module(cur);
            }
            if self.sem.super_walks {
                // defect model: the next segment is looked up like a first
                // segment, from the scope of the module reached
                if path[i] == "super" {
                    return Res::Err;
                }
                let r = self.lookup(Scope::Module(cur), path[i], None, stack);
                i += 1;
                match r {
                    Res::Module(m) => cur = m,
                    Res::Item(..) | Res::Local(_) => return if i == path.len() { r } else { Res::Err },
                    Res::Err | Res::Unspec => return r,
                }
            }
        } else if path[0] == "pkg" {
            cur = 0;
            i = 1;
        } else {
            let r = self.lookup(scope, path[0], for_import, stack);
            i = 1;
            match r {
                Res::Module(m) => cur = m,
                Res::Item(..) | Res::Local(_) => {
                    // further segments would be fields/methods of a function,
                    // a u32 or a record type: none of the probe names exist
                    return if i == path.len() { r } else { Res::Err };
                }
                Res::Err | Res::Unspec => return r,
            }
        }
        while i < path.len() {
            let seg = path[i];
            if seg == "super" || seg == "pkg" {
                return Res::Err;
            }
            match self.member(cur, seg) {
                Some(Res::Module(m)) => {
                    cur = m;
                    i += 1;
                }
                Some(r @ Res::Item(..)) => {
                    return if i + 1 == path.len() { r } else { Res::Err };
                }
                _ => return Res::Err,
            }
        }
        Res::Module(cur)
    }

    /// order_dependent mode: bind the imports scope by scope the way
    /// `TypeChecker::imports` does. Returns false if some import stays
    /// unresolved.
    fn bind_all(&mut self) -> Result<(), Res> {
        // module scopes in module order, then the function's scopes from the
        // outside in (the order in which the type checker meets them)
        let mut scopes: Vec<Scope> = (0..self.world.tree.n()).map(Scope::Module).collect();
        scopes.extend([Scope::Fn, Scope::Inner, Scope::Sibling]);
        for s in scopes {
            let mut rest: Vec<usize> = (0..self.imps.len()).filter(|&j| self.imps[j].scope == s).collect();
            loop {
                let before = rest.len();
                let mut still = vec![];
                for &j in &rest {
                    let imp = self.imps[j].clone();
                    let mut stack = vec![];
                    let r = self.resolve_path(s, &imp.path, Some(j), &mut stack);
                    match r {
                        Res::Module(m) => {
                            let name = self.world.tree.mods[m].name;
                            if self.dup(s, name) {
                                still.push(j);
                            } else {
                                self.bound[j] = Some((name, r));
                            }
                        }
                        Res::Item(_, it) => {
                            if self.dup(s, it.name()) {
                                still.push(j);
                            } else {
                                self.bound[j] = Some((it.name(), r));
                            }
                        }
                        Res::Unspec => return Err(Res::Unspec),
                        _ => still.push(j),
                    }
                }
                rest = still;
                if rest.is_empty() {
                    break;
                }
                if rest.len() == before {
                    return Err(Res::Err);
                }
            }
        }
        Ok(())
    }

    fn dup(&self, s: Scope, name: Seg) -> bool {
        (0..self.imps.len()).any(|j| self.imps[j].scope == s && self.bound[j].is_some_and(|(n, _)| n == name))
    }

    /// What the program must do.
    pub fn expect(&mut self) -> Expect {
        let p = self.prog;
        // the parameter/pattern variable and the body block share one scope in
        // the implementation; whether they do is not documented, so an import
        // in that block competing with the parameter/pattern name is open
        if self.sem.order_dependent {
            if let Err(r) = self.bind_all() {
                return if r == Res::Unspec { Expect::Unspec } else { Expect::Error };
            }
        } else {
            // every import must resolve, and no scope may import a name twice
            let mut any_unspec = false;
            let mut any_err = false;
            let mut names: Vec<(Scope, Seg)> = vec![];
            for j in 0..self.imps.len() {
                let mut stack = vec![];
                match self.resolve_import(j, &mut stack) {
                    Res::Err => any_err = true,
                    Res::Unspec | Res::Local(_) => any_unspec = true,
                    Res::Module(_) | Res::Item(..) => {
                        let mut stack = vec![];
                        if let Some(n) = self.binding_name(j, &mut stack) {
                            let key = (self.imps[j].scope, n);
                            if names.contains(&key) {
                                if self.sem.impl_choices { any_err = true } else { any_unspec = true }
                            }
                            names.push(key);
                        }
                    }
                }
            }
            if any_err {
                return Expect::Error;
            }
            if any_unspec {
                return Expect::Unspec;
            }
        }
        let use_scope = match p.nest {
            Nest::ItemLevel => Scope::Module(p.site),
            Nest::Body => Scope::Fn,
            _ => Scope::Inner,
        };
        // open question: parameter (or pattern variable) vs. an import placed
        // directly in the block that shares their scope
        let first = p.use_path[0];
        if first != "pkg" && first != "super" && !self.sem.impl_choices {
            let mut s = use_scope;
            while matches!(s, Scope::Fn | Scope::Inner) {
                let by_let = match s {
                    Scope::Fn => p.fnb.lets_before.contains(&first),
                    _ => p.inner.lets_before.contains(&first),
                };
                if by_let {
                    break;
                }
                let by_param = match s {
                    Scope::Fn => p.param.is_some_and(|q| q == first),
                    _ => p.nest == Nest::Match && p.pattern.is_some_and(|q| q == first),
                };
                let mut by_import = false;
                for j in 0..self.imps.len() {
                    if self.imps[j].scope == s {
                        let mut stack = vec![];
                        if self.binding_name(j, &mut stack) == Some(first) {
                            by_import = true;
                        }
                    }
                }
                if by_param && by_import {
                    return Expect::Unspec;
                }
                if by_param || by_import {
                    break;
                }
                s = match s {
                    Scope::Inner => Scope::Fn,
                    _ => break,
                };
            }
        }
        let mut stack = vec![];
        let r = self.resolve_path(use_scope, &p.use_path, None, &mut stack);
        let want = p.kind.item();
        match r {
            Res::Unspec => Expect::Unspec,
            Res::Err | Res::Module(_) => Expect::Error,
            Res::Local(t) => {
                // a local u32 is a value: usable where a constant is, not
                // callable, not a type
                if p.kind == Kind::Const { Expect::Tag(t) } else { Expect::Error }
            }
            Res::Item(m, it) => {
                if it != want {
                    return Expect::Error;
                }
                match p.kind {
                    Kind::Call | Kind::Const => Expect::Tag(tag(it, m)),
                    // the text names the marker field of module `rec_variant`
                    Kind::RecLit | Kind::RecTy => {
                        if m == p.rec_variant { Expect::Tag(tag(it, m)) } else { Expect::Error }
                    }
                }
            }
        }
    }
}

pub fn expect(world: &World, prog: &Prog, sem: Sem) -> Expect {
    Eval::new(world, prog, sem).expect()
}
