//! C13 — names resolve to the item the module rules designate.
//!
//! Enumerated: every module tree with <= 4 modules and depth <= 2 (plus the
//! name-collision labellings `a.a`, `a.b`, `b.a`), given in memory
//! (`FileSpec`) and on disk (`pkg.roto`, `name.roto`, `name/mod.roto`, every
//! file/directory choice for leaf modules, with and without files that must
//! not become modules); `f`, `K`, `R` each placed in every subset of the
//! modules; from every module, at five nestings, every reference form with
//! every import kind x placement x shadow (see `enumerate.rs`), and
//! `Package::get_function` for every path of a fixed universe.
//!
//! Oracle: the reference resolver in `reference.rs` (`Sem::SPEC`).

use roto::{FileSpec, FileTree, NoCtx, Package, Runtime, SourceFile};
use std::collections::BTreeMap;
use std::path::Path as FsPath;
use vcore::util::mix;
use vcore::{Cfg, Check, Cx, Finding, Meta, Tier, Value, Violation, json};

mod disk;
mod enumerate;
mod handtable;
mod members;
mod model;
mod modnames;
mod reference;
mod typos;

use enumerate::{Unit, unit_table};
use model::*;
use reference::{Expect, Sem};

const BATCH_BIT: u64 = 1 << 32;
const BATCH_MAX: usize = 256;
const SUB_CONFLICT: u64 = 1 << 24;

#[derive(Clone, PartialEq, Debug)]
enum Obs {
    Ok(u32),
    /// compile (or read) failed with a report; first line of the message
    CompileError(String),
    /// compiler panicked
    Panic(String),
    /// compiled, but the probe function could not be retrieved
    NoFunction(String),
}

impl Obs {
    fn to_json(&self) -> Value {
        match self {
            Obs::Ok(t) => json!({"ok": t}),
            Obs::CompileError(_) => json!("compile error"),
            Obs::Panic(m) => json!({"panic": m}),
            Obs::NoFunction(m) => json!({"compiled_but_get_function_failed": m}),
        }
    }
    fn hash(&self) -> u64 {
        match self {
            Obs::Ok(t) => mix(1, *t as u64),
            Obs::CompileError(_) => 2,
            Obs::Panic(_) => 3,
            Obs::NoFunction(_) => 4,
        }
    }
    fn agrees(&self, e: Expect) -> bool {
        match (self, e) {
            (Obs::Ok(a), Expect::Tag(b)) => *a == b,
            (Obs::CompileError(_), Expect::Error) => true,
            _ => false,
        }
    }
}

fn report_text(r: roto::RotoReport) -> Result<String, String> {
    let mut s = String::new();
    vcore::util::catch(|| {
        let _ = r.write(&mut s, false);
    })?;
    Ok(s)
}

fn first_error_line(s: &str) -> String {
    s.lines().find(|l| l.contains("rror")).unwrap_or(s.lines().next().unwrap_or("")).trim().to_string()
}

fn compile_tree(rt: &Runtime<NoCtx>, ft: FileTree) -> Result<Package<NoCtx>, Obs> {
    match vcore::util::catch(|| ft.compile(rt)) {
        Ok(Ok(p)) => Ok(p),
        Ok(Err(r)) => match report_text(r) {
            Ok(s) => Err(Obs::CompileError(first_error_line(&s))),
            Err(p) => Err(Obs::Panic(format!("while rendering the report: {p}"))),
        },
        Err(p) => Err(Obs::Panic(p)),
    }
}

fn compile_disk(rt: &Runtime<NoCtx>, base: &FsPath) -> Result<Package<NoCtx>, Obs> {
    match vcore::util::catch(|| FileTree::read(base)) {
        Ok(Ok(ft)) => compile_tree(rt, ft),
        Ok(Err(r)) => match report_text(r) {
            Ok(s) => Err(Obs::CompileError(format!("read: {}", first_error_line(&s)))),
            Err(p) => Err(Obs::Panic(format!("while rendering the report: {p}"))),
        },
        Err(p) => Err(Obs::Panic(p)),
    }
}

fn mem_file_name(tree: &Tree, m: usize) -> String {
    if m == 0 {
        "pkg.roto".into()
    } else if tree.children(m).is_empty() {
        format!("{}.roto", tree.path(m).replace('.', "/"))
    } else {
        format!("{}/mod.roto", tree.path(m).replace('.', "/"))
    }
}

fn mem_tree(tree: &Tree, src: &[String]) -> FileTree {
    fn spec(tree: &Tree, src: &[String], m: usize) -> FileSpec {
        let f = SourceFile {
            name: mem_file_name(tree, m),
            module_name: tree.mods[m].name.into(),
            contents: src[m].clone(),
            location_offset: 0,
            children: vec![],
        };
        let ch = tree.children(m);
        if ch.is_empty() {
            FileSpec::File(f)
        } else {
            FileSpec::Directory(f, ch.into_iter().map(|c| spec(tree, src, c)).collect())
        }
    }
    FileTree::file_spec(spec(tree, src, 0))
}

fn fn_path(tree: &Tree, m: usize, name: &str) -> String {
    if m == 0 { name.to_string() } else { format!("{}.{name}", tree.path(m)) }
}

fn call_probe(pkg: &mut Package<NoCtx>, tree: &Tree, idx: usize, p: &Prog) -> Obs {
    let name = fn_path(tree, p.site, &format!("p{idx}"));
    if p.param.is_some() && p.nest != Nest::ItemLevel {
        match pkg.get_function::<fn(u32) -> u32>(&name) {
            Ok(f) => Obs::Ok(f.call(TAG_PARAM)),
            Err(e) => Obs::NoFunction(e.to_string().lines().next().unwrap_or("").to_string()),
        }
    } else {
        match pkg.get_function::<fn() -> u32>(&name) {
            Ok(f) => Obs::Ok(f.call()),
            Err(e) => Obs::NoFunction(e.to_string().lines().next().unwrap_or("").to_string()),
        }
    }
}

// ---------------------------------------------------------------- cases

fn module_label(tree: &Tree, m: usize) -> String {
    if m == 0 { "pkg".into() } else { format!("pkg.{}", tree.path(m)) }
}

fn files_json(tree: &Tree, src: &[String], layout: Option<&disk::Layout>) -> Value {
    let v: Vec<Value> = (0..tree.n())
        .map(|m| {
            let file = match layout {
                Some(l) => disk::file_of(tree, l, m).to_string_lossy().to_string(),
                None => mem_file_name(tree, m),
            };
            json!({"module": module_label(tree, m), "file": file, "text": src[m]})
        })
        .collect();
    json!(v)
}

fn stmts(v: &[ImportStmt]) -> Vec<String> {
    v.iter().map(|i| i.render()).collect()
}

struct Env {
    tree_idx: usize,
    placement: u32,
    world: World,
    layouts: Vec<disk::Layout>,
}

impl Env {
    fn new(tree_idx: usize, placement: u32, lookup_unit: bool) -> Env {
        let t = tree(tree_idx);
        let layouts = disk::layouts(&t, lookup_unit);
        Env { tree_idx, placement, world: World::new(t, placement), layouts }
    }

    fn probe_case(&self, idx: usize, p: &Prog, origin: &str, layout: Option<&disk::Layout>) -> Value {
        let tree = &self.world.tree;
        let src = package_sources(&self.world, &[(idx, p)]);
        let spec = reference::expect(&self.world, p, Sem::SPEC);
        let m_a = reference::expect(&self.world, p, Sem::defect(true, false));
        let m_b = reference::expect(&self.world, p, Sem::defect(false, true));
        let m_ab = reference::expect(&self.world, p, Sem::defect(true, true));
        let all_imports: Vec<&Vec<ImportStmt>> = vec![
            &p.top_before,
            &p.top_after,
            &p.fnb.imports_before,
            &p.fnb.imports_after,
            &p.inner.imports_before,
            &p.inner.imports_after,
            &p.sibling,
        ];
        let mut paths: Vec<Path> = vec![p.use_path.clone()];
        let mut max_imports_in_one_scope = 0;
        let scopes: [Vec<&Vec<ImportStmt>>; 4] = [
            vec![&p.top_before, &p.top_after],
            vec![&p.fnb.imports_before, &p.fnb.imports_after],
            vec![&p.inner.imports_before, &p.inner.imports_after],
            vec![&p.sibling],
        ];
        for sc in &scopes {
            let n: usize = sc.iter().map(|v| v.iter().map(|i| i.paths().len()).sum::<usize>()).sum();
            max_imports_in_one_scope = max_imports_in_one_scope.max(n);
        }
        for v in &all_imports {
            for i in v.iter() {
                paths.extend(i.paths());
            }
        }
        if let Some((_, v)) = &p.foreign {
            for i in v {
                paths.extend(i.paths());
            }
            max_imports_in_one_scope =
                max_imports_in_one_scope.max(v.iter().map(|i| i.paths().len()).sum::<usize>());
        }
        let super_then_segment =
            paths.iter().any(|q| q[0] == "super" && q.iter().any(|s| *s != "super"));
        json!({
            "what": "reference",
            "tree": (0..tree.n()).map(|m| module_label(tree, m)).collect::<Vec<_>>(),
            "tree_index": self.tree_idx,
            "placement": self.placement,
            "items": self.world.to_json(),
            "site": module_label(tree, p.site),
            "nest": p.nest.name(),
            "kind": p.kind.name(),
            "use": p.use_path.join("."),
            "imports": {
                "top_before_fn": stmts(&p.top_before), "top_after_fn": stmts(&p.top_after),
                "fn_body_before": stmts(&p.fnb.imports_before), "fn_body_after": stmts(&p.fnb.imports_after),
                "inner_before": stmts(&p.inner.imports_before), "inner_after": stmts(&p.inner.imports_after),
                "sibling_arm": stmts(&p.sibling),
                "parent_module_top": p.foreign.as_ref().map(|(_, v)| stmts(v)),
            },
            "locals": {
                "param": p.param, "pattern": p.pattern,
                "fn_lets_before": p.fnb.lets_before, "fn_lets_after": p.fnb.lets_after,
                "inner_lets_before": p.inner.lets_before, "inner_lets_after": p.inner.lets_after,
                "sibling_arm_lets": p.sibling_lets,
            },
            "origin": origin,
            "layout": layout.map(|l| l.name(tree)),
            "files": files_json(tree, &src, layout),
            "call": fn_path(tree, p.site, &format!("p{idx}")),
            "call_args": if p.param.is_some() && p.nest != Nest::ItemLevel { json!([TAG_PARAM]) } else { json!([]) },
            "reference": spec.to_json(),
            "features": {
                "max_imports_in_one_scope": max_imports_in_one_scope,
                "super_then_segment": super_then_segment,
            },
            "defect_models": {
                "order_dependent": m_a.to_json(),
                "super_walks": m_b.to_json(),
                "both": m_ab.to_json(),
            },
        })
    }
}

// ---------------------------------------------------------------- probe units

struct DiskDirs {
    base: std::path::PathBuf,
    /// per layout: directory prepared with the item-only sources
    ready: Vec<bool>,
}

impl DiskDirs {
    fn dir(&self, l: usize) -> std::path::PathBuf {
        self.base.join(format!("r{l}"))
    }
}

struct ProbeRun<'a> {
    env: &'a Env,
    rt: Runtime<NoCtx>,
    progs: Vec<Prog>,
    expects: Vec<Expect>,
    dirs: DiskDirs,
    item_src: Vec<String>,
    disk_every: usize,
    batch_no: usize,
}

impl ProbeRun<'_> {
    fn tree(&self) -> &Tree {
        &self.env.world.tree
    }

    fn prepare_dir(&mut self, l: usize, cx: &mut Cx) -> bool {
        if self.dirs.ready[l] {
            return true;
        }
        let d = self.dirs.dir(l);
        match disk::write_all(&d, &self.env.world.tree, &self.env.layouts[l], &self.item_src) {
            Ok(()) => {
                self.dirs.ready[l] = true;
                true
            }
            Err(e) => {
                cx.note(format!("cannot write {}: {e}", d.display()));
                cx.count("disk_io_errors", 1);
                false
            }
        }
    }

    /// write the changed files of a package into layout l; returns false on I/O error
    fn write_pkg(&mut self, l: usize, src: &[String], cx: &mut Cx) -> bool {
        if !self.prepare_dir(l, cx) {
            return false;
        }
        let d = self.dirs.dir(l);
        let tree = &self.env.world.tree;
        for m in 0..tree.n() {
            if src[m] != self.item_src[m] {
                if disk::rewrite(&d, tree, &self.env.layouts[l], m, &src[m]).is_err() {
                    cx.count("disk_io_errors", 1);
                    return false;
                }
            }
        }
        true
    }

    fn restore(&mut self, l: usize, src: &[String]) {
        let d = self.dirs.dir(l);
        let tree = &self.env.world.tree;
        for m in 0..tree.n() {
            if src[m] != self.item_src[m] {
                let _ = disk::rewrite(&d, tree, &self.env.layouts[l], m, &self.item_src[m]);
            }
        }
    }

    fn judge(&self, cx: &mut Cx, idx: usize, obs: &Obs, origin: &str, layout: Option<usize>) {
        let e = self.expects[idx];
        cx.transitions(1);
        cx.validated(1);
        cx.outcome(obs.hash());
        if obs.agrees(e) {
            return;
        }
        let class = match obs {
            Obs::Panic(_) => "panic",
            Obs::NoFunction(_) => "probe-not-retrievable",
            _ => "mismatch",
        };
        let l = layout.map(|l| &self.env.layouts[l]);
        let mut case = self.env.probe_case(idx, &self.progs[idx], origin, l);
        if let Obs::CompileError(m) | Obs::Panic(m) | Obs::NoFunction(m) = obs {
            case["message"] = json!(m);
        }
        cx.violation(class, idx as u64, case, e.to_json(), obs.to_json());
    }

    /// one probe alone in its package: in memory, and on disk in one layout
    fn run_single(&mut self, cx: &mut Cx, idx: usize) {
        if !cx.case(idx as u64) {
            return;
        }
        let src = package_sources(&self.env.world, &[(idx, &self.progs[idx])]);
        let obs = match compile_tree(&self.rt, mem_tree(self.tree(), &src)) {
            Ok(mut pkg) => call_probe(&mut pkg, self.tree(), idx, &self.progs[idx]),
            Err(o) => o,
        };
        self.judge(cx, idx, &obs, "memory", None);
        if idx % self.disk_every == 0 || cx.only().is_some() {
            let l = (idx / self.disk_every) % self.env.layouts.len();
            if self.write_pkg(l, &src, cx) {
                let obs = match compile_disk(&self.rt, &self.dirs.dir(l)) {
                    Ok(mut pkg) => call_probe(&mut pkg, self.tree(), idx, &self.progs[idx]),
                    Err(o) => o,
                };
                self.judge(cx, idx, &obs, "disk", Some(l));
                self.restore(l, &src);
            }
        }
    }

    fn batch_case(&self, members: &[usize], origin: &str, layout: Option<usize>) -> Value {
        let mem: Vec<(usize, &Prog)> = members.iter().map(|&i| (i, &self.progs[i])).collect();
        let src = package_sources(&self.env.world, &mem);
        let l = layout.map(|l| &self.env.layouts[l]);
        json!({
            "what": "batch",
            "tree_index": self.env.tree_idx, "placement": self.env.placement,
            "items": self.env.world.to_json(),
            "members": members,
            "origin": origin,
            "layout": l.map(|l| l.name(self.tree())),
            "files": files_json(self.tree(), &src, l),
        })
    }

    /// all members are predicted to compile and return their tags
    fn run_batch(&mut self, cx: &mut Cx, members: &[usize]) {
        let bsub = BATCH_BIT | members[0] as u64;
        if members.len() == 1 || cx.skipped_cases().contains(&bsub) {
            for &i in members {
                self.run_single(cx, i);
            }
            return;
        }
        if !cx.case(bsub) {
            return;
        }
        let replay = cx.only().is_some();
        let mem: Vec<(usize, &Prog)> = members.iter().map(|&i| (i, &self.progs[i])).collect();
        let src = package_sources(&self.env.world, &mem);
        drop(mem);
        // in memory
        let mut redo: Vec<usize> = vec![];
        match compile_tree(&self.rt, mem_tree(self.tree(), &src)) {
            Ok(mut pkg) => {
                for &i in members {
                    if !replay && !cx.case(i as u64) {
                        continue;
                    }
                    let obs = call_probe(&mut pkg, self.tree(), i, &self.progs[i]);
                    if obs.agrees(self.expects[i]) {
                        cx.transitions(1);
                        cx.validated(1);
                        cx.outcome(obs.hash());
                    } else {
                        redo.push(i);
                    }
                }
            }
            Err(_) => {
                // some member does not compile: find it
                cx.count("batches_split", 1);
                redo = members.to_vec();
            }
        }
        if !redo.is_empty() && !replay {
            let before = cx.res.counters.get("violations_raw").copied().unwrap_or(0);
            for &i in &redo {
                self.run_single(cx, i);
            }
            let after = cx.res.counters.get("violations_raw").copied().unwrap_or(0);
            if after == before {
                // every member is fine alone, but not together
                cx.violation(
                    "batch-interference",
                    bsub,
                    self.batch_case(members, "memory", None),
                    json!("every function returns its tag, as each does when compiled alone"),
                    json!({"members_failing_in_the_batch": redo}),
                );
            }
            return;
        }
        if !redo.is_empty() && replay {
            cx.violation(
                "batch-interference",
                bsub,
                self.batch_case(members, "memory", None),
                json!("every function returns its tag, as each does when compiled alone"),
                json!({"members_failing_in_the_batch": redo}),
            );
            return;
        }
        // on disk, one layout per batch in turn (quick: every 4th batch; the
        // lookup units go through every layout)
        self.batch_no += 1;
        let nl = self.env.layouts.len();
        let on_disk = replay || self.batch_no % self.disk_every == 0;
        let pick = (self.batch_no / self.disk_every) % nl;
        for l in 0..nl {
            if !(on_disk && (l == pick || replay)) {
                continue;
            }
            if !self.write_pkg(l, &src, cx) {
                continue;
            }
            cx.case(bsub);
            let mut bad: Vec<(usize, Obs)> = vec![];
            match compile_disk(&self.rt, &self.dirs.dir(l)) {
                Ok(mut pkg) => {
                    for &i in members {
                        let obs = call_probe(&mut pkg, self.tree(), i, &self.progs[i]);
                        cx.transitions(1);
                        cx.validated(1);
                        if !obs.agrees(self.expects[i]) {
                            bad.push((i, obs));
                        }
                    }
                }
                Err(o) => bad.push((members[0], o)),
            }
            self.restore(l, &src);
            if !bad.is_empty() {
                cx.violation(
                    "mismatch-disk",
                    bsub,
                    self.batch_case(members, "disk", Some(l)),
                    json!("the same results as for the in-memory tree"),
                    json!(bad.iter().map(|(i, o)| json!({"member": i, "observed": o.to_json()})).collect::<Vec<_>>()),
                );
            }
        }
    }
}

fn nontrivial(world: &World, p: &Prog, e: Expect) -> bool {
    let it = p.kind.item();
    let copies = world.has[it as usize].count_ones();
    let locals = p.param.is_some() as u32
        + p.pattern.is_some() as u32
        + (p.fnb.lets_before.len() + p.inner.lets_before.len() + p.sibling_lets.len()) as u32;
    match e {
        Expect::Tag(_) => copies + locals >= 2,
        Expect::Error => copies >= 1,
        Expect::Unspec => false,
    }
}

fn run_probes(env: &Env, site: usize, kind: Kind, group: usize, impkind: Option<usize>, cx: &mut Cx) {
    let progs = enumerate::probes(&env.world, site, kind, group, impkind, cx.cfg.tier);
    let expects: Vec<Expect> = progs.iter().map(|p| reference::expect(&env.world, p, Sem::SPEC)).collect();
    let base = disk::work_root().join(format!("u{}", cx.unit));
    let n_layouts = env.layouts.len();
    let item_src: Vec<String> = (0..env.world.tree.n()).map(|m| env.world.items_src(m)).collect();
    let disk_every = match cx.cfg.tier {
        Tier::Quick => 4,
        Tier::Thorough => 4,
    };
    let mut run = ProbeRun {
        env,
        rt: Runtime::new(),
        progs,
        expects,
        dirs: DiskDirs { base: base.clone(), ready: vec![false; n_layouts] },
        item_src,
        disk_every,
        batch_no: cx.unit,
    };
    let replay = cx.only();
    // group by shared top-level text
    let mut groups: BTreeMap<String, Vec<usize>> = BTreeMap::new();
    let mut order: Vec<String> = vec![];
    for (i, p) in run.progs.iter().enumerate() {
        let k = p.group_key();
        if !groups.contains_key(&k) {
            order.push(k.clone());
        }
        groups.entry(k).or_default().push(i);
    }
    if replay.is_none() {
        cx.states(run.progs.len() as u64);
        for (i, p) in run.progs.iter().enumerate() {
            let e = run.expects[i];
            if e == Expect::Unspec {
                cx.unspecified(1);
            }
            if nontrivial(&env.world, p, e) {
                cx.nontrivial(mix(mix(cx.unit as u64, i as u64), 0xC13));
            }
            match e {
                Expect::Tag(_) => cx.count("expected_tag", 1),
                Expect::Error => cx.count("expected_error", 1),
                Expect::Unspec => {}
            }
        }
        if let Some(i) = run.expects.iter().position(|e| matches!(e, Expect::Tag(_))) {
            if group > 0 && site > 0 && env.placement % 3 == 1 {
                let c = env.probe_case(i, &run.progs[i], "memory", None);
                cx.sample(json!({"files": c["files"], "call": c["call"], "reference": c["reference"]}));
            }
        }
    }
    for k in &order {
        let members = &groups[k];
        let oks: Vec<usize> = members.iter().copied().filter(|&i| matches!(run.expects[i], Expect::Tag(_))).collect();
        let errs: Vec<usize> = members.iter().copied().filter(|&i| run.expects[i] == Expect::Error).collect();
        match replay {
            Some(sub) if sub & BATCH_BIT != 0 => {
                for chunk in oks.chunks(BATCH_MAX) {
                    if BATCH_BIT | chunk[0] as u64 == sub {
                        run.run_batch(cx, chunk);
                    }
                }
            }
            Some(sub) => {
                for &i in oks.iter().chain(errs.iter()) {
                    if i as u64 == sub {
                        run.run_single(cx, i);
                    }
                }
            }
            None => {
                for chunk in oks.chunks(BATCH_MAX) {
                    run.run_batch(cx, chunk);
                }
                for &i in &errs {
                    run.run_single(cx, i);
                }
            }
        }
    }
    let _ = std::fs::remove_dir_all(&base);
    // the worker directory itself goes when it is empty
    let _ = std::fs::remove_dir(disk::work_root());
}

// ---------------------------------------------------------------- lookup units

/// module paths tried with `get_function` (existing or not, depending on the tree)
const LOOKUP_PATHS: [&str; 22] = [
    "", "a", "b", "c", "d", "a.a", "a.b", "a.c", "a.d", "b.a", "b.b", "b.c", "c.a", "a.a.a", "a.c.a", "a.c.c",
    "junk", "junk.z", "mod", "a.mod", "pkg", "pkg.a",
];

fn lookup_names() -> Vec<(String, &'static str, Item)> {
    let mut v = vec![];
    for p in LOOKUP_PATHS {
        for it in [Item::F, Item::K, Item::R] {
            let name = if p.is_empty() { it.name().to_string() } else { format!("{p}.{}", it.name()) };
            v.push((name, p, it));
        }
    }
    v
}

fn lookup_expect(world: &World, path: &str, it: Item) -> Expect {
    if path == "pkg" || path.starts_with("pkg.") {
        // "module path" with or without the leading `pkg`: the documentation
        // only shows root-level functions retrieved by their bare name
        return Expect::Unspec;
    }
    match world.tree.find(path) {
        Some(m) if it == Item::F && world.has(Item::F, m) => Expect::Tag(tag(Item::F, m)),
        _ => Expect::Error,
    }
}

fn lookup_case(env: &Env, origin: &str, layout: Option<&disk::Layout>, name: &str, src: &[String]) -> Value {
    let tree = &env.world.tree;
    json!({
        "what": "get_function",
        "tree": (0..tree.n()).map(|m| module_label(tree, m)).collect::<Vec<_>>(),
        "tree_index": env.tree_idx, "placement": env.placement,
        "items": env.world.to_json(),
        "origin": origin,
        "layout": layout.map(|l| l.name(tree)),
        "files": files_json(tree, src, layout),
        "get_function": name,
        "type": "fn() -> u32",
    })
}

fn run_lookup(env: &Env, cx: &mut Cx) {
    let tree = &env.world.tree;
    let rt = Runtime::new();
    let src: Vec<String> = (0..tree.n()).map(|m| env.world.items_src(m)).collect();
    let names = lookup_names();
    let base = disk::work_root().join(format!("u{}", cx.unit));
    if cx.only().is_none() {
        cx.states((names.len() * (1 + env.layouts.len())) as u64);
        if tree.n() >= 3 && env.placement == 5 {
            cx.sample(json!({"what": "get_function of every listed path, in memory and in every disk layout",
                              "files": files_json(tree, &src, Some(&env.layouts[env.layouts.len() - 1])),
                              "paths": names.iter().filter(|n| n.2 == Item::F).map(|n| n.0.clone()).collect::<Vec<_>>()}));
        }
    }
    // origin 0 = memory, 1.. = disk layouts
    for o in 0..=env.layouts.len() {
        let layout = if o == 0 { None } else { Some(&env.layouts[o - 1]) };
        let origin = if o == 0 { "memory" } else { "disk" };
        let setup_sub = (o as u64) << 16 | 0xffff;
        let wanted = cx.only().is_none_or(|s| s >> 16 == o as u64);
        if !wanted {
            continue;
        }
        if cx.only().is_some_and(|s| s != setup_sub) {
            // replay of one lookup: the package still has to be built
            cx.case(vcore::SUB_SETUP);
        } else if !cx.case(setup_sub) {
            continue;
        }
        let pkg = match layout {
            None => compile_tree(&rt, mem_tree(tree, &src)),
            Some(l) => {
                let d = base.join(format!("r{o}"));
                if let Err(e) = disk::write_all(&d, tree, l, &src) {
                    cx.note(format!("cannot write {}: {e}", d.display()));
                    cx.count("disk_io_errors", 1);
                    continue;
                }
                compile_disk(&rt, &d)
            }
        };
        let mut pkg = match pkg {
            Ok(p) => p,
            Err(obs) => {
                let class = if matches!(obs, Obs::Panic(_)) { "panic" } else { "mismatch" };
                let mut case = lookup_case(env, origin, layout, "(compile)", &src);
                if let Obs::CompileError(m) | Obs::Panic(m) = &obs {
                    case["message"] = json!(m);
                }
                cx.violation(class, setup_sub, case, json!("the package of item declarations compiles"), obs.to_json());
                continue;
            }
        };
        for (ci, (name, path, it)) in names.iter().enumerate() {
            let sub = (o as u64) << 16 | ci as u64;
            let e = lookup_expect(&env.world, path, *it);
            if e == Expect::Unspec {
                if cx.only().is_none() {
                    cx.unspecified(1);
                }
                continue;
            }
            if !cx.case(sub) {
                continue;
            }
            let obs = match pkg.get_function::<fn() -> u32>(name) {
                Ok(f) => Obs::Ok(f.call()),
                Err(e) => Obs::CompileError(e.to_string().lines().next().unwrap_or("").to_string()),
            };
            cx.transitions(1);
            cx.validated(1);
            cx.outcome(mix(7, obs.hash()));
            if matches!(e, Expect::Tag(_)) || tree.find(path).is_some() {
                cx.nontrivial(mix(mix(cx.unit as u64, sub), 0xC13));
            }
            if !obs.agrees(e) {
                let mut case = lookup_case(env, origin, layout, name, &src);
                if let Obs::CompileError(m) = &obs {
                    case["message"] = json!(m);
                }
                let expected = match e {
                    Expect::Tag(t) => json!({"ok": t}),
                    _ => json!("get_function fails"),
                };
                let observed = match &obs {
                    Obs::Ok(t) => json!({"ok": t}),
                    _ => json!("get_function fails"),
                };
                cx.violation("mismatch", sub, case, expected, observed);
            }
        }
    }
    // `a.roto` and `a/mod.roto` both present: "cannot both exist"
    if tree.n() > 1 && cx.only().is_none_or(|s| s == SUB_CONFLICT) && cx.case(SUB_CONFLICT) {
        let d = base.join("conflict");
        let l = disk::Layout { leaf_dirs: 0, distractors: false };
        let a = tree.find("a").unwrap();
        if disk::write_all(&d, tree, &l, &src).is_ok() {
            let as_file = d.join("a.roto");
            let as_dir = d.join("a").join("mod.roto");
            let _ = std::fs::create_dir_all(d.join("a"));
            let other = format!("fn f() -> u32 {{ 55 }}\n{}", "");
            if as_file.exists() {
                let _ = std::fs::write(&as_dir, &other);
            } else {
                let _ = std::fs::write(&as_file, &other);
            }
            let r = compile_disk(&rt, &d);
            cx.states(1);
            cx.transitions(1);
            cx.validated(1);
            let _ = a;
            match r {
                Err(Obs::CompileError(_)) => {}
                Err(o) => cx.violation(
                    "panic",
                    SUB_CONFLICT,
                    json!({"what": "conflict", "tree_index": env.tree_idx, "placement": env.placement,
                           "files": "a.roto and a/mod.roto both exist"}),
                    json!("compile error"),
                    o.to_json(),
                ),
                Ok(_) => cx.violation(
                    "mismatch",
                    SUB_CONFLICT,
                    json!({"what": "conflict", "tree_index": env.tree_idx, "placement": env.placement,
                           "files": "a.roto and a/mod.roto both exist"}),
                    json!("compile error"),
                    json!("compiles"),
                ),
            }
        }
    }
    let _ = std::fs::remove_dir_all(&base);
    // the worker directory itself goes when it is empty
    let _ = std::fs::remove_dir(disk::work_root());
}

// ---------------------------------------------------------------- check

struct C13;

fn env_of(u: &Unit) -> Env {
    match u {
        Unit::Members => Env::new(0, 0, false),
        Unit::Lookup { tree, placement } => Env::new(*tree, *placement, true),
        Unit::Probes { tree, placement, .. } | Unit::TypePos { tree, placement, .. } | Unit::ModNames { tree, placement } => {
            Env::new(*tree, *placement, false)
        }
    }
}

impl Check for C13 {
    fn id(&self) -> &'static str {
        "C13"
    }
    fn units(&self, cfg: &Cfg) -> usize {
        unit_table(cfg.tier).len()
    }
    fn run_unit(&self, unit: usize, cx: &mut Cx) {
        let u = unit_table(cx.cfg.tier)[unit].clone();
        let env = env_of(&u);
        match u {
            Unit::Lookup { .. } => run_lookup(&env, cx),
            Unit::Probes { site, kind, group, impkind, .. } => run_probes(&env, site, kind, group, impkind, cx),
            Unit::ModNames { .. } => modnames::run(&env, cx),
            Unit::TypePos { site, .. } => typos::run(&env, site, cx),
            Unit::Members => members::run(cx),
        }
    }
    fn describe(&self, cfg: &Cfg, unit: usize, sub: u64) -> Value {
        let u = unit_table(cfg.tier)[unit].clone();
        let env = env_of(&u);
        match u {
            Unit::Lookup { .. } => {
                if sub == SUB_CONFLICT {
                    return json!({"what": "conflict", "tree_index": env.tree_idx, "placement": env.placement,
                                  "files": "a.roto and a/mod.roto both exist"});
                }
                let names = lookup_names();
                let o = (sub >> 16) as usize;
                let ci = (sub & 0xffff) as usize;
                let src: Vec<String> = (0..env.world.tree.n()).map(|m| env.world.items_src(m)).collect();
                let layout = if o == 0 || o > env.layouts.len() { None } else { Some(&env.layouts[o - 1]) };
                let name = names.get(ci).map(|n| n.0.as_str()).unwrap_or("(compile)");
                lookup_case(&env, if o == 0 { "memory" } else { "disk" }, layout, name, &src)
            }
            Unit::ModNames { .. } => modnames::describe(&env, sub),
            Unit::TypePos { site, .. } => typos::describe(&env, site, sub),
            Unit::Members => members::describe(sub as usize),
            Unit::Probes { site, kind, group, impkind, .. } => {
                let progs = enumerate::probes(&env.world, site, kind, group, impkind, cfg.tier);
                if sub & BATCH_BIT != 0 {
                    let first = (sub & (BATCH_BIT - 1)) as usize;
                    let Some(p0) = progs.get(first) else { return json!({"what": "batch", "unit": unit}) };
                    let key = p0.group_key();
                    let members: Vec<(usize, &Prog)> = progs
                        .iter()
                        .enumerate()
                        .filter(|(i, p)| {
                            *i >= first
                                && p.group_key() == key
                                && matches!(reference::expect(&env.world, p, Sem::SPEC), Expect::Tag(_))
                        })
                        .take(BATCH_MAX)
                        .collect();
                    let src = package_sources(&env.world, &members);
                    return json!({"what": "batch", "tree_index": env.tree_idx, "placement": env.placement,
                                  "members": members.iter().map(|m| m.0).collect::<Vec<_>>(),
                                  "files": files_json(&env.world.tree, &src, None)});
                }
                match progs.get(sub as usize) {
                    Some(p) => env.probe_case(sub as usize, p, "memory or disk", None),
                    None => json!({"what": "setup", "unit": unit}),
                }
            }
        }
    }
    fn matches(&self, f: &Finding, v: &Violation) -> bool {
        let c = &v.case;
        if c["what"] == "module-name" {
            let o = &v.observed;
            return match f.matcher.as_str() {
                // A file / directory / FileSpec module_name that is no
                // identifier (or a keyword, or `pkg` for a child, or not `pkg`
                // for the root) becomes a module all the same. Exactly three
                // symptoms: functions reachable through the invalid name; the
                // code generator's DuplicateDefinition panic when the dotted
                // name equals the path of a real module holding the same
                // function; every retrieval failing under a root not called pkg.
                "module_name_not_validated" => match c["kind"].as_str() {
                    Some("invalid-name") => {
                        (v.class == "mismatch" && o["reachable_through_the_extra_name"] == true)
                            || (v.class == "panic"
                                && c["collides_with_real_module_path"] == true
                                && o["panic"].as_str().is_some_and(|m| m.contains("DuplicateDefinition")))
                    }
                    Some("root-not-pkg") => v.class == "mismatch" && o["every_existing_function_fails"] == true,
                    _ => false,
                },
                // `pkg.roto` in a sub-directory / `mod.roto` next to the root
                // `pkg.roto` vanish: the tree compiles and nothing of the file
                // is reachable.
                "pkg_or_mod_file_dropped" => {
                    matches!(c["kind"].as_str(), Some("subdir-pkg-file") | Some("root-mod-file"))
                        && v.class == "mismatch"
                        && o["extra_file_dropped"] == true
                        && o["base_lookups_wrong"].as_array().is_some_and(|a| a.is_empty())
                }
                _ => false,
            };
        }
        if c["what"] == "type-position" {
            let d = &c["detail"];
            return match f.matcher.as_str() {
                // return type resolved in the scope that already holds the
                // parameters: a parameter named like the first segment of the
                // return type makes a well-formed signature fail to compile
                // (the same name in a parameter type is fine)
                "return_type_in_parameter_scope" => {
                    v.class == "mismatch"
                        && c["family"] == "signature"
                        && d["position"] == "return"
                        && d["param_is_first_segment"] == true
                        && v.expected["ok"].is_u64()
                        && v.observed == "compile error"
                }
                _ => false,
            };
        }
        if v.class != "mismatch" || c["what"] != "reference" {
            return false;
        }
        let spec = &c["reference"];
        let ma = &c["defect_models"]["order_dependent"];
        let mb = &c["defect_models"]["super_walks"];
        let mab = &c["defect_models"]["both"];
        let obs = &v.observed;
        match f.matcher.as_str() {
            // Two imports in one scope, the textually earlier one starts with
            // the name the later one binds, and that name also means something
            // in an outer scope: the earlier import is resolved through the
            // outer scope. Matches only if the observation is exactly what
            // "textual order, earlier imports only" predicts.
            "import_order_dependence" => {
                c["features"]["max_imports_in_one_scope"].as_u64().unwrap_or(0) >= 2
                    && ((obs == ma && ma != spec) || (obs == mab && mab != spec && mab != mb))
            }
            // `super.X...`: X is not a direct member of the parent module but
            // is visible from the parent's scope (its top-level imports, or
            // `pkg` in the root scope). Matches only if the observation is
            // exactly what "walk outward from the parent module" predicts.
            "super_then_scope_walk" => {
                c["features"]["super_then_segment"] == true
                    && ((obs == mb && mb != spec) || (obs == mab && mab != spec && mab != ma))
            }
            _ => false,
        }
    }
    fn meta(&self, cfg: &Cfg) -> Meta {
        let nt = enumerate::n_trees(cfg.tier);
        Meta {
            rule: "also: type paths in generic declarations and function signatures under a same-named type parameter / parameter (typos.rs; non-trivial when the parameter carries the first segment's name or a tag is expected) and one extra invalid / pkg / mod module name per tree on disk and in memory (modnames.rs). Otherwise: a state is one probe program (tree x placement x site module x use kind x nesting x reference form x import kind x import placement x shadow x record variant) or one get_function lookup (tree x placement x origin/layout x path); each is executed in memory and on disk and compared with the reference resolver. A probe is non-trivial if the package holds at least two candidates for the name (copies of the item in different modules and/or a local of that name) when a tag is expected, or at least one copy when an error is expected (so a wrong reach would be observable); a lookup is non-trivial if its module path exists".into(),
            assumptions: vec![
                "items f/K/R, module names a/b/c/d: other identifiers follow the same code path".into(),
                "locals named pkg/super are not generated (documentation: special identifiers); parameter-vs-import in the function body block, cyclic imports and two imports of one name in one scope are counted as unspecified".into(),
                "get_function with a leading `pkg.` is counted as unspecified".into(),
            ],
            bounds: json!({
                "trees": TREE_PATHS[..nt].iter().map(|t| { let mut v = vec!["pkg".to_string()]; v.extend(t.iter().map(|s| format!("pkg.{s}"))); v }).collect::<Vec<_>>(),
                "max_modules": cfg.tier.pick(3, 4), "max_depth": 2,
                "placements_per_tree": "2^modules (each of f, K, R is placed in every subset once)",
                "use_kinds": KINDS.iter().map(|k| k.name()).collect::<Vec<_>>(),
                "nestings": NESTS.iter().map(|k| k.name()).collect::<Vec<_>>(),
                "reference_forms_without_import": 1 + enumerate::PFORMS.len(),
                "import_path_forms": enumerate::PFORMS[..enumerate::n_pforms(cfg.tier)].iter().map(|p| p.join(".")).collect::<Vec<_>>(),
                "import_kinds": ["single", "list", "module-then-path", "chain", "chain-reversed", "chain-of-3-reversed"],
                "import_placements": ["top-before", "top-after", "block-before", "block-after", "outer-before", "outer-after", "sibling-arm", "parent-module-top (use unchanged)", "parent-module-top (use via super.)", "parent-module-top (use via pkg...)"],
                "type_positions": "record S[P] / enum E[P] field types: P in {T, first segment, R} x 21 paths x {number, marker of every copy of R}; fn signatures: parameter named {n, first segment, R} before a parameter type / the return type x 16 paths x every copy of R",
                "module_name_cases": "next to pkg and next to pkg.a: x.y of every real module x.y, p.q, my-mod, fn, super, 1, .hidden, ' x ' as file and FileSpec child; my-mod/, x.roto/, pkg/, super/ as directories; child named pkg in memory; a/pkg.roto; mod.roto at the root; controls z9.roto, z9/, mod/; root named main in memory",
                "import_forms_with_shadows": enumerate::FULL_PFORMS,
                "import_groups_per_kind": "call, const: the forms with shadows; the remaining (lite) forms without shadows for call (quick: call and const); record uses: no-import group only",
                "import_shadows": enumerate::import_shadows(cfg.tier, 1, Kind::Const).iter().map(|s| format!("{s:?}")).collect::<Vec<_>>(),
                "shadows": ["none", "let-first-seg", "let-first-seg-outer", "param-first-seg", "let-last-seg", "let-after-use", "pattern-first-seg"],
                "disk_layouts": "every file/mod.roto choice for leaf modules; every 4th batch and every 4th single-probe package also from disk, the layouts in turn; the lookup units use every layout",
                "get_function_paths": LOOKUP_PATHS,
            }),
            states_are: "distinct probe programs and get_function lookups".into(),
            transitions_are: "compile-and-call executions (in memory and on disk) and get_function calls".into(),
        }
    }
    /// development aid: C13_DUMP=<file> writes one line per violation
    fn finish(&self, _cfg: &Cfg, agg: &mut vcore::Aggregate) {
        if let Ok(path) = std::env::var("C13_DUMP") {
            let mut out = String::new();
            for v in &agg.violations {
                let c = &v.case;
                out += &format!(
                    "{}\t{}\t{}\tsite={} nest={} kind={} use={} imports={} locals={}\texp={} obs={} models={}\n",
                    v.class, v.unit, v.sub, c["site"], c["nest"], c["kind"], c["use"], c["imports"], c["locals"],
                    v.expected, v.observed, c["defect_models"]
                );
            }
            let _ = std::fs::write(path, out);
        }
    }
    fn preflight(&self, cfg: &Cfg) -> Result<(), String> {
        if std::env::var("C13_COUNT").is_ok() {
            // development aid: size of the tier without running it
            let mut n = 0usize;
            let mut per_tree: BTreeMap<usize, usize> = BTreeMap::new();
            let table = unit_table(cfg.tier);
            for u in &table {
                if let Unit::Probes { tree, placement, site, kind, group, impkind } = u {
                    let env = Env::new(*tree, *placement, false);
                    let k = enumerate::probes(&env.world, *site, *kind, *group, *impkind, cfg.tier).len();
                    n += k;
                    *per_tree.entry(*tree).or_default() += k;
                }
            }
            eprintln!("units {} probes {} per tree {:?}", table.len(), n, per_tree);
        }
        if let Ok(path) = std::env::var("C13_UNITS") {
            // development aid: the unit table of the tier, one line per unit
            let mut out = String::new();
            for (i, u) in unit_table(cfg.tier).iter().enumerate() {
                out += &format!("{i}\t{u:?}\n");
            }
            let _ = std::fs::write(path, out);
        }
        typos::selfcheck()?;
        handtable::check()
    }
    /// generous: every case is a sub-millisecond compile, but the harness
    /// also does file I/O and on a heavily loaded machine all workers were
    /// once seen stalled together for more than 10 s
    fn case_timeout_s(&self, cfg: &Cfg) -> f64 {
        cfg.tier.pick(60.0, 120.0)
    }
}

fn main() {
    vcore::main(&C13)
}
