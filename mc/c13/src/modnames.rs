//! Module names. The tree of one (tree, placement) plus one extra file or
//! directory (on disk) / one extra `FileSpec` child (in memory) whose name is
//! not the name of a module that a script or `get_function` could designate.
//!
//! The documentation says: the root is `pkg.roto`, "files adjacent to
//! `pkg.roto` are submodules", a directory is one through its own `mod.roto`
//! (written `lib.roto` there), `foo.roto` and `foo/mod.roto` are equivalent;
//! `pkg`, `std`, `dep` (and `super`) are special identifiers usable only at
//! the start of a path; `foo.bar`, `12foo` and keywords are not identifiers.
//! The property: every function is retrievable by its module path, same-named
//! items in different modules never interfere, a name the rules do not reach
//! is an error.
//!
//! Oracle per kind of extra name:
//! * not an identifier, or a keyword / special identifier (`a.b`, `my-mod`,
//!   `fn`, `super`, `1`, `.hidden`, ` x `, `x.roto/`, a child `pkg/`): the
//!   tree is refused with a report, or the extra file is no module at all:
//!   every lookup of the base tree behaves as without it and nothing is
//!   reachable through the invalid name. Never a panic.
//! * `pkg.roto` in a sub-directory: refused ("no other files can be called
//!   `pkg.roto`"); in particular not dropped without a word.
//! * `mod.roto` next to the root `pkg.roto`: a sibling `name.roto` with the
//!   valid name `mod` — the module `pkg.mod`, like `mod/mod.roto` — or refused;
//!   not dropped without a word.
//! * controls: `z9.roto`, `z9/mod.roto`, `mod/mod.roto` are modules.
//! * in memory only: a root whose `module_name` is not `pkg`: refused, or it
//!   behaves like `pkg`.

use crate::model::*;
use crate::reference::Expect;
use crate::{Env, Obs, compile_disk, compile_tree, disk, lookup_expect, lookup_names, mem_file_name, module_label};
use roto::{FileSpec, FileTree, Runtime, SourceFile};
use vcore::util::mix;
use vcore::{Cx, Value, json};

pub const EXTRA_SRC: &str = "fn f() -> u32 { 77 }\nfn g77() -> u32 { 78 }\n";

#[derive(Clone, Copy, PartialEq, Eq, Debug)]
pub enum NameKind {
    Invalid,
    SubdirPkgFile,
    RootModFile,
    Control,
    RootNotPkg,
}

impl NameKind {
    fn name(self) -> &'static str {
        match self {
            NameKind::Invalid => "invalid-name",
            NameKind::SubdirPkgFile => "subdir-pkg-file",
            NameKind::RootModFile => "root-mod-file",
            NameKind::Control => "control",
            NameKind::RootNotPkg => "root-not-pkg",
        }
    }
}

#[derive(Clone, Debug)]
pub struct NameCase {
    pub kind: NameKind,
    /// module name (file stem / directory name / `module_name`)
    pub name: String,
    /// written as `name/mod.roto` instead of `name.roto` (disk only)
    pub as_dir: bool,
    /// the module whose directory receives the extra entry
    pub at: usize,
    pub memory: bool,
}

pub fn cases(tree: &Tree) -> Vec<NameCase> {
    let mut out = vec![];
    let mut ats = vec![0];
    if let Some(a) = tree.find("a") {
        ats.push(a);
    }
    // names that collide with the path of a real module: `x.y` for a real x.y
    let mut invalid: Vec<String> = vec![];
    for m in 1..tree.n() {
        let p = tree.path(m);
        if p.contains('.') {
            invalid.push(p);
        }
    }
    for s in ["p.q", "my-mod", "fn", "super", "1", ".hidden", " x "] {
        invalid.push(s.to_string());
    }
    for &at in &ats {
        for name in &invalid {
            // a dotted name stands next to the module its first part names
            if name.contains('.') && !name.starts_with('.') && at != 0 {
                continue;
            }
            out.push(NameCase { kind: NameKind::Invalid, name: name.clone(), as_dir: false, at, memory: false });
            out.push(NameCase { kind: NameKind::Invalid, name: name.clone(), as_dir: false, at, memory: true });
        }
        for name in ["my-mod", "x.roto", "pkg", "super"] {
            out.push(NameCase { kind: NameKind::Invalid, name: name.into(), as_dir: true, at, memory: false });
        }
        out.push(NameCase { kind: NameKind::Invalid, name: "pkg".into(), as_dir: false, at, memory: true });
        out.push(NameCase { kind: NameKind::Control, name: "z9".into(), as_dir: false, at, memory: false });
        out.push(NameCase { kind: NameKind::Control, name: "z9".into(), as_dir: true, at, memory: false });
        out.push(NameCase { kind: NameKind::Control, name: "z9".into(), as_dir: false, at, memory: true });
        out.push(NameCase { kind: NameKind::Control, name: "mod".into(), as_dir: true, at, memory: false });
        if at == 0 {
            out.push(NameCase { kind: NameKind::RootModFile, name: "mod".into(), as_dir: false, at, memory: false });
        } else {
            out.push(NameCase { kind: NameKind::SubdirPkgFile, name: "pkg".into(), as_dir: false, at, memory: false });
        }
    }
    out.push(NameCase { kind: NameKind::RootNotPkg, name: "main".into(), as_dir: false, at: 0, memory: true });
    out
}

fn layout_for(tree: &Tree, c: &NameCase) -> disk::Layout {
    let mut bits = 0;
    if c.at != 0 && tree.children(c.at).is_empty() {
        bits |= 1 << c.at;
    }
    disk::Layout { leaf_dirs: bits, distractors: false }
}

fn extra_rel_path(tree: &Tree, c: &NameCase) -> std::path::PathBuf {
    let d = disk::dir_of(tree, c.at);
    if c.as_dir { d.join(&c.name).join("mod.roto") } else { d.join(format!("{}.roto", c.name)) }
}

/// dotted prefix under which the extra module's functions would be filed
fn extra_prefix(tree: &Tree, c: &NameCase) -> String {
    let p = tree.path(c.at);
    if p.is_empty() { c.name.clone() } else { format!("{p}.{}", c.name) }
}

fn mem_tree_with(tree: &Tree, src: &[String], c: &NameCase) -> FileTree {
    fn spec(tree: &Tree, src: &[String], m: usize, c: &NameCase) -> FileSpec {
        let module_name = if m == 0 && c.kind == NameKind::RootNotPkg { c.name.clone() } else { tree.mods[m].name.to_string() };
        let f = SourceFile {
            name: mem_file_name(tree, m),
            module_name,
            contents: src[m].clone(),
            location_offset: 0,
            children: vec![],
        };
        let mut ch: Vec<FileSpec> = tree.children(m).into_iter().map(|k| spec(tree, src, k, c)).collect();
        if m == c.at && c.kind != NameKind::RootNotPkg {
            ch.push(FileSpec::File(SourceFile {
                name: format!("{}.roto", c.name),
                module_name: c.name.clone(),
                contents: EXTRA_SRC.into(),
                location_offset: 0,
                children: vec![],
            }));
        }
        if ch.is_empty() { FileSpec::File(f) } else { FileSpec::Directory(f, ch) }
    }
    FileTree::file_spec(spec(tree, src, 0, c))
}

pub fn case_json(env: &Env, c: &NameCase) -> Value {
    let tree = &env.world.tree;
    let src: Vec<String> = (0..tree.n()).map(|m| env.world.items_src(m)).collect();
    let l = layout_for(tree, c);
    let mut files: Vec<Value> = (0..tree.n())
        .map(|m| {
            let file = if c.memory { mem_file_name(tree, m) } else { disk::file_of(tree, &l, m).to_string_lossy().to_string() };
            let module = if m == 0 && c.kind == NameKind::RootNotPkg { c.name.clone() } else { module_label(tree, m) };
            json!({"module": module, "file": file, "text": src[m]})
        })
        .collect();
    if c.kind != NameKind::RootNotPkg {
        let file = if c.memory {
            format!("(FileSpec child of {} with module_name {:?})", module_label(tree, c.at), c.name)
        } else {
            extra_rel_path(tree, c).to_string_lossy().to_string()
        };
        files.push(json!({"extra": true, "file": file, "module_name": c.name, "text": EXTRA_SRC}));
    }
    let collides = tree.find(&extra_prefix(tree, c)).is_some_and(|m| m != 0) && c.name.contains('.');
    json!({
        "what": "module-name",
        "kind": c.kind.name(),
        "name": c.name,
        "as_directory": c.as_dir,
        "next_to": module_label(tree, c.at),
        "origin": if c.memory { "memory" } else { "disk" },
        "collides_with_real_module_path": collides,
        "tree": (0..tree.n()).map(|m| module_label(tree, m)).collect::<Vec<_>>(),
        "tree_index": env.tree_idx,
        "placement": env.placement,
        "items": env.world.to_json(),
        "files": files,
    })
}

fn expected_text(k: NameKind) -> &'static str {
    match k {
        NameKind::Invalid => "refused with a report, or no module: base lookups unchanged and nothing reachable through the invalid name",
        NameKind::SubdirPkgFile => "refused with a report",
        NameKind::RootModFile => "refused with a report, or the module pkg.mod (mod.f = 77, mod.g77 = 78)",
        NameKind::Control => "a module: <path>.f = 77, <path>.g77 = 78, base lookups unchanged",
        NameKind::RootNotPkg => "refused with a report, or every lookup as with a root called pkg",
    }
}

pub fn run(env: &Env, cx: &mut Cx) {
    let tree = &env.world.tree;
    let rt = Runtime::new();
    let src: Vec<String> = (0..tree.n()).map(|m| env.world.items_src(m)).collect();
    let all = cases(tree);
    let base = disk::work_root().join(format!("u{}", cx.unit));
    let names = lookup_names();
    if cx.only().is_none() {
        cx.states(all.len() as u64);
        if tree.n() == 3 && env.placement == 5 {
            cx.sample(json!({"what": "one extra file / directory / FileSpec child per case",
                              "extra_names": all.iter().map(|c| format!("{}{} next to {} ({})", c.name, if c.as_dir { "/mod.roto" } else { ".roto" },
                                   module_label(tree, c.at), if c.memory { "memory" } else { "disk" })).collect::<Vec<_>>()}));
        }
    }
    for (ci, c) in all.iter().enumerate() {
        if !cx.case(ci as u64) {
            continue;
        }
        let pkg = if c.memory {
            compile_tree(&rt, mem_tree_with(tree, &src, c))
        } else {
            let d = base.join("t");
            let l = layout_for(tree, c);
            let ok = disk::write_all(&d, tree, &l, &src).is_ok() && {
                let f = d.join(extra_rel_path(tree, c));
                f.parent().is_none_or(|p| std::fs::create_dir_all(p).is_ok()) && std::fs::write(&f, EXTRA_SRC).is_ok()
            };
            if !ok {
                cx.count("disk_io_errors", 1);
                continue;
            }
            compile_disk(&rt, &d)
        };
        cx.transitions(1);
        cx.validated(1);
        cx.nontrivial(mix(mix(cx.unit as u64, ci as u64), 0xC13));
        let prefix = extra_prefix(tree, c);
        let (class, observed): (Option<&str>, Value) = match pkg {
            Err(Obs::CompileError(m)) => {
                cx.outcome(mix(13, 1));
                match c.kind {
                    NameKind::Control => (Some("mismatch"), json!({"outcome": "compile error", "message": m})),
                    _ => (None, Value::Null),
                }
            }
            Err(Obs::Panic(m)) => {
                cx.outcome(mix(13, 2));
                (Some("panic"), json!({"panic": m}))
            }
            Err(o) => (Some("mismatch"), o.to_json()),
            Ok(mut pkg) => {
                // base lookups (functions only; paths under the extra prefix
                // belong to the extra module)
                let mut wrong: Vec<Value> = vec![];
                let mut existing = 0;
                let mut existing_failing = 0;
                for (name, path, it) in &names {
                    if *it != Item::F || *path == prefix || path.starts_with(&format!("{prefix}.")) {
                        continue;
                    }
                    let e = lookup_expect(&env.world, path, *it);
                    if e == Expect::Unspec {
                        continue;
                    }
                    let got = pkg.get_function::<fn() -> u32>(name).ok().map(|f| f.call());
                    let want = match e {
                        Expect::Tag(t) => Some(t),
                        _ => None,
                    };
                    if want.is_some() {
                        existing += 1;
                        if got.is_none() {
                            existing_failing += 1;
                        }
                    }
                    if got != want {
                        wrong.push(json!({"get_function": name, "expected": want, "observed": got}));
                    }
                }
                let xf = pkg.get_function::<fn() -> u32>(&format!("{prefix}.f")).ok().map(|f| f.call());
                let xg = pkg.get_function::<fn() -> u32>(&format!("{prefix}.g77")).ok().map(|f| f.call());
                let is_module = xf == Some(77) && xg == Some(78);
                let real = tree.find(&prefix);
                // f under the prefix may belong to a real module of that path
                let reachable = xg.is_some() || (real.is_none() && xf.is_some());
                let dropped = xf.is_none() && xg.is_none();
                cx.outcome(mix(13, 3 + reachable as u64 * 2 + dropped as u64 * 4 + wrong.len().min(3) as u64 * 8));
                let bad = match c.kind {
                    NameKind::Invalid => reachable || !wrong.is_empty(),
                    NameKind::SubdirPkgFile => true,
                    NameKind::RootModFile | NameKind::Control => !is_module || !wrong.is_empty(),
                    NameKind::RootNotPkg => !wrong.is_empty(),
                };
                if bad {
                    (
                        Some("mismatch"),
                        json!({"outcome": "compiled",
                               "reachable_through_the_extra_name": reachable,
                               "extra_file_dropped": dropped,
                               "extra.f": xf, "extra.g77": xg,
                               "every_existing_function_fails": existing > 0 && existing_failing == existing,
                               "base_lookups_wrong": wrong}),
                    )
                } else {
                    (None, Value::Null)
                }
            }
        };
        if let Some(class) = class {
            cx.violation(class, ci as u64, case_json(env, c), json!(expected_text(c.kind)), observed);
        }
    }
    let _ = std::fs::remove_dir_all(&base);
    let _ = std::fs::remove_dir(disk::work_root());
}

pub fn describe(env: &Env, sub: u64) -> Value {
    match cases(&env.world.tree).get(sub as usize) {
        Some(c) => case_json(env, c),
        None => json!({"what": "module-name", "sub": sub.to_string()}),
    }
}
