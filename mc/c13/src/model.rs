//! The abstract description of one probe program: a module tree, a placement
//! of the items `f`, `K`, `R`, and one probe function (the reference site)
//! with its imports and local shadows. Rendered to Roto source by `render`.

use vcore::{Value, json};

pub type Seg = &'static str;
pub type Path = Vec<Seg>;

// ------------------------------------------------------------------ trees

#[derive(Clone, Debug)]
pub struct Mod {
    pub name: Seg,
    pub parent: Option<usize>,
}

#[derive(Clone, Debug)]
pub struct Tree {
    /// mods[0] is `pkg`; parents precede children
    pub mods: Vec<Mod>,
}

impl Tree {
    pub fn from_paths(paths: &[&'static str]) -> Tree {
        let mut mods = vec![Mod { name: "pkg", parent: None }];
        let mut full: Vec<String> = vec![String::new()];
        for p in paths {
            let (par, name) = match p.rsplit_once('.') {
                Some((a, b)) => (a.to_string(), b),
                None => (String::new(), *p),
            };
            let parent = full.iter().position(|x| *x == par).expect("parent listed first");
            mods.push(Mod { name, parent: Some(parent) });
            full.push(p.to_string());
        }
        Tree { mods }
    }
    pub fn n(&self) -> usize {
        self.mods.len()
    }
    /// dotted path below `pkg` ("" for pkg itself)
    pub fn path(&self, m: usize) -> String {
        let mut segs = vec![];
        let mut c = m;
        while let Some(p) = self.mods[c].parent {
            segs.push(self.mods[c].name);
            c = p;
        }
        segs.reverse();
        segs.join(".")
    }
    pub fn child(&self, m: usize, name: &str) -> Option<usize> {
        self.mods.iter().position(|x| x.parent == Some(m) && x.name == name)
    }
    pub fn children(&self, m: usize) -> Vec<usize> {
        (0..self.n()).filter(|&c| self.mods[c].parent == Some(m)).collect()
    }
    pub fn find(&self, path: &str) -> Option<usize> {
        (0..self.n()).find(|&m| self.path(m) == path)
    }
}

/// All trees, simplest first. The first `QUICK_TREES` have <= 3 modules
/// (every shape with <= 3 modules, plus the labelling `a.a` where a child
/// carries its parent's name). Then every shape with 4 modules and depth <= 2
/// (three children; two children and a grandchild; a child with two
/// grandchildren) and the labellings where a grandchild carries the name of
/// its uncle (`a.b` next to `b`, `b.a` next to `a`).
pub const TREE_PATHS: [&[&str]; 10] = [
    &[],
    &["a"],
    &["a", "b"],
    &["a", "a.c"],
    &["a", "a.a"],
    &["a", "b", "d"],
    &["a", "b", "a.c"],
    &["a", "a.c", "a.d"],
    &["a", "b", "a.b"],
    &["a", "b", "b.a"],
];
pub const QUICK_TREES: usize = 5;

pub fn tree(i: usize) -> Tree {
    Tree::from_paths(TREE_PATHS[i])
}

// ------------------------------------------------------------------ items

#[derive(Clone, Copy, PartialEq, Eq, Debug)]
pub enum Item {
    F = 0,
    K = 1,
    R = 2,
}
pub const ITEM_NAMES: [Seg; 3] = ["f", "K", "R"];

impl Item {
    pub fn name(self) -> Seg {
        ITEM_NAMES[self as usize]
    }
    pub fn from_name(s: &str) -> Option<Item> {
        match s {
            "f" => Some(Item::F),
            "K" => Some(Item::K),
            "R" => Some(Item::R),
            _ => None,
        }
    }
}

/// tag observable for the copy of `item` in module `m`
pub fn tag(item: Item, m: usize) -> u32 {
    10 * (item as u32 + 1) + m as u32
}

/// which modules hold which items
#[derive(Clone, Debug)]
pub struct World {
    pub tree: Tree,
    /// bit m of has[item] = module m declares the item
    pub has: [u32; 3],
}

impl World {
    /// placement `p` in 0..2^n: `f` is placed in subset p, `K` and `R` in the
    /// images of p under two fixed bijections of the subsets, so every item
    /// is placed in every subset once.
    pub fn new(tree: Tree, p: u32) -> World {
        let n = tree.n() as u32;
        let mask = (1u32 << n) - 1;
        let f = p & mask;
        let k = (p.wrapping_mul(3).wrapping_add(1)) & mask;
        let r = (p.wrapping_mul(5).wrapping_add(2)) & mask;
        World { tree, has: [f, k, r] }
    }
    pub fn has(&self, item: Item, m: usize) -> bool {
        self.has[item as usize] >> m & 1 == 1
    }
    pub fn items_src(&self, m: usize) -> String {
        let mut s = String::new();
        if self.has(Item::F, m) {
            s += &format!("fn f() -> u32 {{ {} }}\n", tag(Item::F, m));
        }
        if self.has(Item::K, m) {
            s += &format!("const K: u32 = {};\n", tag(Item::K, m));
        }
        if self.has(Item::R, m) {
            s += &format!("record R {{ m{m}: u32 }}\n");
        }
        s
    }
    pub fn to_json(&self) -> Value {
        let mods: Vec<Value> = (0..self.tree.n())
            .map(|m| {
                let items: Vec<&str> = [Item::F, Item::K, Item::R]
                    .iter()
                    .filter(|i| self.has(**i, m))
                    .map(|i| i.name())
                    .collect();
                json!({"module": if m == 0 { "pkg".to_string() } else { format!("pkg.{}", self.tree.path(m)) }, "items": items})
            })
            .collect();
        json!(mods)
    }
}

// ------------------------------------------------------------------ probes

/// how the referenced item is used (decides what is observable)
#[derive(Clone, Copy, PartialEq, Eq, Debug)]
pub enum Kind {
    /// `PATH()` — function call, returns the tag
    Call,
    /// `PATH` — constant, is the tag
    Const,
    /// `PATH { m<v>: tag }` — record literal of the type
    RecLit,
    /// `let q: PATH = { m<v>: tag }` — type annotation
    RecTy,
}
pub const KINDS: [Kind; 4] = [Kind::Call, Kind::Const, Kind::RecLit, Kind::RecTy];

impl Kind {
    pub fn item(self) -> Item {
        match self {
            Kind::Call => Item::F,
            Kind::Const => Item::K,
            Kind::RecLit | Kind::RecTy => Item::R,
        }
    }
    pub fn name(self) -> &'static str {
        match self {
            Kind::Call => "call",
            Kind::Const => "const",
            Kind::RecLit => "record-literal",
            Kind::RecTy => "record-type",
        }
    }
}

/// where in the site module the reference stands
#[derive(Clone, Copy, PartialEq, Eq, Debug)]
pub enum Nest {
    /// directly in the body of a module-level function
    Body,
    /// in a nested block of the function body
    Block,
    /// in the `then` arm of an `if` in the function body
    If,
    /// in a match arm in the function body
    Match,
    /// in the `else` arm of an `if` (the sibling arm is the `then` arm, which
    /// comes first: nothing declared there may be visible here)
    Else,
    /// in the second arm of a match (the sibling arm, with its pattern, comes first)
    Arm2,
    /// at item level: constant initialiser (Call, Const, RecLit) or
    /// parameter type of a function signature (RecTy)
    ItemLevel,
}
pub const NESTS: [Nest; 7] =
    [Nest::Body, Nest::Block, Nest::If, Nest::Match, Nest::Else, Nest::Arm2, Nest::ItemLevel];

impl Nest {
    pub fn name(self) -> &'static str {
        match self {
            Nest::Body => "fn-body",
            Nest::Block => "nested-block",
            Nest::If => "if-arm",
            Nest::Match => "match-arm",
            Nest::Else => "else-arm",
            Nest::Arm2 => "second-match-arm",
            Nest::ItemLevel => "item-level",
        }
    }
    pub fn has_inner(self) -> bool {
        matches!(self, Nest::Block | Nest::If | Nest::Match | Nest::Else | Nest::Arm2)
    }
    pub fn has_sibling(self) -> bool {
        matches!(self, Nest::If | Nest::Match | Nest::Else | Nest::Arm2)
    }
}

/// one `import` statement
#[derive(Clone, Debug, PartialEq, Eq)]
pub enum ImportStmt {
    /// `import a.b.c;`
    Single(Path),
    /// `import a.b.{x, y};`
    List(Path, Vec<Seg>),
}

impl ImportStmt {
    pub fn render(&self) -> String {
        match self {
            ImportStmt::Single(p) => format!("import {};", p.join(".")),
            ImportStmt::List(p, l) => format!("import {}.{{{}}};", p.join("."), l.join(", ")),
        }
    }
    /// the single paths this statement stands for (documentation: a list
    /// import "is identical to" the separate imports)
    pub fn paths(&self) -> Vec<Path> {
        match self {
            ImportStmt::Single(p) => vec![p.clone()],
            ImportStmt::List(p, l) => l
                .iter()
                .map(|x| {
                    let mut q = p.clone();
                    q.push(x);
                    q
                })
                .collect(),
        }
    }
}

/// local values that can shadow; the tag says which one was picked
pub const TAG_FN_LET: u32 = 91;
pub const TAG_IN_LET: u32 = 92;
pub const TAG_PARAM: u32 = 93;
pub const TAG_PATTERN: u32 = 94;
pub const TAG_LATE_LET: u32 = 95;
pub const TAG_SIBLING_LET: u32 = 96;

#[derive(Clone, Debug, Default)]
pub struct BlockParts {
    pub imports_before: Vec<ImportStmt>,
    pub imports_after: Vec<ImportStmt>,
    /// `let NAME = <tag>;` before the use (or before the inner construct)
    pub lets_before: Vec<Seg>,
    /// `let NAME = 95;` after the use
    pub lets_after: Vec<Seg>,
}

#[derive(Clone, Debug)]
pub struct Prog {
    pub site: usize,
    pub nest: Nest,
    pub kind: Kind,
    /// the reference under test
    pub use_path: Path,
    /// for record kinds: the module whose marker field the text names
    pub rec_variant: usize,
    pub top_before: Vec<ImportStmt>,
    pub top_after: Vec<ImportStmt>,
    /// top-level imports placed in another module (the parent of the site)
    pub foreign: Option<(usize, Vec<ImportStmt>)>,
    /// name of a `u32` parameter of the probe function
    pub param: Option<Seg>,
    /// name bound by the pattern of the match arm (Nest::Match)
    pub pattern: Option<Seg>,
    /// function body block
    pub fnb: BlockParts,
    /// inner block / arm (nest Block, If, Match)
    pub inner: BlockParts,
    /// imports in the sibling arm (nest If, Match, Else, Arm2)
    pub sibling: Vec<ImportStmt>,
    /// `let NAME = 96;` in the sibling arm (must not interfere)
    pub sibling_lets: Vec<Seg>,
}

impl Prog {
    pub fn new(site: usize, nest: Nest, kind: Kind, use_path: Path) -> Prog {
        Prog {
            site,
            nest,
            kind,
            use_path,
            rec_variant: 0,
            top_before: vec![],
            top_after: vec![],
            foreign: None,
            param: None,
            pattern: None,
            fnb: BlockParts::default(),
            inner: BlockParts::default(),
            sibling: vec![],
            sibling_lets: vec![],
        }
    }

    /// key of everything that is shared by all probes of one package
    pub fn group_key(&self) -> String {
        let mut s = String::new();
        for i in &self.top_before {
            s += &i.render();
        }
        s += "|";
        for i in &self.top_after {
            s += &i.render();
        }
        s += "|";
        if let Some((m, v)) = &self.foreign {
            s += &format!("{m}:");
            for i in v {
                s += &i.render();
            }
        }
        s
    }

    fn use_expr(&self) -> (String, String) {
        // returns (statements computing `r`, nothing else)
        let p = self.use_path.join(".");
        let v = self.rec_variant;
        let t = tag(Item::R, v);
        match self.kind {
            Kind::Call => (format!("let r = {p}();"), String::new()),
            Kind::Const => (format!("let r = {p};"), String::new()),
            Kind::RecLit => (format!("let q = {p} {{ m{v}: {t} }}; let r = q.m{v};"), String::new()),
            Kind::RecTy => (format!("let q: {p} = {{ m{v}: {t} }}; let r = q.m{v};"), String::new()),
        }
    }

    fn block_inside(&self, b: &BlockParts, let_tag: u32, core: &str, ind: &str) -> String {
        let mut s = String::new();
        for i in &b.imports_before {
            s += &format!("{ind}{}\n", i.render());
        }
        for l in &b.lets_before {
            s += &format!("{ind}let {l} = {let_tag};\n");
        }
        s += core;
        for l in &b.lets_after {
            s += &format!("{ind}let {l} = {TAG_LATE_LET};\n");
        }
        for i in &b.imports_after {
            s += &format!("{ind}{}\n", i.render());
        }
        s
    }

    /// the probe's own declarations (function, helper items), named by `idx`
    pub fn render_fn(&self, idx: usize) -> String {
        let (use_stmts, _) = self.use_expr();
        let param = match self.param {
            Some(p) => format!("{p}: u32"),
            None => String::new(),
        };
        match self.nest {
            Nest::ItemLevel => {
                let p = self.use_path.join(".");
                let v = self.rec_variant;
                let t = tag(Item::R, v);
                match self.kind {
                    Kind::Call => format!("const P{idx}: u32 = {p}();\nfn p{idx}() -> u32 {{\n    P{idx}\n}}\n"),
                    Kind::Const => format!("const P{idx}: u32 = {p};\nfn p{idx}() -> u32 {{\n    P{idx}\n}}\n"),
                    Kind::RecLit => format!(
                        "const P{idx}: u32 = ({p} {{ m{v}: {t} }}).m{v};\nfn p{idx}() -> u32 {{\n    P{idx}\n}}\n"
                    ),
                    Kind::RecTy => format!(
                        "fn q{idx}(x: {p}) -> u32 {{\n    x.m{v}\n}}\nfn p{idx}() -> u32 {{\n    q{idx}({{ m{v}: {t} }})\n}}\n"
                    ),
                }
            }
            Nest::Body => {
                let core = format!("    {use_stmts}\n");
                let body = self.block_inside(&self.fnb, TAG_FN_LET, &core, "    ");
                format!("fn p{idx}({param}) -> u32 {{\n{body}    r\n}}\n")
            }
            Nest::Block | Nest::If | Nest::Match | Nest::Else | Nest::Arm2 => {
                let core = format!("        {use_stmts}\n");
                let inner = self.block_inside(&self.inner, TAG_IN_LET, &core, "        ");
                let mut sib = String::new();
                for i in &self.sibling {
                    sib += &format!("        {}\n", i.render());
                }
                for l in &self.sibling_lets {
                    sib += &format!("        let {l} = {TAG_SIBLING_LET};\n");
                }
                let construct = match self.nest {
                    Nest::Block => format!("    let v = {{\n{inner}        r\n    }};\n"),
                    Nest::If => format!(
                        "    let v = if true {{\n{inner}        r\n    }} else {{\n{sib}        0\n    }};\n"
                    ),
                    Nest::Match => {
                        let pat = self.pattern.unwrap_or("y");
                        format!(
                            "    let v = match Option.Some({TAG_PATTERN}) {{\n        Some({pat}) => {{\n{inner}        r\n        }}\n        None => {{\n{sib}        0\n        }}\n    }};\n"
                        )
                    }
                    Nest::Else => format!(
                        "    let v = if false {{\n{sib}        0\n    }} else {{\n{inner}        r\n    }};\n"
                    ),
                    Nest::Arm2 => {
                        let pat = self.pattern.unwrap_or("y");
                        format!(
                            "    let v = match (if true {{ Option.None }} else {{ Option.Some({TAG_PATTERN}) }}) {{\n        Some({pat}) => {{\n{sib}        0\n        }}\n        None => {{\n{inner}        r\n        }}\n    }};\n"
                        )
                    }
                    _ => unreachable!(),
                };
                let body = self.block_inside(&self.fnb, TAG_FN_LET, &construct, "    ");
                format!("fn p{idx}({param}) -> u32 {{\n{body}    v\n}}\n")
            }
        }
    }

    pub fn top_before_src(&self) -> String {
        self.top_before.iter().map(|i| i.render() + "\n").collect()
    }
    pub fn top_after_src(&self) -> String {
        self.top_after.iter().map(|i| i.render() + "\n").collect()
    }
}

/// Sources of all modules of a package holding the probes `members`
/// (index in unit, prog), which all share one group key.
pub fn package_sources(world: &World, members: &[(usize, &Prog)]) -> Vec<String> {
    let n = world.tree.n();
    let mut src: Vec<String> = (0..n).map(|m| world.items_src(m)).collect();
    let first = members[0].1;
    let site = first.site;
    let mut s = first.top_before_src();
    s += &src[site];
    for (idx, p) in members {
        s += &p.render_fn(*idx);
    }
    s += &first.top_after_src();
    src[site] = s;
    if let Some((m, imps)) = &first.foreign {
        let mut f: String = imps.iter().map(|i| i.render() + "\n").collect();
        f += &src[*m];
        src[*m] = f;
    }
    src
}
