//! Preflight self-test of the oracle: situations whose result was derived by
//! hand from the language reference ("Modules", "Imports") and the property
//! statement. The reference resolver must reproduce every one of them. (They
//! were also run by hand against the implementation while the check was
//! written; the two where the implementation disagrees are the listed
//! findings and carry the *documented* expectation here.)

use crate::model::*;
use crate::reference::{Expect, Sem, expect};

fn world() -> World {
    // pkg(0), pkg.a(1), pkg.b(2), pkg.a.c(3), pkg.a.b(4); f, K, R everywhere
    World { tree: Tree::from_paths(&["a", "b", "a.c", "a.b"]), has: [31, 31, 31] }
}

fn sparse() -> World {
    // only pkg.b has K; f only in pkg
    World { tree: Tree::from_paths(&["a", "b", "a.c", "a.b"]), has: [1, 4, 0] }
}

fn imp(p: &[Seg]) -> ImportStmt {
    ImportStmt::Single(p.to_vec())
}

struct Row {
    what: &'static str,
    world: World,
    prog: Prog,
    want: Expect,
}

fn rows() -> Vec<Row> {
    let mut v = vec![];
    let mut add = |what: &'static str, world: World, prog: Prog, want: Expect| v.push(Row { what, world, prog, want });
    let k = |site, nest, path: &[Seg]| Prog::new(site, nest, Kind::Const, path.to_vec());
    let f = |site, nest, path: &[Seg]| Prog::new(site, nest, Kind::Call, path.to_vec());

    add("bare name finds the module's own item", world(), f(1, Nest::Body, &["f"]), Expect::Tag(11));
    add("a module does not see its parent's items", sparse(), f(1, Nest::Body, &["f"]), Expect::Error);
    add("a child module is not visible from a grandchild by bare name", world(), f(3, Nest::Body, &["a", "f"]), Expect::Error);
    add("absolute path", world(), f(3, Nest::Body, &["pkg", "a", "f"]), Expect::Tag(11));
    add("super", world(), f(1, Nest::Body, &["super", "f"]), Expect::Tag(10));
    add("super at the root", world(), f(0, Nest::Body, &["super", "f"]), Expect::Error);
    add("super.super", world(), f(3, Nest::Body, &["super", "super", "f"]), Expect::Tag(10));
    add("too many supers", world(), f(1, Nest::Body, &["super", "super", "f"]), Expect::Error);
    add("super.b from pkg.a is pkg.b", world(), f(1, Nest::Body, &["super", "b", "f"]), Expect::Tag(12));
    add("b from pkg.a is its own child pkg.a.b", world(), f(1, Nest::Body, &["b", "f"]), Expect::Tag(14));
    add("super.b from pkg.a.c is pkg.a.b", world(), f(3, Nest::Body, &["super", "b", "f"]), Expect::Tag(14));
    add("super not leading", world(), f(0, Nest::Body, &["pkg", "super", "f"]), Expect::Error);
    add("pkg not leading (special identifier only at the start)", world(), k(1, Nest::Body, &["super", "pkg", "K"]), Expect::Error);
    {
        let mut p = k(1, Nest::Body, &["K"]);
        p.top_before = vec![imp(&["super", "K"])];
        add("declaration wins over import of the same (module) scope", world(), p, Expect::Tag(21));
    }
    {
        let mut p = k(1, Nest::Body, &["K"]);
        p.fnb.imports_after = vec![imp(&["super", "K"])];
        add("block import applies to the whole block (import after use)", world(), p, Expect::Tag(20));
    }
    {
        let mut p = k(1, Nest::Block, &["K"]);
        p.fnb.imports_before = vec![imp(&["super", "K"])];
        p.inner.lets_before = vec!["K"];
        add("inner let wins over outer import", world(), p, Expect::Tag(TAG_IN_LET));
    }
    {
        let mut p = k(1, Nest::Block, &["K"]);
        p.fnb.lets_before = vec!["K"];
        p.inner.imports_before = vec![imp(&["super", "K"])];
        add("inner import wins over outer let", world(), p, Expect::Tag(20));
    }
    {
        let mut p = k(1, Nest::Body, &["K"]);
        p.fnb.lets_before = vec!["K"];
        p.fnb.imports_before = vec![imp(&["super", "K"])];
        add("let wins over import of the same block", world(), p, Expect::Tag(TAG_FN_LET));
    }
    {
        let mut p = f(1, Nest::Body, &["a", "f"]);
        p.fnb.lets_before = vec!["a"];
        add("a local hides a module in the first segment", world(), p, Expect::Error);
    }
    {
        let mut p = k(1, Nest::Body, &["super", "K"]);
        p.fnb.lets_before = vec!["K"];
        add("a local does not interfere with a later segment", world(), p, Expect::Tag(20));
    }
    {
        let mut p = k(1, Nest::If, &["K"]);
        p.sibling = vec![imp(&["super", "K"])];
        add("import in the sibling arm does not reach", world(), p, Expect::Tag(21));
    }
    {
        let mut p = k(1, Nest::If, &["K"]);
        p.sibling = vec![imp(&["super", "Q"])];
        add("an unresolvable import anywhere fails the compile", world(), p, Expect::Error);
    }
    {
        let mut p = k(1, Nest::Body, &["K"]);
        p.fnb.imports_before = vec![ImportStmt::List(vec!["super"], vec!["f", "K"])];
        add("list import", world(), p, Expect::Tag(20));
    }
    {
        let mut p = k(1, Nest::Body, &["K"]);
        p.fnb.imports_before = vec![ImportStmt::List(vec!["super", "b"], vec!["f", "K"])];
        add("list import with one unresolvable member", sparse(), p, Expect::Error);
    }
    {
        // documented: import order does not matter; by the lookup rules `b` is
        // the block's own import (pkg.b), not the outer declaration pkg.a.b
        let mut p = k(1, Nest::Body, &["K"]);
        p.fnb.imports_before = vec![imp(&["super", "b"]), imp(&["b", "K"])];
        add("import through an imported module", world(), p.clone(), Expect::Tag(22));
        p.fnb.imports_before = vec![imp(&["b", "K"]), imp(&["super", "b"])];
        add("... in reverse order (FINDING: implementation gives 24)", world(), p, Expect::Tag(22));
    }
    {
        let mut p = k(1, Nest::Body, &["K"]);
        p.top_before = vec![imp(&["b", "K"]), imp(&["super", "b"])];
        add("module scope: the child module declaration `b` wins over the import `b`", sparse(), p, Expect::Error);
    }
    {
        // pkg imports b.K; pkg.a says super.K: imports are not members
        let mut p = k(1, Nest::Body, &["super", "K"]);
        p.foreign = Some((0, vec![imp(&["b", "K"])]));
        add("an import of the parent is not a member of the parent (FINDING: implementation gives 22)", sparse(), p, Expect::Error);
    }
    {
        let mut p = k(3, Nest::Body, &["a", "K"]);
        p.fnb.imports_before = vec![imp(&["super"])];
        add("`import super;` binds the parent under its own name", world(), p, Expect::Tag(21));
    }
    {
        let mut p = k(1, Nest::Match, &["K"]);
        p.pattern = Some("K");
        add("pattern variable", world(), p, Expect::Tag(TAG_PATTERN));
    }
    {
        let mut p = k(1, Nest::Body, &["K"]);
        p.param = Some("K");
        p.fnb.imports_before = vec![imp(&["super", "K"])];
        add("parameter vs import in the body block: not documented", world(), p, Expect::Unspec);
    }
    {
        let mut p = k(1, Nest::Body, &["K"]);
        p.param = Some("K");
        p.top_before = vec![imp(&["super", "K"])];
        add("parameter vs top-level import", world(), p, Expect::Tag(TAG_PARAM));
    }
    {
        let mut p = f(1, Nest::Body, &["f"]);
        p.fnb.lets_before = vec!["f"];
        add("a local u32 is not callable", world(), p, Expect::Error);
    }
    {
        let mut p = Prog::new(1, Nest::Body, Kind::RecLit, vec!["super", "R"]);
        p.rec_variant = 0;
        add("record literal through a path", world(), p.clone(), Expect::Tag(30));
        p.rec_variant = 1;
        add("record literal naming another module's field", world(), p, Expect::Error);
    }
    {
        let mut p = k(1, Nest::Body, &["K"]);
        p.fnb.lets_after = vec!["K"];
        add("a let after the use does not count", world(), p, Expect::Tag(21));
    }
    add("constant initialiser is a reference site", world(), k(1, Nest::ItemLevel, &["super", "K"]), Expect::Tag(20));
    v
}

pub fn check() -> Result<(), String> {
    for r in rows() {
        let got = expect(&r.world, &r.prog, Sem::SPEC);
        if got != r.want {
            return Err(format!(
                "reference resolver disagrees with the hand-derived table: {}: want {:?}, got {:?}\n{}",
                r.what,
                r.want,
                got,
                r.prog.render_fn(0)
            ));
        }
    }
    // the defect models must reproduce the two known deviations
    let w = world();
    let mut p = Prog::new(1, Nest::Body, Kind::Const, vec!["K"]);
    p.fnb.imports_before = vec![imp(&["b", "K"]), imp(&["super", "b"])];
    if expect(&w, &p, Sem::defect(true, false)) != Expect::Tag(24) {
        return Err("defect model order_dependent does not predict 24".into());
    }
    let p = Prog::new(1, Nest::Body, Kind::Const, vec!["super", "pkg", "K"]);
    if expect(&w, &p, Sem::defect(false, true)) != Expect::Tag(20) {
        return Err("defect model super_walks does not predict 20".into());
    }
    Ok(())
}
