//! The bounded space: units and the probes of each unit (random access).

use crate::model::*;
use vcore::Tier;

/// module-path forms (what stands before the item name in a dotted
/// reference, and what a whole-module import names). The first `FULL_PFORMS`
/// are the forms of DESIGN C13; as import paths they are combined with every
/// import kind x placement x shadow. The remaining ("lite") forms are combined
/// with every import kind x placement, without local shadows.
pub const PFORMS: [&[Seg]; 15] = [
    &["a"],
    &["super"],
    &["pkg", "a"],
    &["super", "b"],
    &["super", "super"],
    // lite
    &["super", "pkg"],
    &["pkg", "a", "c"],
    &["pkg"],
    &["a", "c"],
    &["b"],
    &["c"],
    &["super", "a"],
    &["super", "super", "b"],
    &["a", "a"],
    &["pkg", "super"],
];
pub const FULL_PFORMS: usize = 5;
pub const QUICK_PFORMS: usize = 7;
/// group number of the import form `super.pkg`
pub const SUPER_PKG_GROUP: usize = 6;

#[derive(Clone, Copy, PartialEq, Eq, Debug)]
pub enum Shadow {
    None,
    /// `let <first segment> = ..` in the block of the use, before it
    LetInnerFirst,
    /// the same in the function body around the inner construct
    LetOuterFirst,
    /// a parameter named like the first segment
    ParamFirst,
    /// `let <item name> = ..` before a dotted use (must not interfere)
    LetInnerLast,
    /// `let <first segment> = ..` after the use (must not interfere)
    LetAfterFirst,
    /// the match arm's pattern binds the first segment (second-match-arm: the
    /// pattern of the *other* arm does, which must not interfere)
    PatternFirst,
    /// `let <first segment> = ..` in the sibling arm (must not interfere)
    LetSiblingFirst,
}
const SHADOWS: [Shadow; 8] = [
    Shadow::None,
    Shadow::LetInnerFirst,
    Shadow::LetOuterFirst,
    Shadow::ParamFirst,
    Shadow::LetInnerLast,
    Shadow::LetAfterFirst,
    Shadow::PatternFirst,
    Shadow::LetSiblingFirst,
];

#[derive(Clone, Copy, PartialEq, Eq, Debug)]
pub enum Place {
    TopBefore,
    TopAfter,
    InBefore,
    InAfter,
    OuterBefore,
    OuterAfter,
    Sibling,
    /// top level of the parent module of the site (must have no effect on
    /// the site: imports are not members and a module does not see its
    /// parent's scope)
    Foreign,
    /// the same, and the use goes through the parent with `super.`: an import
    /// of the parent is not a member of the parent
    ForeignViaSuper,
    /// the same with the absolute path of the parent
    ForeignViaAbs,
}
const PLACES: [Place; 10] = [
    Place::TopBefore,
    Place::TopAfter,
    Place::InBefore,
    Place::InAfter,
    Place::OuterBefore,
    Place::OuterAfter,
    Place::Sibling,
    Place::Foreign,
    Place::ForeignViaSuper,
    Place::ForeignViaAbs,
];

#[derive(Clone, Copy, PartialEq, Eq, Debug)]
pub enum ImpKind {
    /// `import P.X;` then `X`
    Single,
    /// `import P.{X, Y};` then `X`
    List,
    /// `import P;` then `<name of P>.X`
    Module,
    /// `import P; import <name of P>.X;` then `X`
    ChainFwd,
    /// `import <name of P>.X; import P;` then `X` (needs a second round)
    ChainRev,
    /// for P = Q.m: `import m.X; import <name of Q>.m; import Q;` then `X`
    /// (needs a third round when neither Q's name nor m is visible otherwise)
    Chain3Rev,
}
const IMPKINDS: [ImpKind; 6] = [
    ImpKind::Single,
    ImpKind::List,
    ImpKind::Module,
    ImpKind::ChainFwd,
    ImpKind::ChainRev,
    ImpKind::Chain3Rev,
];

#[derive(Clone, Debug)]
pub enum Unit {
    /// `get_function` by path + file discovery of one (tree, placement)
    Lookup { tree: usize, placement: u32 },
    /// reference probes; group 0 = no import, g >= 1 = import path form g-1
    /// `impkind`: restricted to one import kind (index into IMPKINDS)
    Probes { tree: usize, placement: u32, site: usize, kind: Kind, group: usize, impkind: Option<usize> },
    /// one extra file / directory / FileSpec child with a name that is no
    /// module name (`modnames.rs`)
    ModNames { tree: usize, placement: u32 },
    /// type paths in generic declarations and in function signatures
    /// (`typos.rs`)
    TypePos { tree: usize, placement: u32, site: usize },
    /// member names that collide with what the member types mention (`members.rs`)
    Members,
}

pub fn n_trees(tier: Tier) -> usize {
    tier.pick(QUICK_TREES, TREE_PATHS.len())
}
/// number of import groups (path forms used as import paths) of a tier
pub fn n_pforms(tier: Tier) -> usize {
    tier.pick(QUICK_PFORMS, PFORMS.len())
}

/// shadows combined with imports (group >= 1); group 0 has all of them
pub fn import_shadows(tier: Tier, group: usize, kind: Kind) -> &'static [Shadow] {
    if group > FULL_PFORMS || kind == Kind::RecLit {
        return &[Shadow::None];
    }
    match tier {
        Tier::Quick => &[Shadow::None, Shadow::LetInnerFirst],
        Tier::Thorough => &[
            Shadow::None,
            Shadow::LetInnerFirst,
            Shadow::LetOuterFirst,
            Shadow::ParamFirst,
            Shadow::PatternFirst,
        ],
    }
}

/// use kinds that get import groups (the others only group 0: all record
/// uses go through the same path resolution)
pub fn kind_has_import_groups(_tier: Tier, kind: Kind) -> bool {
    matches!(kind, Kind::Call | Kind::Const)
}

/// the lite import forms are combined with one use kind only (thorough:
/// the call; quick has two lite forms and keeps both kinds)
pub fn kind_has_group(tier: Tier, kind: Kind, group: usize) -> bool {
    if group == 0 {
        return true;
    }
    if !kind_has_import_groups(tier, kind) {
        return false;
    }
    group <= FULL_PFORMS || tier == Tier::Quick || kind == Kind::Call
}

pub fn unit_table(tier: Tier) -> Vec<Unit> {
    let mut v = vec![Unit::Members];
    for t in 0..n_trees(tier) {
        let n = tree(t).n();
        for p in 0..(1u32 << n) {
            v.push(Unit::Lookup { tree: t, placement: p });
            v.push(Unit::ModNames { tree: t, placement: p });
            for site in 0..n {
                v.push(Unit::TypePos { tree: t, placement: p, site });
                for kind in KINDS {
                    for group in 0..=n_pforms(tier) {
                        if !kind_has_group(tier, kind, group) {
                            continue;
                        }
                        // thorough: the import forms with shadows are split by
                        // import kind as well — with Const and all shadows a
                        // unit of `super.b` in pkg+a+b+a.b met the known defect
                        // C13-import-order more than 200 times
                        let split = group == SUPER_PKG_GROUP
                            || (tier == Tier::Thorough && (1..=FULL_PFORMS).contains(&group));
                        if split {
                            // nearly every probe of this group meets the known
                            // defect C13-super-scope-walk: smaller units, so
                            // that every violation is kept literally
                            for ik in 0..IMPKINDS.len() {
                                v.push(Unit::Probes { tree: t, placement: p, site, kind, group, impkind: Some(ik) });
                            }
                        } else {
                            v.push(Unit::Probes { tree: t, placement: p, site, kind, group, impkind: None });
                        }
                    }
                }
            }
        }
    }
    v
}

fn shadow_ok(sh: Shadow, nest: Nest, use_path: &Path) -> bool {
    if nest == Nest::ItemLevel {
        return sh == Shadow::None;
    }
    let first = use_path[0];
    let first_special = first == "pkg" || first == "super";
    match sh {
        Shadow::None => true,
        // a local named `pkg`/`super` is never generated: the documentation
        // calls them special identifiers / keyword and says nothing about
        // declaring them
        Shadow::LetInnerFirst | Shadow::ParamFirst | Shadow::LetAfterFirst => !first_special,
        Shadow::LetOuterFirst => !first_special && nest.has_inner(),
        Shadow::LetInnerLast => use_path.len() > 1,
        Shadow::PatternFirst => !first_special && matches!(nest, Nest::Match | Nest::Arm2),
        Shadow::LetSiblingFirst => !first_special && nest.has_sibling(),
    }
}

fn apply_shadow(p: &mut Prog, sh: Shadow) {
    let first = p.use_path[0];
    let last = *p.use_path.last().unwrap();
    let inner = p.nest.has_inner();
    match sh {
        Shadow::None => {}
        Shadow::LetInnerFirst => {
            if inner { p.inner.lets_before.push(first) } else { p.fnb.lets_before.push(first) }
        }
        Shadow::LetOuterFirst => p.fnb.lets_before.push(first),
        Shadow::ParamFirst => p.param = Some(first),
        Shadow::LetInnerLast => {
            if inner { p.inner.lets_before.push(last) } else { p.fnb.lets_before.push(last) }
        }
        Shadow::LetAfterFirst => {
            if inner { p.inner.lets_after.push(first) } else { p.fnb.lets_after.push(first) }
        }
        Shadow::PatternFirst => p.pattern = Some(first),
        Shadow::LetSiblingFirst => p.sibling_lets.push(first),
    }
}

fn place_ok(pl: Place, nest: Nest, site: usize) -> bool {
    match pl {
        Place::TopBefore | Place::TopAfter => true,
        Place::Foreign | Place::ForeignViaSuper | Place::ForeignViaAbs => site != 0,
        Place::InBefore | Place::InAfter => nest != Nest::ItemLevel,
        Place::OuterBefore | Place::OuterAfter => nest.has_inner(),
        Place::Sibling => nest.has_sibling(),
    }
}

fn apply_place(p: &mut Prog, pl: Place, stmts: Vec<ImportStmt>, world: &World) {
    let inner = p.nest.has_inner();
    match pl {
        Place::TopBefore => p.top_before = stmts,
        Place::TopAfter => p.top_after = stmts,
        Place::InBefore => {
            if inner { p.inner.imports_before = stmts } else { p.fnb.imports_before = stmts }
        }
        Place::InAfter => {
            if inner { p.inner.imports_after = stmts } else { p.fnb.imports_after = stmts }
        }
        Place::OuterBefore => p.fnb.imports_before = stmts,
        Place::OuterAfter => p.fnb.imports_after = stmts,
        Place::Sibling => p.sibling = stmts,
        Place::Foreign | Place::ForeignViaSuper | Place::ForeignViaAbs => {
            let par = world.tree.mods[p.site].parent.unwrap();
            p.foreign = Some((par, stmts));
            let mut prefix: Path = match pl {
                Place::ForeignViaSuper => vec!["super"],
                Place::ForeignViaAbs => {
                    let mut v: Path = vec!["pkg"];
                    let mut chain = vec![];
                    let mut c = par;
                    while let Some(pp) = world.tree.mods[c].parent {
                        chain.push(world.tree.mods[c].name);
                        c = pp;
                    }
                    chain.reverse();
                    v.extend(chain);
                    v
                }
                _ => vec![],
            };
            prefix.extend(p.use_path.iter());
            p.use_path = prefix;
        }
    }
}

/// name under which `import <pf>;` binds, as the script author would expect
/// it (the module's own name); for unresolvable `super` chains any name does
fn bind_name(world: &World, from: usize, pf: &[Seg]) -> Seg {
    let last = *pf.last().unwrap();
    if last != "super" {
        return last;
    }
    if pf.iter().any(|s| *s != "super") {
        // `super` after another segment never resolves
        return "a";
    }
    let mut cur = from;
    for _ in pf {
        match world.tree.mods[cur].parent {
            Some(p) => cur = p,
            None => return "a",
        }
    }
    world.tree.mods[cur].name
}

fn rec_variants(world: &World, kind: Kind) -> Vec<usize> {
    if !matches!(kind, Kind::RecLit | Kind::RecTy) {
        return vec![0];
    }
    let v: Vec<usize> = (0..world.tree.n()).filter(|&m| world.has(Item::R, m)).collect();
    if v.is_empty() { vec![0] } else { v }
}

/// The probes of one unit, in a fixed order (index = case number).
pub fn probes(world: &World, site: usize, kind: Kind, group: usize, impkind: Option<usize>, tier: Tier) -> Vec<Prog> {
    let x = kind.item().name();
    let y = ITEM_NAMES[(kind.item() as usize + 1) % 3];
    let variants = rec_variants(world, kind);
    let mut out = vec![];
    if group == 0 {
        for nest in NESTS {
            let mut forms: Vec<Path> = vec![vec![x]];
            for pf in PFORMS {
                let mut p = pf.to_vec();
                p.push(x);
                forms.push(p);
            }
            for form in forms {
                for sh in SHADOWS {
                    if !shadow_ok(sh, nest, &form) {
                        continue;
                    }
                    for &v in &variants {
                        let mut p = Prog::new(site, nest, kind, form.clone());
                        p.rec_variant = v;
                        apply_shadow(&mut p, sh);
                        out.push(p);
                    }
                }
            }
        }
        return out;
    }
    let pf: &[Seg] = PFORMS[group - 1];
    for (iki, ik) in IMPKINDS.into_iter().enumerate() {
        if impkind.is_some_and(|k| k != iki) {
            continue;
        }
        if ik == ImpKind::Chain3Rev && (pf.len() < 2 || *pf.last().unwrap() == "super") {
            continue;
        }
        for nest in NESTS {
            for pl in PLACES {
                if !place_ok(pl, nest, site) {
                    continue;
                }
                // the module the import statement stands in decides what a
                // trailing `super` is called
                let from = if matches!(pl, Place::Foreign | Place::ForeignViaSuper | Place::ForeignViaAbs) { world.tree.mods[site].parent.unwrap() } else { site };
                let bind = bind_name(world, from, pf);
                let mut px = pf.to_vec();
                px.push(x);
                let (stmts, use_path): (Vec<ImportStmt>, Path) = match ik {
                    ImpKind::Single => (vec![ImportStmt::Single(px)], vec![x]),
                    ImpKind::List => (vec![ImportStmt::List(pf.to_vec(), vec![x, y])], vec![x]),
                    ImpKind::Module => (vec![ImportStmt::Single(pf.to_vec())], vec![bind, x]),
                    ImpKind::ChainFwd => (
                        vec![ImportStmt::Single(pf.to_vec()), ImportStmt::Single(vec![bind, x])],
                        vec![x],
                    ),
                    ImpKind::ChainRev => (
                        vec![ImportStmt::Single(vec![bind, x]), ImportStmt::Single(pf.to_vec())],
                        vec![x],
                    ),
                    ImpKind::Chain3Rev => {
                        let q = &pf[..pf.len() - 1];
                        let qname = bind_name(world, from, q);
                        (
                            vec![
                                ImportStmt::Single(vec![bind, x]),
                                ImportStmt::Single(vec![qname, bind]),
                                ImportStmt::Single(q.to_vec()),
                            ],
                            vec![x],
                        )
                    }
                };
                let mut base = Prog::new(site, nest, kind, use_path.clone());
                apply_place(&mut base, pl, stmts.clone(), world);
                for &sh in import_shadows(tier, group, kind) {
                    if !shadow_ok(sh, nest, &base.use_path) {
                        continue;
                    }
                    for &v in &variants {
                        let mut p = base.clone();
                        p.rec_variant = v;
                        apply_shadow(&mut p, sh);
                        out.push(p);
                    }
                }
            }
        }
    }
    out
}
