//! Type paths at declaration level, where other names are in scope than in a
//! function body:
//!
//! * the field / payload types of a generic `record S[P] { .. }` and
//!   `enum E[P] { .. }`: the type parameter `P` is the innermost declaration,
//!   named like nothing else (`T`), like a child module (`a`), or like the
//!   record (`R`). A type parameter has no members, so a path that continues
//!   after it (`T.R`, `a.R` with a parameter `a`) reaches nothing and is an
//!   error; a path that does not start with it is unaffected.
//! * the types in a function signature, with an earlier parameter named like
//!   the first / last segment of the path: the signature stands outside the
//!   body block, the parameters are values of the body's scope, so they hide
//!   nothing in a parameter type or in the return type (this is also how the
//!   compiler itself resolves the signature it shows to callers).
//!
//! Observation as for the record kinds: the text names the marker field
//! `m<j>` of the copy of `R` it means (one variant per copy), or uses the
//! field as a plain number (variant "parameter"); it compiles and returns the
//! tag iff the path means exactly that.

use crate::enumerate::PFORMS;
use crate::model::*;
use crate::reference::Expect;
use crate::{BATCH_BIT, BATCH_MAX, Env, Obs, compile_disk, compile_tree, disk, files_json, fn_path, mem_tree, module_label};
use roto::{NoCtx, Package, Runtime};
use vcore::util::mix;
use vcore::{Cx, Value, json};

pub const TAG_TPARAM: u32 = 97;

#[derive(Clone, Copy, PartialEq, Eq, Debug)]
pub enum Variant {
    /// the text uses the field as a number: compiles iff the path is the
    /// type parameter
    Param,
    /// the text names the marker field of the `R` of module j
    Rec(usize),
}

#[derive(Clone, Debug)]
pub enum TyProbe {
    Generic { is_enum: bool, tparam: Seg, path: Path, variant: Variant },
    Sig { in_return: bool, pname: Seg, path: Path, variant: usize },
}

#[derive(Clone, Copy, PartialEq, Eq, Debug)]
enum TyRes {
    Param,
    Rec(usize),
    Err,
}

fn member(world: &World, m: usize, name: &str) -> Option<Result<usize, Item>> {
    if let Some(c) = world.tree.child(m, name) {
        return Some(Ok(c));
    }
    if let Some(it) = Item::from_name(name) {
        if world.has(it, m) {
            return Some(Err(it));
        }
    }
    None
}

/// the type a path means at declaration level of module `site`, with an
/// optional type parameter as the innermost declaration
fn resolve(world: &World, site: usize, path: &Path, tparam: Option<Seg>) -> TyRes {
    let mut i = 0;
    let mut cur = site;
    if path[0] == "super" {
        while i < path.len() && path[i] == "super" {
            match world.tree.mods[cur].parent {
                Some(p) => cur = p,
                None => return TyRes::Err,
            }
            i += 1;
        }
    } else if path[0] == "pkg" {
        cur = 0;
        i = 1;
    } else if tparam == Some(path[0]) {
        // innermost declaration; it has no members
        return if path.len() == 1 { TyRes::Param } else { TyRes::Err };
    } else {
        // declarations of the module; the root scope only knows `pkg`
        match member(world, site, path[0]) {
            Some(Ok(m)) => {
                cur = m;
                i = 1;
            }
            Some(Err(Item::R)) => return if path.len() == 1 { TyRes::Rec(site) } else { TyRes::Err },
            _ => return TyRes::Err,
        }
    }
    while i < path.len() {
        if path[i] == "super" || path[i] == "pkg" {
            return TyRes::Err;
        }
        match member(world, cur, path[i]) {
            Some(Ok(m)) => cur = m,
            Some(Err(Item::R)) => return if i + 1 == path.len() { TyRes::Rec(cur) } else { TyRes::Err },
            _ => return TyRes::Err,
        }
        i += 1;
    }
    TyRes::Err // a module is not a type
}

pub fn expect(world: &World, site: usize, p: &TyProbe) -> Expect {
    match p {
        TyProbe::Generic { tparam, path, variant, .. } => match (resolve(world, site, path, Some(tparam)), variant) {
            (TyRes::Param, Variant::Param) => Expect::Tag(TAG_TPARAM),
            (TyRes::Rec(j), Variant::Rec(v)) if j == *v => Expect::Tag(tag(Item::R, j)),
            _ => Expect::Error,
        },
        TyProbe::Sig { path, variant, .. } => match resolve(world, site, path, None) {
            TyRes::Rec(j) if j == *variant => Expect::Tag(tag(Item::R, j)),
            _ => Expect::Error,
        },
    }
}

fn rec_modules(world: &World) -> Vec<usize> {
    let v: Vec<usize> = (0..world.tree.n()).filter(|&m| world.has(Item::R, m)).collect();
    if v.is_empty() { vec![0] } else { v }
}

/// every probe of one (world, site), in a fixed order
pub fn probes(world: &World, _site: usize) -> Vec<TyProbe> {
    let mut out = vec![];
    let mut paths: Vec<Path> = vec![vec!["R"]];
    for pf in PFORMS {
        let mut p = pf.to_vec();
        p.push("R");
        paths.push(p);
    }
    // paths through / equal to a name that is only a type parameter
    let extra: [&[Seg]; 5] = [&["T"], &["T", "R"], &["T", "zz", "R"], &["a"], &["a", "zz"]];
    for e in extra {
        paths.push(e.to_vec());
    }
    let recs = rec_modules(world);
    for is_enum in [false, true] {
        for path in &paths {
            let first = path[0];
            let mut tparams: Vec<Seg> = vec!["T"];
            if first != "pkg" && first != "super" && !tparams.contains(&first) {
                tparams.push(first);
            }
            if !tparams.contains(&"R") {
                tparams.push("R");
            }
            for tparam in tparams {
                let mut variants = vec![Variant::Param];
                variants.extend(recs.iter().map(|&j| Variant::Rec(j)));
                for variant in variants {
                    out.push(TyProbe::Generic { is_enum, tparam, path: path.clone(), variant });
                }
            }
        }
    }
    for in_return in [false, true] {
        for path in paths.iter().take(1 + PFORMS.len()) {
            let first = path[0];
            let mut pnames: Vec<Seg> = vec!["n"];
            if first != "pkg" && first != "super" {
                pnames.push(first);
            }
            if !pnames.contains(&"R") {
                pnames.push("R");
            }
            for pname in pnames {
                for &variant in &recs {
                    out.push(TyProbe::Sig { in_return, pname, path: path.clone(), variant });
                }
            }
        }
    }
    out
}

pub fn render(p: &TyProbe, idx: usize) -> String {
    match p {
        TyProbe::Generic { is_enum, tparam, path, variant } => {
            let ty = path.join(".");
            let (val, field) = match variant {
                Variant::Param => (format!("{TAG_TPARAM}"), String::new()),
                Variant::Rec(j) => (format!("{{ m{j}: {} }}", tag(Item::R, *j)), format!(".m{j}")),
            };
            if *is_enum {
                format!(
                    "enum E{idx}[{tparam}] {{ A({ty}), B({tparam}) }}\nfn p{idx}() -> u32 {{\n    let e: E{idx}[u32] = E{idx}.A({val});\n    match e {{\n        A(v) => v{field},\n        B(w) => 0,\n    }}\n}}\n"
                )
            } else {
                format!(
                    "record S{idx}[{tparam}] {{ x: {ty}, y: {tparam} }}\nfn p{idx}() -> u32 {{\n    let s = S{idx} {{ x: {val}, y: 1 }};\n    s.x{field}\n}}\n"
                )
            }
        }
        TyProbe::Sig { in_return, pname, path, variant } => {
            let ty = path.join(".");
            let j = variant;
            let t = tag(Item::R, *j);
            if *in_return {
                format!(
                    "fn q{idx}({pname}: u32) -> {ty} {{\n    let r = {{ m{j}: {t} }};\n    r\n}}\nfn p{idx}() -> u32 {{\n    q{idx}(5).m{j}\n}}\n"
                )
            } else {
                format!(
                    "fn q{idx}({pname}: u32, t: {ty}) -> u32 {{\n    t.m{j}\n}}\nfn p{idx}() -> u32 {{\n    q{idx}(5, {{ m{j}: {t} }})\n}}\n"
                )
            }
        }
    }
}

fn sources(env: &Env, site: usize, probes: &[TyProbe], members: &[usize]) -> Vec<String> {
    let mut src: Vec<String> = (0..env.world.tree.n()).map(|m| env.world.items_src(m)).collect();
    for &i in members {
        src[site] += &render(&probes[i], i);
    }
    src
}

pub fn case_json(env: &Env, site: usize, idx: usize, p: &TyProbe, origin: &str, layout: Option<&disk::Layout>) -> Value {
    let tree = &env.world.tree;
    let probes = std::slice::from_ref(p);
    let mut src: Vec<String> = (0..tree.n()).map(|m| env.world.items_src(m)).collect();
    src[site] += &render(&probes[0], idx);
    let (family, detail) = match p {
        TyProbe::Generic { is_enum, tparam, path, variant } => (
            "generic",
            json!({
                "declaration": if *is_enum { "enum" } else { "record" },
                "type_param": tparam,
                "path": path.join("."),
                "path_len": path.len(),
                "first_is_type_param": path[0] == *tparam,
                "variant": match variant { Variant::Param => json!("parameter"), Variant::Rec(j) => json!(module_label(tree, *j)) },
            }),
        ),
        TyProbe::Sig { in_return, pname, path, variant } => (
            "signature",
            json!({
                "position": if *in_return { "return" } else { "parameter" },
                "param_name": pname,
                "path": path.join("."),
                "param_is_first_segment": path[0] == *pname,
                "variant": module_label(tree, *variant),
            }),
        ),
    };
    json!({
        "what": "type-position",
        "family": family,
        "detail": detail,
        "tree": (0..tree.n()).map(|m| module_label(tree, m)).collect::<Vec<_>>(),
        "tree_index": env.tree_idx,
        "placement": env.placement,
        "items": env.world.to_json(),
        "site": module_label(tree, site),
        "origin": origin,
        "layout": layout.map(|l| l.name(tree)),
        "files": files_json(tree, &src, layout),
        "call": fn_path(tree, site, &format!("p{idx}")),
        "reference": expect(&env.world, site, p).to_json(),
    })
}

fn call(pkg: &mut Package<NoCtx>, tree: &Tree, site: usize, idx: usize) -> Obs {
    match pkg.get_function::<fn() -> u32>(&fn_path(tree, site, &format!("p{idx}"))) {
        Ok(f) => Obs::Ok(f.call()),
        Err(e) => Obs::NoFunction(e.to_string().lines().next().unwrap_or("").to_string()),
    }
}

struct Run<'a> {
    env: &'a Env,
    site: usize,
    rt: Runtime<NoCtx>,
    probes: Vec<TyProbe>,
    expects: Vec<Expect>,
    base: std::path::PathBuf,
    disk_every: usize,
}

impl Run<'_> {
    fn judge(&self, cx: &mut Cx, idx: usize, obs: &Obs, origin: &str, layout: Option<usize>) {
        let e = self.expects[idx];
        cx.transitions(1);
        cx.validated(1);
        cx.outcome(mix(11, obs.hash()));
        if obs.agrees(e) {
            return;
        }
        let class = match obs {
            Obs::Panic(_) => "panic",
            Obs::NoFunction(_) => "probe-not-retrievable",
            _ => "mismatch",
        };
        let l = layout.map(|l| &self.env.layouts[l]);
        let mut case = case_json(self.env, self.site, idx, &self.probes[idx], origin, l);
        if let Obs::CompileError(m) | Obs::Panic(m) | Obs::NoFunction(m) = obs {
            case["message"] = json!(m);
        }
        cx.violation(class, idx as u64, case, e.to_json(), obs.to_json());
    }

    fn on_disk(&self, cx: &mut Cx, l: usize, src: &[String]) -> Option<Result<Package<NoCtx>, Obs>> {
        let d = self.base.join(format!("r{l}"));
        if let Err(e) = disk::write_all(&d, &self.env.world.tree, &self.env.layouts[l], src) {
            cx.note(format!("cannot write {}: {e}", d.display()));
            cx.count("disk_io_errors", 1);
            return None;
        }
        Some(compile_disk(&self.rt, &d))
    }

    fn single(&self, cx: &mut Cx, idx: usize) {
        if !cx.case(idx as u64) {
            return;
        }
        let tree = &self.env.world.tree;
        let src = sources(self.env, self.site, &self.probes, &[idx]);
        let obs = match compile_tree(&self.rt, mem_tree(tree, &src)) {
            Ok(mut pkg) => call(&mut pkg, tree, self.site, idx),
            Err(o) => o,
        };
        self.judge(cx, idx, &obs, "memory", None);
        if idx % self.disk_every == 0 || cx.only().is_some() {
            let l = (idx / self.disk_every) % self.env.layouts.len();
            if let Some(r) = self.on_disk(cx, l, &src) {
                let obs = match r {
                    Ok(mut pkg) => call(&mut pkg, tree, self.site, idx),
                    Err(o) => o,
                };
                self.judge(cx, idx, &obs, "disk", Some(l));
            }
        }
    }

    fn batch_case(&self, members: &[usize], origin: &str, layout: Option<usize>) -> Value {
        let tree = &self.env.world.tree;
        let src = sources(self.env, self.site, &self.probes, members);
        let l = layout.map(|l| &self.env.layouts[l]);
        json!({"what": "type-position-batch", "tree_index": self.env.tree_idx, "placement": self.env.placement,
               "items": self.env.world.to_json(), "members": members, "origin": origin,
               "layout": l.map(|l| l.name(tree)), "files": files_json(tree, &src, l)})
    }

    fn batch(&self, cx: &mut Cx, members: &[usize]) {
        let bsub = BATCH_BIT | members[0] as u64;
        if members.len() == 1 || cx.skipped_cases().contains(&bsub) {
            for &i in members {
                self.single(cx, i);
            }
            return;
        }
        if !cx.case(bsub) {
            return;
        }
        let replay = cx.only().is_some();
        let tree = &self.env.world.tree;
        let src = sources(self.env, self.site, &self.probes, members);
        for origin in 0..2 {
            let l = cx.unit % self.env.layouts.len();
            let pkg = if origin == 0 {
                compile_tree(&self.rt, mem_tree(tree, &src))
            } else {
                match self.on_disk(cx, l, &src) {
                    Some(r) => r,
                    None => continue,
                }
            };
            let mut bad: Vec<usize> = vec![];
            match pkg {
                Ok(mut pkg) => {
                    for &i in members {
                        if !replay && !cx.case(i as u64) {
                            continue;
                        }
                        let obs = call(&mut pkg, tree, self.site, i);
                        if obs.agrees(self.expects[i]) {
                            cx.transitions(1);
                            cx.validated(1);
                            cx.outcome(mix(11, obs.hash()));
                        } else {
                            bad.push(i);
                        }
                    }
                }
                Err(_) => {
                    cx.count("batches_split", 1);
                    bad = members.to_vec();
                }
            }
            if bad.is_empty() {
                continue;
            }
            let before = cx.res.counters.get("violations_raw").copied().unwrap_or(0);
            if !replay {
                for &i in &bad {
                    self.single(cx, i);
                }
            }
            let after = cx.res.counters.get("violations_raw").copied().unwrap_or(0);
            if after == before {
                cx.violation(
                    if origin == 0 { "batch-interference" } else { "mismatch-disk" },
                    bsub,
                    self.batch_case(members, if origin == 0 { "memory" } else { "disk" }, (origin == 1).then_some(l)),
                    json!("every function returns its tag, as each does when compiled alone in memory"),
                    json!({"members_failing_in_the_batch": bad}),
                );
            }
            return;
        }
    }
}

pub fn run(env: &Env, site: usize, cx: &mut Cx) {
    let probes = probes(&env.world, site);
    let expects: Vec<Expect> = probes.iter().map(|p| expect(&env.world, site, p)).collect();
    let base = disk::work_root().join(format!("u{}", cx.unit));
    let run = Run { env, site, rt: Runtime::new(), probes, expects, base: base.clone(), disk_every: 4 };
    let replay = cx.only();
    if replay.is_none() {
        cx.states(run.probes.len() as u64);
        for (i, e) in run.expects.iter().enumerate() {
            // non-trivial: a type parameter or a parameter carries the name of
            // the first segment, or a tag is expected
            let shadowed = match &run.probes[i] {
                TyProbe::Generic { tparam, path, .. } => path[0] == *tparam,
                TyProbe::Sig { pname, path, .. } => path[0] == *pname,
            };
            if shadowed || matches!(e, Expect::Tag(_)) {
                cx.nontrivial(mix(mix(cx.unit as u64, i as u64), 0xC13));
            }
            match e {
                Expect::Tag(_) => cx.count("expected_tag", 1),
                _ => cx.count("expected_error", 1),
            }
        }
        if site > 0 && env.placement % 5 == 3 {
            if let Some(i) = (0..run.probes.len()).find(|&i| {
                matches!(run.expects[i], Expect::Tag(_)) && matches!(run.probes[i], TyProbe::Sig { pname, .. } if pname != "n")
            }) {
                let c = case_json(env, site, i, &run.probes[i], "memory", None);
                cx.sample(json!({"files": c["files"], "call": c["call"], "reference": c["reference"]}));
            }
        }
    }
    let oks: Vec<usize> = (0..run.probes.len()).filter(|&i| matches!(run.expects[i], Expect::Tag(_))).collect();
    let errs: Vec<usize> = (0..run.probes.len()).filter(|&i| run.expects[i] == Expect::Error).collect();
    match replay {
        Some(sub) if sub & BATCH_BIT != 0 => {
            for chunk in oks.chunks(BATCH_MAX) {
                if BATCH_BIT | chunk[0] as u64 == sub {
                    run.batch(cx, chunk);
                }
            }
        }
        Some(sub) => {
            if (sub as usize) < run.probes.len() {
                run.single(cx, sub as usize);
            }
        }
        None => {
            for chunk in oks.chunks(BATCH_MAX) {
                run.batch(cx, chunk);
            }
            for &i in &errs {
                run.single(cx, i);
            }
        }
    }
    let _ = std::fs::remove_dir_all(&base);
    let _ = std::fs::remove_dir(disk::work_root());
}

pub fn describe(env: &Env, site: usize, sub: u64) -> Value {
    let probes = probes(&env.world, site);
    if sub & BATCH_BIT != 0 {
        let first = (sub & (BATCH_BIT - 1)) as usize;
        let members: Vec<usize> = (first..probes.len())
            .filter(|&i| matches!(expect(&env.world, site, &probes[i]), Expect::Tag(_)))
            .take(BATCH_MAX)
            .collect();
        let src = sources(env, site, &probes, &members);
        return json!({"what": "type-position-batch", "tree_index": env.tree_idx, "placement": env.placement,
                      "members": members, "files": files_json(&env.world.tree, &src, None)});
    }
    match probes.get(sub as usize) {
        Some(p) => case_json(env, site, sub as usize, p, "memory or disk", None),
        None => json!({"what": "setup"}),
    }
}

/// hand-derived expectations for the small resolver above (preflight)
pub fn selfcheck() -> Result<(), String> {
    // pkg(0) R, pkg.a(1) R, pkg.a.c(2) no R
    let w = World { tree: Tree::from_paths(&["a", "a.c"]), has: [0, 0, 0b011] };
    let g = |tparam: Seg, path: &[Seg], variant| TyProbe::Generic { is_enum: false, tparam, path: path.to_vec(), variant };
    let s = |in_return, pname: Seg, path: &[Seg], variant| TyProbe::Sig { in_return, pname, path: path.to_vec(), variant };
    let rows: Vec<(&str, usize, TyProbe, Expect)> = vec![
        ("the parameter itself", 0, g("T", &["T"], Variant::Param), Expect::Tag(TAG_TPARAM)),
        ("a path continuing after a type parameter", 0, g("T", &["T", "R"], Variant::Param), Expect::Error),
        ("parameter named like the child module: a.R is not pkg.a.R", 0, g("a", &["a", "R"], Variant::Rec(1)), Expect::Error),
        ("... nor the parameter", 0, g("a", &["a", "R"], Variant::Param), Expect::Error),
        ("absolute path is not affected by a parameter a", 0, g("a", &["pkg", "a", "R"], Variant::Rec(1)), Expect::Tag(31)),
        ("other parameter name: a.R is pkg.a.R", 0, g("T", &["a", "R"], Variant::Rec(1)), Expect::Tag(31)),
        ("parameter named R hides the record", 0, g("R", &["R"], Variant::Rec(0)), Expect::Error),
        ("parameter named R used as a number", 0, g("R", &["R"], Variant::Param), Expect::Tag(TAG_TPARAM)),
        ("own record", 1, g("T", &["R"], Variant::Rec(1)), Expect::Tag(31)),
        ("own record, marker of another copy", 1, g("T", &["R"], Variant::Rec(0)), Expect::Error),
        ("a module does not see its parent's record", 2, g("T", &["R"], Variant::Rec(1)), Expect::Error),
        ("super", 2, g("T", &["super", "R"], Variant::Rec(1)), Expect::Tag(31)),
        ("parameter type after a parameter named like the module", 0, s(false, "a", &["a", "R"], 1), Expect::Tag(31)),
        ("return type after a parameter named like the module", 0, s(true, "a", &["a", "R"], 1), Expect::Tag(31)),
        ("return type after a parameter named like the record", 0, s(true, "R", &["R"], 0), Expect::Tag(30)),
        ("return type that does not exist", 2, s(true, "n", &["R"], 0), Expect::Error),
    ];
    for (what, site, p, want) in rows {
        let got = expect(&w, site, &p);
        if got != want {
            return Err(format!("type-position resolver disagrees with the hand-derived table: {what}: want {want:?}, got {got:?}"));
        }
    }
    Ok(())
}
