//! On-disk representations of a module tree: `pkg.roto`, `name.roto`,
//! `name/mod.roto`, optionally with files and directories that must not
//! become modules.

use crate::model::Tree;
use std::path::{Path, PathBuf};

#[derive(Clone, Debug)]
pub struct Layout {
    /// bit m: leaf module m is written as `name/mod.roto` instead of `name.roto`
    pub leaf_dirs: u32,
    /// also write `notes.txt`, `junk/z.roto` (directory without `mod.roto`),
    /// `README` and a `.txt` file inside every module directory
    pub distractors: bool,
}

impl Layout {
    pub fn name(&self, tree: &Tree) -> String {
        let mut v = vec![];
        for m in 0..tree.n() {
            v.push(file_of(tree, self, m).to_string_lossy().to_string());
        }
        if self.distractors {
            v.push("notes.txt".into());
            v.push("README".into());
            v.push("junk/z.roto".into());
        }
        v.join(" ")
    }
}

pub fn leaves(tree: &Tree) -> Vec<usize> {
    (1..tree.n()).filter(|&m| tree.children(m).is_empty()).collect()
}

/// every file/dir choice for the leaves; distractors when `with_distractors`
/// (otherwise in the odd-numbered layouts only)
pub fn layouts(tree: &Tree, both_distractor_variants: bool) -> Vec<Layout> {
    let lv = leaves(tree);
    let mut out = vec![];
    for combo in 0..(1u32 << lv.len()) {
        let mut bits = 0;
        for (i, m) in lv.iter().enumerate() {
            if combo >> i & 1 == 1 {
                bits |= 1 << m;
            }
        }
        if both_distractor_variants {
            out.push(Layout { leaf_dirs: bits, distractors: false });
            out.push(Layout { leaf_dirs: bits, distractors: true });
        } else {
            out.push(Layout { leaf_dirs: bits, distractors: combo % 2 == 1 });
        }
    }
    out
}

pub fn dir_of(tree: &Tree, m: usize) -> PathBuf {
    // directory that holds the children of m
    let p = tree.path(m);
    let mut d = PathBuf::new();
    if !p.is_empty() {
        for s in p.split('.') {
            d.push(s);
        }
    }
    d
}

pub fn file_of(tree: &Tree, l: &Layout, m: usize) -> PathBuf {
    if m == 0 {
        return PathBuf::from("pkg.roto");
    }
    let as_dir = !tree.children(m).is_empty() || l.leaf_dirs >> m & 1 == 1;
    let parent_dir = dir_of(tree, tree.mods[m].parent.unwrap());
    if as_dir {
        parent_dir.join(tree.mods[m].name).join("mod.roto")
    } else {
        parent_dir.join(format!("{}.roto", tree.mods[m].name))
    }
}

pub const JUNK_SRC: &str = "fn f() -> u32 { 77 }\nconst K: u32 = 78;\nrecord R { m9: u32 }\n";

pub fn write_all(base: &Path, tree: &Tree, l: &Layout, src: &[String]) -> std::io::Result<()> {
    let _ = std::fs::remove_dir_all(base);
    std::fs::create_dir_all(base)?;
    for m in 0..tree.n() {
        let f = base.join(file_of(tree, l, m));
        if let Some(d) = f.parent() {
            std::fs::create_dir_all(d)?;
        }
        std::fs::write(&f, &src[m])?;
        if l.distractors && f.file_name().is_some_and(|n| n == "mod.roto") {
            std::fs::write(f.parent().unwrap().join("notes.txt"), JUNK_SRC)?;
        }
    }
    if l.distractors {
        std::fs::write(base.join("notes.txt"), JUNK_SRC)?;
        std::fs::write(base.join("README"), JUNK_SRC)?;
        std::fs::create_dir_all(base.join("junk"))?;
        std::fs::write(base.join("junk").join("z.roto"), JUNK_SRC)?;
    }
    Ok(())
}

pub fn rewrite(base: &Path, tree: &Tree, l: &Layout, m: usize, text: &str) -> std::io::Result<()> {
    std::fs::write(base.join(file_of(tree, l, m)), text)
}

pub fn work_root() -> PathBuf {
    let root = std::env::var("VERIF_WORK").map(PathBuf::from).unwrap_or_else(|_| PathBuf::from("/verif/work"));
    root.join("c13").join(format!("w{}", std::process::id()))
}
