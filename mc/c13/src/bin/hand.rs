use roto::{FileSpec, FileTree, NoCtx, Package, Runtime, SourceFile};

fn sf(name: &str, src: &str) -> SourceFile {
    SourceFile { name: format!("{name}.roto"), module_name: name.into(), contents: src.into(), location_offset: 0, children: vec![] }
}

fn compile(rt: &Runtime<NoCtx>, spec: FileSpec) -> Result<Package<NoCtx>, String> {
    match vcore::util::catch(|| FileTree::file_spec(spec).compile(rt)) {
        Ok(Ok(p)) => Ok(p),
        Ok(Err(r)) => { let mut s = String::new(); let _ = vcore::util::catch(|| r.write(&mut s, false)); Err(s) }
        Err(p) => Err(format!("PANIC {p}")),
    }
}

fn items(j: u32, f: bool, k: bool, r: bool) -> String {
    let mut s = String::new();
    if f { s += &format!("fn f() -> u32 {{ {} }}\n", 10 + j); }
    if k { s += &format!("const K: u32 = {};\n", 20 + j); }
    if r { s += &format!("record R {{ m{j}: u32 }}\n"); }
    s
}

// tree: pkg(0), a(1), b(2), a.c(3), a.a(4)
fn run(rt: &Runtime<NoCtx>, label: &str, site: usize, extra: &str, func: &str, call: &str) {
    let mut src: Vec<String> = (0..5).map(|j| items(j as u32, true, true, true)).collect();
    src[site] += extra;
    let spec = FileSpec::Directory(sf("pkg", &src[0]), vec![
        FileSpec::Directory(sf("a", &src[1]), vec![FileSpec::File(sf("c", &src[3])), FileSpec::File(sf("b", &src[4]))]),
        FileSpec::File(sf("b", &src[2])),
    ]);
    let _ = func;
    match compile(rt, spec) {
        Ok(mut p) => match p.get_function::<fn() -> u32>(call) {
            Ok(f) => println!("{label:<60} => Ok({})", f.call()),
            Err(e) => println!("{label:<60} => compiled, get_function err: {}", e.to_string().lines().next().unwrap_or("")),
        },
        Err(e) => {
            let l: Vec<&str> = e.lines().filter(|l| l.contains("Error") || l.contains("rror:")).collect();
            println!("{label:<60} => Err {:?}", l.first().unwrap_or(&e.lines().next().unwrap_or("")));
        }
    }
}

fn main() {
    vcore::util::install_quiet_panic_hook();
    let rt = host::runtime();
    let mods = ["", "a.", "b.", "a.c.", "a.b."];
    let mut n = 0;
    let mut t = |site: usize, top: &str, body: &str| {
        n += 1;
        let label = format!("[{}] {}{} | {} | {}", n, mods[site], "p", top.replace('\n', " "), body);
        let extra = format!("{top}\nfn p() -> u32 {{ {body} }}\n");
        run(&rt, &label, site, &extra, "p", &format!("{}p", mods[site]));
    };
    // items only in some modules? here all modules have all items; tags: f 10+j K 20+j
    t(1, "const P: u32 = super.K;", "P");
    t(1, "const P: u32 = super.f();", "P");
    t(1, "import super.f;\nconst P: u32 = f();", "P");
    t(1, "fn q(x: super.R) -> u32 { x.m0 }", "q({ m0: 30 })");
    t(1, "fn q(x: super.R) -> u32 { x.m0 }", "q(super.R { m0: 30 })");
    t(1, "", "let q: super.R = { m0: 30 }; let r = q.m0; r");
    t(1, "", "let v = match Option.Some(94) { Some(y) => { let r = K; r } None => { import super.K; 0 } }; v");
    t(1, "", "let v = if true { let r = K; r } else { import super.K; 0 }; v");
    t(1, "fn q(K: u32) -> u32 { let r = K; r }", "q(93)");
    t(1, "fn q(K: u32) -> u32 { import super.K; let r = K; r }", "q(93)");
    t(1, "", "let r = K; let K = 95; r");
    t(1, "", "let v = { let r = K; r }; let K = 95; v");
    t(1, "const P: u32 = (super.R { m0: 30 }).m0;", "P");
}
