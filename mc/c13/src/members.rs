//! Members of a type are not names of the module: a variant (or a field) named
//! like a type, a module, the enum itself, a function or a constant hides
//! nothing where the payload / field TYPES of that very declaration are
//! resolved ("declarations of the innermost enclosing scope": the declaration
//! of an enum stands in its module, its variants stand inside the enum).
//!
//! Fixed world: `pkg` has `record R { m0: u32 }`, `fn f`, `const K`; its
//! sub-module `a` has `record R { m1: u32 }` and `record Q { m2: u32 }`. Each
//! case declares an enum or record whose member names collide with what its
//! member types mention, builds a value with the record literal of the copy of
//! `R` / `Q` the rules designate (the marker field tells the copies apart), and
//! reads the marker back: the script compiles and returns 7, or the path did
//! not mean what the rules say. Added after seeded change C13-6 (the scope in
//! which payload types are resolved wrapped the type's own member scope, so
//! `enum Shape { Circle(Circle), Dot }` stopped compiling).

use roto::{FileSpec, FileTree, NoCtx, SourceFile, TypedFunc};
use vcore::{Cx, Value, json};

const ROOT_ITEMS: &str = "record R { m0: u32 }\nfn f() -> u32 { 1 }\nconst K: u32 = 2;\n";
const A_ITEMS: &str = "record R { m1: u32 }\nrecord Q { m2: u32 }\n";

/// (name, extra text of pkg, extra text of module a, function to call)
const CASES: [(&str, &str, &str, &str); 17] = [
    ("variant named like its payload type", "enum E { R(R), Dot }\nfn probe() -> u32 { match E.R(R { m0: 7 }) { R(x) => x.m0, Dot => 0 } }\n", "", "probe"),
    ("variant named like the last segment of its payload path", "enum E { R(a.R), Dot }\nfn probe() -> u32 { match E.R(a.R { m1: 7 }) { R(x) => x.m1, Dot => 0 } }\n", "", "probe"),
    ("variant named like the first segment (a module) of its payload path", "enum E { a(a.R), Dot }\nfn probe() -> u32 { match E.a(a.R { m1: 7 }) { a(x) => x.m1, Dot => 0 } }\n", "", "probe"),
    ("variant named like a module, payload type without path", "enum E { a(R), Dot }\nfn probe() -> u32 { match E.a(R { m0: 7 }) { a(x) => x.m0, Dot => 0 } }\n", "", "probe"),
    ("variant named like the enum", "enum E { E(R), Dot }\nfn probe() -> u32 { match E.E(R { m0: 7 }) { E(x) => x.m0, Dot => 0 } }\n", "", "probe"),
    ("variant named R, payload by absolute path into the sub-module", "enum E { R(pkg.a.R), Dot }\nfn probe() -> u32 { match E.R(a.R { m1: 7 }) { R(x) => x.m1, Dot => 0 } }\n", "", "probe"),
    ("two variants, each named like its payload type", "enum E { Q(a.Q), R(R) }\nfn probe() -> u32 { let x = match E.Q(a.Q { m2: 3 }) { Q(q) => q.m2, R(r) => 0 }; let y = match E.R(R { m0: 4 }) { Q(q) => 0, R(r) => r.m0 }; x + y }\n", "", "probe"),
    ("a later variant mentions the type an earlier variant is named like", "enum E { R, S(R) }\nfn probe() -> u32 { match E.S(R { m0: 7 }) { R => 0, S(x) => x.m0 } }\n", "", "probe"),
    ("generic enum: variants named like a type and like the type parameter", "enum G[T] { R(R), T(T) }\nfn probe() -> u32 { let g: G[u32] = G.R(R { m0: 7 }); match g { R(x) => x.m0, T(t) => t } }\n", "", "probe"),
    ("record fields named like their types", "record S { R: R, a: a.R }\nfn probe() -> u32 { let s = S { R: R { m0: 3 }, a: a.R { m1: 4 } }; s.R.m0 + s.a.m1 }\n", "", "probe"),
    ("variants named like a function and a constant", "enum E { f(R), K(R) }\nfn probe() -> u32 { let v = match E.f(R { m0: 5 }) { f(x) => x.m0 + f(), K(y) => 0 }; v + 1 }\n", "", "probe"),
    ("in the sub-module: variant R means nothing, R means a.R, super.R means pkg.R", "", "enum E { R(R), S(super.R) }\nfn probe() -> u32 { let x = match E.R(R { m1: 3 }) { R(r) => r.m1, S(s) => 0 }; let y = match E.S(super.R { m0: 4 }) { R(r) => 0, S(s) => s.m0 }; x + y }\n", "a.probe"),
    ("imported type, variant of the same name", "import a.Q;\nenum E { Q(Q), Dot }\nfn probe() -> u32 { match E.Q(Q { m2: 7 }) { Q(x) => x.m2, Dot => 0 } }\n", "", "probe"),
    // a local becomes visible AFTER its initialiser (seeded change C13-8: an annotated `let` was
    // put in scope before its initialiser was resolved)
    ("annotated let named like the function its initialiser calls", "fn probe() -> u32 { let f: u32 = f() + 6; f }\n", "", "probe"),
    ("annotated let named like the constant its initialiser reads", "fn probe() -> u32 { let K: u32 = K + 5; K }\n", "", "probe"),
    ("let without annotation named like the function its initialiser calls", "fn probe() -> u32 { let f = f() + 6; f }\n", "", "probe"),
    ("option and list of the type a variant is named like", "enum E { R(R?), L(List[R]) }\nfn probe() -> u32 { match E.R(Option.Some(R { m0: 7 })) { R(o) => match o { Some(r) => r.m0, None => 0 }, L(l) => 0 } }\n", "", "probe"),
];

pub fn n_cases() -> usize {
    CASES.len()
}

fn sources(i: usize) -> (String, String) {
    let (_, root, a, _) = CASES[i];
    (format!("{ROOT_ITEMS}{root}"), format!("{A_ITEMS}{a}"))
}

pub fn describe(i: usize) -> Value {
    match CASES.get(i) {
        Some(c) => {
            let (root, a) = sources(i);
            json!({"family": "members", "what": c.0, "pkg.roto": root, "a.roto": a, "call": c.3, "expected": 7})
        }
        None => json!({"family": "members"}),
    }
}

pub fn run(cx: &mut Cx) {
    if !cx.case(vcore::SUB_SETUP) {
        return;
    }
    let rt = host::runtime();
    for i in 0..CASES.len() {
        if !cx.case(i as u64) {
            continue;
        }
        cx.states(1);
        cx.count("member_programs", 1);
        let (root, a) = sources(i);
        let file = |name: &str, module: &str, contents: String| SourceFile {
            name: name.into(),
            module_name: module.into(),
            contents,
            location_offset: 0,
            children: vec![],
        };
        let tree = FileTree::file_spec(FileSpec::Directory(file("pkg.roto", "pkg", root), vec![FileSpec::File(file("a.roto", "a", a))]));
        let mut pkg = match vcore::util::catch(|| tree.compile(&rt)) {
            Ok(Ok(p)) => p,
            Ok(Err(r)) => {
                let mut s = String::new();
                let _ = r.write(&mut s, false);
                cx.violation("member-rejected", i as u64, describe(i), json!("compiles"), json!(s.lines().take(6).collect::<Vec<_>>()));
                continue;
            }
            Err(p) => {
                cx.violation("member-panic", i as u64, describe(i), json!("compiles"), json!(p));
                continue;
            }
        };
        let f: TypedFunc<NoCtx, fn() -> u32> = match pkg.get_function(CASES[i].3) {
            Ok(f) => f,
            Err(e) => {
                cx.violation("member-get_function", i as u64, describe(i), json!("Ok"), json!(e.to_string()));
                continue;
            }
        };
        let got = f.call();
        cx.transitions(1);
        cx.validated(1);
        cx.nontrivial(i as u64);
        cx.outcome(vcore::util::mix(i as u64, got as u64));
        if got != 7 {
            cx.violation("member-wrong-item", i as u64, describe(i), json!(7), json!(got));
        }
        if i == 0 {
            cx.sample(describe(i));
        }
    }
}
