//! Building blocks of argument domains, shared by C17 and C10 part B.

use std::collections::BTreeSet;
use std::net::{IpAddr, Ipv4Addr, Ipv6Addr};

use crate::val::{V, mask};

/// all strings of at most `max` symbols, shortest first
pub fn strings_over(alpha: &[&str], max: usize) -> Vec<String> {
    let mut out = vec![String::new()];
    let mut prev = vec![String::new()];
    for _ in 0..max {
        let mut next = Vec::with_capacity(prev.len() * alpha.len());
        for p in &prev {
            for a in alpha {
                next.push(format!("{p}{a}"));
            }
        }
        out.extend(next.iter().cloned());
        prev = next;
    }
    out
}

pub const BIG: [u64; 3] = [1 << 32, 1 << 63, u64::MAX];

pub fn ints(it: impl IntoIterator<Item = i128>) -> Vec<V> {
    it.into_iter().map(V::Int).collect()
}

/// boundary +-1 and powers of ten +-1 (and powers of two +-1) inside [min, max]
pub fn wide_ints(min: i128, max: i128) -> Vec<V> {
    let mut s = BTreeSet::new();
    let mut add = |x: i128| {
        for d in [-1, 0, 1] {
            let y = x + d;
            if y >= min && y <= max {
                s.insert(y);
            }
        }
    };
    add(0);
    add(min);
    add(max);
    let mut p: i128 = 10;
    while p <= max {
        add(p);
        add(-p);
        p *= 10;
    }
    let mut p: i128 = 2;
    while p <= max {
        add(p);
        add(-p);
        p *= 2;
    }
    ints(s)
}

pub fn f32_set(stride: u32) -> Vec<V> {
    let mut s = BTreeSet::new();
    let edges: [f32; 46] = [
        0.0, 1.0, 2.0, 3.0, 4.0, 9.0, 10.0, 100.0, 0.5, 1.5, 2.5, 3.5, 4.5, 0.1, 0.3, 1.0 / 3.0, 0.49999997,
        0.50000006, 0.25, 0.75, 1e-7, 1e10, 123456.79, 8388607.5, 8388608.0, 8388609.0, 16777216.0, 4194303.8,
        2147483648.0, 4294967296.0, 9.223372e18, 1.8446744e19, f32::MAX, f32::MIN_POSITIVE, f32::EPSILON,
        std::f32::consts::PI, std::f32::consts::E, f32::INFINITY, 1e-45, 1.17549421e-38, 1e38, 1e-38, 7.0, 0.999_999_94,
        1.000_000_1, 65504.0,
    ];
    for e in edges {
        s.insert(e.to_bits());
        s.insert((-e).to_bits());
    }
    // NaNs: quiet, signalling payload, negative, all-ones
    for b in [0x7fc0_0000u32, 0x7f80_0001, 0xffc0_0000, 0x7fff_ffff, 0xff80_0001] {
        s.insert(b);
    }
    // every (stride-th) exponent with mantissa {0, 1, all-ones}, both signs
    for sign in [0u32, 1] {
        let mut e = 0u32;
        while e < 256 {
            for m in [0u32, 1, 0x7f_ffff] {
                s.insert(sign << 31 | e << 23 | m);
            }
            e += stride;
        }
        for m in [0u32, 1, 0x7f_ffff] {
            s.insert(sign << 31 | 255 << 23 | m);
        }
    }
    s.into_iter().map(V::F32).collect()
}

pub fn f64_set(stride: u64) -> Vec<V> {
    let mut s = BTreeSet::new();
    let edges: [f64; 47] = [
        0.0, 1.0, 2.0, 3.0, 4.0, 9.0, 10.0, 100.0, 0.5, 1.5, 2.5, 3.5, 4.5, 0.1, 0.3, 1.0 / 3.0,
        0.49999999999999994, 0.5000000000000001, 0.25, 0.75, 1e-7, 1e10, 123456.789, 4503599627370495.5,
        4503599627370496.0, 4503599627370497.0, 9007199254740992.0, 9007199254740993.0, 2251799813685247.8,
        2147483648.0, 4294967296.0, 9.223372036854776e18, 1.8446744073709552e19, f64::MAX, f64::MIN_POSITIVE,
        f64::EPSILON, std::f64::consts::PI, std::f64::consts::E, f64::INFINITY, 5e-324, 1e308, 1e-308, 7.0,
        0.9999999999999999, 1.0000000000000002, 1e21, 1e16,
    ];
    for e in edges {
        s.insert(e.to_bits());
        s.insert((-e).to_bits());
    }
    for b in [0x7ff8_0000_0000_0000u64, 0x7ff0_0000_0000_0001, 0xfff8_0000_0000_0000, 0x7fff_ffff_ffff_ffff] {
        s.insert(b);
    }
    for sign in [0u64, 1] {
        let mut e = 0u64;
        while e < 2048 {
            for m in [0u64, 1, 0xf_ffff_ffff_ffff] {
                s.insert(sign << 63 | e << 52 | m);
            }
            e += stride;
        }
        for m in [0u64, 1, 0xf_ffff_ffff_ffff] {
            s.insert(sign << 63 | 2047 << 52 | m);
        }
    }
    s.into_iter().map(V::F64).collect()
}

pub fn ipv4_set(octets: &[u8]) -> Vec<IpAddr> {
    let mut v = vec![];
    for a in octets {
        for b in octets {
            for c in octets {
                for d in octets {
                    v.push(IpAddr::V4(Ipv4Addr::new(*a, *b, *c, *d)));
                }
            }
        }
    }
    v
}

/// IPv6: groups {0, 1, ffff} at positions {0, 3, 7}; IPv4-mapped and
/// nearly-mapped addresses (for to_canonical)
pub fn ipv6_set() -> Vec<IpAddr> {
    let mut s = BTreeSet::new();
    let g = [0u16, 1, 0xffff];
    for a in g {
        for b in g {
            for c in g {
                s.insert(Ipv6Addr::new(a, 0, 0, b, 0, 0, 0, c));
            }
        }
    }
    for o in [0u8, 1, 127, 255] {
        for p in [0u8, 1, 255] {
            let lo = u16::from_be_bytes([o, p]);
            let hi = u16::from_be_bytes([p, o]);
            s.insert(Ipv6Addr::new(0, 0, 0, 0, 0, 0xffff, hi, lo)); // mapped
            s.insert(Ipv6Addr::new(0, 0, 0, 0, 0, 0xfffe, hi, lo)); // nearly
            s.insert(Ipv6Addr::new(0, 0, 0, 0, 1, 0xffff, hi, lo)); // nearly
            s.insert(Ipv6Addr::new(0, 0, 0, 0, 0, 0, hi, lo)); // v4-compatible
            s.insert(Ipv6Addr::new(0, 0, 0, 0, 0xffff, 0, hi, lo)); // translated
            s.insert(Ipv6Addr::new(0x64, 0xff9b, 0, 0, 0, 0, hi, lo)); // nat64
        }
    }
    s.into_iter().map(IpAddr::V6).collect()
}

pub fn prefixes(ips: &[IpAddr], lens: impl Fn(IpAddr) -> Vec<u8>) -> Vec<V> {
    let mut s = BTreeSet::new();
    for ip in ips {
        for l in lens(*ip) {
            s.insert((mask(*ip, l), l));
        }
    }
    s.into_iter().map(|(a, l)| V::Pfx(a, l)).collect()
}

pub fn all_lens(ip: IpAddr) -> Vec<u8> {
    (0..=crate::val::max_len(ip)).collect()
}

pub fn strs(it: impl IntoIterator<Item = String>) -> Vec<V> {
    it.into_iter().map(V::Str).collect()
}

