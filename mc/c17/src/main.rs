//! C17 — built-ins follow their documented meaning on every argument.
//!
//! Every built-in of the default runtime (the list is read from the runtime's
//! generated documentation at start-up and compared with the table in
//! `ops.rs`) is applied, through a compiled roto script and — where roto
//! exposes the Rust method — directly, to every argument tuple of a bounded
//! domain, and the result is compared with a reference computed from Rust's
//! std / own bit arithmetic per the documentation.

use std::collections::{BTreeSet, HashMap};
use std::sync::{Arc, Mutex};

use c17::ops::{self, Op, P, Ref};
use c17::dom::*;
use c17::val::V;
use c17::{doclint, plan};
use vcore::{Cfg, Check, Cx, Finding, Meta, SUB_SETUP, Tier, Value, Violation, json};

// ------------------------------------------------------------------ domains

/// the string alphabet: ASCII lower/upper, space, newline, 2-byte, 2-byte
/// that upper-cases to two chars, 3-byte, 4-byte
const SIGMA: [&str; 8] = ["a", "B", " ", "\n", "é", "ß", "漢", "𝄞"];

/// longest receiver, in symbols (the design asks for 3 / 4; the thorough
/// budget allows 5 for everything but `replace`)
fn max_syms(tier: Tier) -> usize {
    tier.pick(3, 5)
}
fn max_syms_replace(tier: Tier) -> usize {
    tier.pick(3, 4)
}

/// receivers: Σ^{<=L} plus every string of <= L tokens over
/// {a, \n, \r\n, \r} that contains a carriage return
fn receivers(l: usize) -> Vec<String> {
    let mut v = strings_over(&SIGMA, l);
    v.extend(strings_over(&["a", "\n", "\r\n", "\r"], l).into_iter().filter(|s| s.contains('\r')));
    // "\r" + "\n" and "\r\n" spell the same string: keep the first occurrence
    // multi-character special casing: final sigma, titlecase digraph,
    // one-to-many upper-casing, dotted capital I, ligature
    v.extend(["ΑΣ", "ΑΣ ", "ǅungla", "ǅUNGLA", "ß", "ŉ", "İ", "ǰ", "ﬃ"].map(String::from));
    let mut seen = BTreeSet::new();
    v.retain(|s| seen.insert(s.clone()));
    v
}

/// C17's argument domain of one parameter kind
fn domain(p: P, tier: Tier) -> Vec<V> {
    let l = max_syms(tier);
    match p {
        P::Recv => strs(receivers(l)),
        P::RecvReplace => strs(receivers(max_syms_replace(tier))),
        P::Str2 => {
            let mut v = strings_over(&SIGMA, 2);
            v.push("\r\n".into());
            v.push("\r".into());
            strs(v)
        }
        P::Idx => ints((0..=(4 * l as u64 + 1)).chain(BIG).map(|x| x as i128)),
        P::Rep => ints(0..=3),
        P::SplitN => ints((0..=(l as u64 + 2)).chain(BIG).map(|x| x as i128)),
        P::U8 => ints(0..=u8::MAX as i128),
        P::I8 => ints(i8::MIN as i128..=i8::MAX as i128),
        P::U16 => ints(0..=u16::MAX as i128),
        P::I16 => ints(i16::MIN as i128..=i16::MAX as i128),
        P::U32 => wide_ints(0, u32::MAX as i128),
        P::I32 => wide_ints(i32::MIN as i128, i32::MAX as i128),
        P::U64 => wide_ints(0, u64::MAX as i128),
        P::I64 => wide_ints(i64::MIN as i128, i64::MAX as i128),
        P::F32 => f32_set(1),
        P::F64 => f64_set(1),
        P::F32Pow => f32_set(tier.pick(4, 1)),
        P::F64Pow => f64_set(tier.pick(32, 8)),
        P::Bool => vec![V::Bool(false), V::Bool(true)],
        P::Char => (0..=0x10ffffu32).filter_map(char::from_u32).map(V::Char).collect(),
        P::Asn => wide_ints(0, u32::MAX as i128).into_iter().map(|v| V::Asn(v.u() as u32)).collect(),
        P::Ip4 => ipv4_set(&[0, 1, 127, 128, 255]).into_iter().map(V::Ip).collect(),
        P::Ip6 => ipv6_set().into_iter().map(V::Ip).collect(),
        P::Ip => ipv4_set(&[0, 1, 127, 128, 255]).into_iter().chain(ipv6_set()).map(V::Ip).collect(),
        P::Len4 => ints(0..=32),
        P::Len6 => ints(0..=128),
        P::Pfx => {
            let mut ips = ipv4_set(&[0, 1, 127, 128, 255]);
            ips.extend(ipv6_set());
            prefixes(&ips, all_lens)
        }
        P::PfxPair => {
            let mut ips = ipv4_set(tier.pick(&[0, 128, 255][..], &[0, 1, 128, 255][..]));
            ips.extend(ipv6_set().into_iter().take(27));
            prefixes(&ips, |ip| {
                if ip.is_ipv4() {
                    match tier {
                        Tier::Quick => vec![0, 1, 8, 9, 24, 31, 32],
                        Tier::Thorough => vec![0, 1, 7, 8, 9, 16, 24, 31, 32],
                    }
                } else {
                    vec![0, 1, 16, 63, 64, 127, 128]
                }
            })
        }
        P::CharList => {
            let mut v: Vec<V> =
                strings_over(&SIGMA, l).iter().map(|s| V::List(s.chars().map(V::Char).collect())).collect();
            for c in ['\0', '\u{7f}', '\u{80}', '\u{7ff}', '\u{800}', '\u{d7ff}', '\u{e000}', '\u{ffff}', '\u{10000}', '\u{10ffff}'] {
                v.push(V::List(vec![V::Char(c)]));
                v.push(V::List(vec![V::Char('a'), V::Char(c), V::Char('a')]));
            }
            v
        }
        P::BufStr => {
            let mut v = strings_over(&SIGMA, 1);
            let extra: &[&str] = tier.pick(&["a\n", "é漢"][..], &["a\n", "é漢", "𝄞ß", "  ", "\n\n", "Ba"][..]);
            v.extend(extra.iter().map(|s| s.to_string()));
            strs(v)
        }
        P::BufChar => SIGMA.iter().map(|s| V::Char(s.chars().next().unwrap())).collect(),
        // quick: [c], a+c, c+B for the case mappings; [c], c+a+c for the
        // trims; [c] for the lengths. thorough: all four plain contexts for
        // all of them, plus c+a+c and the space / newline padded ones for the trims
        P::CtxCase => ints(tier.pick(vec![0, 1, 2], vec![0, 1, 2, 3])),
        P::CtxTrim => ints(tier.pick(vec![0, 4], vec![0, 1, 2, 3, 4, 5, 6])),
        P::CtxLen => ints(tier.pick(vec![0], vec![0, 1, 2, 3])),
        P::UnusedStr => vec![V::str("")],
        P::UnusedChar => vec![V::Char('a')],
        P::ListU64 | P::ListStr | P::ElemU64 | P::ElemStr | P::ListIdx | P::ListLen | P::ListLen3 | P::UnusedInt => {
            unreachable!("List methods are C15's business; C17 does not enumerate them")
        }
    }
}

// ------------------------------------------------------------------ table

struct Table {
    ops: Vec<Op>,
    doms: Vec<Vec<Arc<[V]>>>,
    /// (op, first-parameter index range)
    units: Vec<(usize, u64, u64)>,
}

fn table(tier: Tier) -> Arc<Table> {
    static CACHE: Mutex<Option<HashMap<&'static str, Arc<Table>>>> = Mutex::new(None);
    let mut g = CACHE.lock().unwrap();
    let m = g.get_or_insert_with(HashMap::new);
    if let Some(t) = m.get(tier.name()) {
        return t.clone();
    }
    let ops: Vec<Op> = ops::ops().into_iter().filter(|o| !o.is_list).collect();
    let mut cache: HashMap<P, Arc<[V]>> = HashMap::new();
    let mut doms = vec![];
    let mut units = vec![];
    let target = tier.pick(60_000, 400_000);
    for (i, op) in ops.iter().enumerate() {
        let d: Vec<Arc<[V]>> =
            op.params.iter().map(|p| cache.entry(*p).or_insert_with(|| domain(*p, tier).into()).clone()).collect();
        for (lo, hi) in plan::chunks(&d, target) {
            units.push((i, lo, hi));
        }
        doms.push(d);
    }
    let t = Arc::new(Table { ops, doms, units });
    m.insert(tier.name(), t.clone());
    t
}

// ------------------------------------------------------------------ known shapes

/// The char that starts at byte offset `i` of `s` (None past the end or
/// inside a code point): what `StringLines.get` returns on this tree.
fn char_at_byte(s: &str, i: u64) -> Option<char> {
    if i < s.len() as u64 && s.is_char_boundary(i as usize) { s[i as usize..].chars().next() } else { None }
}

/// Shapes of failing cases that correspond to the recorded findings. Used by
/// `matches` and, in the worker, to keep the *repeats* of a known shape from
/// crowding out other violations (only repeats are merely counted).
fn known_shape(builtin: &str, class: &str, args: &[V], observed: &V) -> Option<&'static str> {
    if class != "mismatch" {
        return None;
    }
    match builtin {
        // returns the character at byte offset n instead of the n-th line
        "StringLines.get" => {
            let (V::Str(s), V::Int(i)) = (&args[0], &args[1]) else { return None };
            let want = V::Opt(char_at_byte(s, *i as u64).map(|c| Box::new(V::Char(c))));
            (*observed == want).then_some("lines_get_char_at_byte")
        }
        // "".lines().slice(0, 1) is Some("") although "" has no lines
        "StringLines.slice" => {
            let (V::Str(s), V::Int(i), V::Int(j)) = (&args[0], &args[1], &args[2]) else { return None };
            if (*i, *j) == (0, 1) {
                return (s.is_empty() && *observed == V::some(V::str(""))).then_some("lines_slice_0_1_of_empty");
            }
            // slice(len, len) of a non-empty text without a final newline is None
            let n = ops::raw_lines(s).len() as i128;
            (!s.is_empty() && !s.ends_with('\n') && *i == n && *j == n && *observed == V::none()).then_some("lines_slice_len_len_unterminated")
        }
        _ => None,
    }
}

/// inverse of `V::json` for the few shapes the matchers need
fn v_from_json(j: &Value) -> Option<V> {
    if let Some(s) = j.as_str() {
        if s == "None" {
            return Some(V::none());
        }
        return Some(V::Str(s.to_string()));
    }
    if let Some(o) = j.as_object() {
        if let Some(inner) = o.get("Some") {
            return v_from_json(inner).map(V::some);
        }
        if let Some(c) = o.get("char").and_then(|c| c.as_str()) {
            return c.chars().next().map(V::Char);
        }
    }
    None
}

/// arguments as written by `case_json`: strings stay strings; integers were
/// written as decimal strings — the parameter kinds say which is which
fn args_from_json(op_params: &[P], j: &Value) -> Option<Vec<V>> {
    let a = j.as_array()?;
    let mut out = vec![];
    for (p, x) in op_params.iter().zip(a) {
        out.push(match p {
            P::Recv | P::RecvReplace | P::Str2 => V::Str(x.as_str()?.to_string()),
            P::Idx | P::Rep | P::SplitN => V::Int(x.as_str()?.parse().ok()?),
            _ => return None,
        });
    }
    Some(out)
}

// ------------------------------------------------------------------ check

struct C17;

const REPEATS_KEPT: u64 = 12;

impl C17 {
    #[allow(clippy::too_many_arguments)]
    fn report(
        &self,
        cx: &mut Cx,
        shapes: &mut HashMap<&'static str, u64>,
        op: &Op,
        script: &str,
        args: &[V],
        via: &str,
        sub: u64,
        class: &str,
        expected: Value,
        observed_v: Option<&V>,
        observed: Value,
    ) {
        if let Some(shape) = observed_v.and_then(|o| known_shape(&op.name, class, args, o)) {
            let n = shapes.entry(shape).or_insert(0);
            *n += 1;
            if *n > REPEATS_KEPT {
                cx.count(&format!("repeats_only_counted:{shape}"), 1);
                return;
            }
        }
        cx.count(&format!("violations_in:{}", op.name), 1);
        cx.violation(class, sub, plan::case_json_script(op, script, args, via), expected, observed);
    }
}

impl Check for C17 {
    fn id(&self) -> &'static str {
        "C17"
    }
    fn units(&self, cfg: &Cfg) -> usize {
        table(cfg.tier).units.len()
    }

    fn run_unit(&self, unit: usize, cx: &mut Cx) {
        let tab = table(cx.cfg.tier);
        let (opi, lo, hi) = tab.units[unit];
        let op = &tab.ops[opi];
        let doms = &tab.doms[opi];
        if !cx.case(SUB_SETUP) {
            return;
        }
        let prep = match plan::prepare(op) {
            Ok(p) => p,
            Err((class, msg)) => {
                cx.violation(
                    class,
                    SUB_SETUP,
                    json!({"kind": "setup", "builtin": op.name, "form": op.form, "script": op.script}),
                    json!("the script compiles and f is retrievable under the documented signature"),
                    json!(msg),
                );
                return;
            }
        };
        let (mut s0, mut s1) = plan::sub_range(doms, lo, hi);
        match cx.only() {
            Some(SUB_SETUP) => return,
            Some(o) => {
                s0 = s0.max(o);
                s1 = s1.min(o.saturating_add(1));
            }
            None => {}
        }
        let opk = vcore::util::fnv_str(&op.label());
        let (mut n_cases, mut n_exec, mut n_val, mut n_unspec, mut n_nontriv) = (0u64, 0u64, 0u64, 0u64, 0u64);
        let mut shapes: HashMap<&'static str, u64> = HashMap::new();
        let mut sampled = false;
        for sub in s0..s1 {
            let args = op.real_args(plan::args_at(doms, sub));
            let expected = match vcore::util::catch(|| op.expected(&args)) {
                Ok(Some(e)) => e,
                Ok(None) => unreachable!("preflight: every op has a reference"),
                Err(p) => {
                    // a bug in the harness's own reference: report loudly
                    cx.violation("reference-panic", sub, plan::case_json(op, &args, "reference"), json!("the reference evaluates"), json!(p));
                    continue;
                }
            };
            if !cx.case(sub) {
                continue;
            }
            n_cases += 1;
            // through the compiled script
            let got = vcore::util::catch(|| (prep.call)(&args));
            n_exec += 1;
            let exp = match &expected {
                Ref::Is(v) => Some(v),
                Ref::Unspecified => None,
            };
            match (&got, exp) {
                (Err(p), _) => {
                    self.report(cx, &mut shapes, op, &prep.script, &args, "script", sub, "panic",
                        exp.map_or(json!("returns"), |e| e.json()), None, json!(p));
                }
                (Ok(g), Some(e)) => {
                    n_val += 1;
                    cx.outcome(vcore::util::mix(opk, g.class()));
                    if g != e {
                        self.report(cx, &mut shapes, op, &prep.script, &args, "script", sub, "mismatch", e.json(), Some(g), g.json());
                    }
                }
                (Ok(g), None) => {
                    n_unspec += 1;
                    cx.outcome(vcore::util::mix(opk, g.class()));
                }
            }
            // through the public Rust API
            if let Some(direct) = op.direct {
                let got_d = vcore::util::catch(|| direct(&args));
                n_exec += 1;
                match (&got_d, exp) {
                    (Err(p), _) => {
                        self.report(cx, &mut shapes, op, &prep.script, &args, "direct", sub, "panic",
                            exp.map_or(json!("returns"), |e| e.json()), None, json!(p));
                    }
                    (Ok(g), Some(e)) => {
                        n_val += 1;
                        if g != e {
                            self.report(cx, &mut shapes, op, &prep.script, &args, "direct", sub, "mismatch", e.json(), Some(g), g.json());
                        }
                    }
                    (Ok(_), None) => {}
                }
                // the two paths must agree with each other even where the
                // documentation is silent
                if let (Ok(a), Ok(b), None) = (&got, &got_d, exp) {
                    if a != b {
                        self.report(cx, &mut shapes, op, &prep.script, &args, "script-vs-direct", sub, "mismatch", b.json(), Some(a), a.json());
                    }
                }
            }
            if let Some(e) = exp {
                // non-trivial: the documented result is not None/false/empty/
                // unit and is not the first argument handed back
                let trivial = matches!(e, V::Unit | V::Bool(false) | V::Opt(None))
                    || matches!(e, V::Str(s) if s.is_empty())
                    || matches!(e, V::List(l) if l.is_empty())
                    || args.first() == Some(e);
                if !trivial {
                    n_nontriv += 1;
                    cx.nontrivial(vcore::util::mix(opk, e.class()));
                }
                // sample the first non-trivial case of the unit
                if !sampled && !trivial {
                    sampled = true;
                    cx.sample(json!({"builtin": op.name, "form": op.form, "script": prep.script,
                        "args": args.iter().map(|a| a.json()).collect::<Vec<_>>(),
                        "expected": e.json(),
                        "observed": got.as_ref().map_or(json!("panic"), |g| g.json())}));
                }
            }
        }
        cx.states(n_cases);
        cx.transitions(n_exec);
        cx.validated(n_val);
        cx.unspecified(n_unspec);
        cx.count("nontrivial_cases", n_nontriv);
    }

    fn describe(&self, cfg: &Cfg, unit: usize, sub: u64) -> Value {
        let tab = table(cfg.tier);
        let (opi, _, _) = tab.units[unit];
        let op = &tab.ops[opi];
        if sub == SUB_SETUP {
            return json!({"kind": "setup", "builtin": op.name, "form": op.form, "script": op.script});
        }
        let args = op.real_args(plan::args_at(&tab.doms[opi], sub));
        plan::case_json(op, &args, "script")
    }

    fn matches(&self, f: &Finding, v: &Violation) -> bool {
        let c = &v.case;
        if c["kind"] != "builtin" {
            return false;
        }
        let builtin = c["builtin"].as_str().unwrap_or("");
        let shape = || -> Option<&'static str> {
            let params: &[P] = match builtin {
                "StringLines.get" => &[P::Recv, P::Idx],
                "StringLines.slice" => &[P::Recv, P::Idx, P::Idx],
                _ => return None,
            };
            let args = args_from_json(params, &c["args"])?;
            let observed = v_from_json(&v.observed)?;
            known_shape(builtin, &v.class, &args, &observed)
        };
        match f.matcher.as_str() {
            // StringLines.get(n) hands back the char at byte offset n
            "lines_get_char_at_byte" => shape() == Some("lines_get_char_at_byte"),
            // "".lines().slice(0, 1) == Some("")
            "lines_slice_0_1_of_empty" => shape() == Some("lines_slice_0_1_of_empty"),
            // "a".lines().slice(1, 1) == None
            "lines_slice_len_len_unterminated" => shape() == Some("lines_slice_len_len_unterminated"),
            _ => false,
        }
    }

    fn meta(&self, cfg: &Cfg) -> Meta {
        let tab = table(cfg.tier);
        let mut sizes = serde_json_map();
        let mut seen = BTreeSet::new();
        for (op, d) in tab.ops.iter().zip(&tab.doms) {
            for (p, dom) in op.params.iter().zip(d) {
                if seen.insert(format!("{p:?}")) {
                    sizes.insert(format!("{p:?}"), json!(dom.len()));
                }
            }
        }
        let names: BTreeSet<&str> = tab.ops.iter().map(|o| o.name.as_str()).collect();
        Meta {
            rule: "every built-in form (method call, operator, constant, StringBuf push sequence) runs on the full cross product of its parameter domains, through a compiled script and (where public) through the Rust API; a case is non-trivial when its documented result is not None/false/empty/unit and not its first argument handed back; distinct_nontrivial counts distinct (built-in form, result class) pairs among those (class = Some/None, byte and char length, list shape, bool, float category, integer bit length); the raw number is counters.nontrivial_cases".into(),
            assumptions: vec![
                "x86-64, 64-bit usize".into(),
                "the reference is Rust's std (str, char, f32/f64 incl. libm powf, Display) and own bit arithmetic for prefixes; inetnum is trusted only for decoding a returned Prefix and for Asn's Display".into(),
                "Prefix.new / `ip / len` only on lengths valid for the address family (C10 owns the rest)".into(),
                "repeat counts <= 3".into(),
            ],
            bounds: json!({
                "alphabet": SIGMA,
                "receiver_max_symbols": max_syms(cfg.tier),
                "receiver_max_symbols_replace": max_syms_replace(cfg.tier),
                "second_string_max_symbols": 2,
                "unicode_sweep": {"code_points": 1_112_064, "contexts": ops::CONTEXTS,
                    "builtins": ["String.to_lowercase", "String.to_uppercase", "String.trim", "String.trim_start", "String.trim_end", "StringChars.len", "StringBytes.len"]},
                "domain_sizes": Value::Object(sizes),
                "builtins": names.len(),
                "builtin_forms": tab.ops.len(),
            }),
            states_are: "distinct (built-in form, argument tuple) cases".into(),
            transitions_are: "calls of a built-in (through compiled code or directly)".into(),
        }
    }

    fn preflight(&self, cfg: &Cfg) -> Result<(), String> {
        let all = ops::ops();
        // List.* belongs to C15; everything else documented must be in the table
        doclint::lint("c17", &all, |item| !item.starts_with("method List."))?;
        for op in all.iter().filter(|o| !o.is_list) {
            if !op.has_reference() {
                return Err(format!("built-in {} has no reference", op.label()));
            }
        }
        // the references reproduce the examples given in the documentation
        let s = |x: &str| V::str(x);
        let checks: Vec<(&str, &str, Vec<V>, V)> = vec![
            ("String.append", "method", vec![s("hello"), s(" ")], s("hello ")),
            ("String.contains", "method", vec![s("haystack"), s("hay")], V::Bool(true)),
            ("String.repeat", "method", vec![s("ha"), V::Int(6)], s("hahahahahaha")),
            ("String.replace", "method", vec![s("In rust we trust"), s("rust"), s("roto")], s("In roto we troto")),
            ("String.split", "method", vec![s("one, two, three"), s(", ")], V::strs(["one", "two", "three"])),
            ("String.splitn", "method", vec![s("Rust!Roto!String"), V::Int(2), s("!")], V::strs(["Rust", "Roto!String"])),
            ("String.rsplitn", "method", vec![s("Rust!Roto!String"), V::Int(2), s("!")], V::strs(["String", "Rust!Roto"])),
            ("String.strip_prefix", "method", vec![s("RustRoto!"), s("Rust")], V::some(s("Roto!"))),
            ("String.trim_end", "method", vec![s("  Roto!  ")], s("  Roto!")),
            ("String.trim_start", "method", vec![s("  Roto!  ")], s("Roto!  ")),
            ("StringLines.slice", "method", vec![s("1\n2\n3\n4"), V::Int(1), V::Int(4)], V::some(s("2\n3\n4"))),
            ("StringLines.slice", "method", vec![s("1\n2\n3\n4\n\n"), V::Int(1), V::Int(6)], V::none()),
            ("StringLines.list", "method", vec![s("One line\nAnd another")], V::strs(["One line", "And another"])),
        ];
        for (name, form, args, want) in checks {
            let op = all.iter().find(|o| o.name == name && o.form == form).ok_or(format!("no op {name}"))?;
            match op.expected(&args) {
                Some(Ref::Is(v)) if v == want => {}
                Some(Ref::Is(v)) => return Err(format!("reference of {name} on a documented example gives {v:?}, not {want:?}")),
                _ => return Err(format!("reference of {name} is silent on a documented example")),
            }
        }
        let _ = table(cfg.tier);
        Ok(())
    }
}

fn serde_json_map() -> vcore::serde_json::Map<String, Value> {
    vcore::serde_json::Map::new()
}

fn main() {
    vcore::main(&C17)
}
