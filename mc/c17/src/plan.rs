//! Enumeration helpers shared by C17 and C10 part B: compile an op's script
//! once, address the cross product of its parameter domains by one number.

use roto::{NoCtx, Package, Runtime};
use vcore::{Value as J, json};

use crate::ops::Op;
use crate::val::{Caller, V};

pub struct Prepared {
    pub call: Caller,
    /// the script that was compiled (the op's, or its alternative)
    pub script: String,
    // keep the compiled code alive as long as the caller
    _pkg: Package<NoCtx>,
    _rt: Runtime<NoCtx>,
}

/// Compile the script of `op` and fetch `f` under the op's Rust signature.
/// `Err((class, message))`.
pub fn prepare(op: &Op) -> Result<Prepared, (String, String)> {
    match prepare_script(&op.script, op.bind) {
        Err((class, msg)) if class == "compile" && op.alt.is_some() => {
            // the built-in may have been repaired to its alternative signature
            let alt = op.alt.as_ref().unwrap();
            prepare_script(&alt.script, alt.bind).map_err(|_| (class, msg))
        }
        r => r,
    }
}

type BindFn = fn(&mut Package<NoCtx>, &str) -> Result<Caller, String>;

fn prepare_script(script: &str, bind: BindFn) -> Result<Prepared, (String, String)> {
    let rt = host::runtime();
    let mut pkg = match host::compile(&rt, script) {
        Ok(p) => p,
        Err(host::CompileFail::Report(r)) => return Err(("compile".into(), r)),
        Err(host::CompileFail::Panic(p)) => return Err(("compile-panic".into(), p)),
    };
    let call = match vcore::util::catch(|| bind(&mut pkg, "f")) {
        Ok(Ok(c)) => c,
        Ok(Err(e)) => return Err(("get_function".into(), e)),
        Err(p) => return Err(("get_function-panic".into(), p)),
    };
    Ok(Prepared { call, script: script.to_string(), _pkg: pkg, _rt: rt })
}

pub fn radices<D: AsRef<[V]>>(doms: &[D]) -> Vec<u64> {
    doms.iter().map(|d| d.as_ref().len() as u64).collect()
}

/// number of argument tuples
pub fn total<D: AsRef<[V]>>(doms: &[D]) -> u64 {
    doms.iter().map(|d| d.as_ref().len() as u64).product()
}

/// the `sub`-th argument tuple (last parameter varies fastest)
pub fn args_at<D: AsRef<[V]>>(doms: &[D], sub: u64) -> Vec<V> {
    let idx = vcore::util::decode(sub, &radices(doms));
    idx.iter().zip(doms).map(|(i, d)| d.as_ref()[*i as usize].clone()).collect()
}

/// the literal case, as written into violations, samples and replays
pub fn case_json(op: &Op, args: &[V], via: &str) -> J {
    case_json_script(op, &op.script, args, via)
}

pub fn case_json_script(op: &Op, script: &str, args: &[V], via: &str) -> J {
    json!({
        "kind": "builtin",
        "builtin": op.name,
        "form": op.form,
        "via": via,
        "script": script,
        "args": args.iter().map(|a| a.json()).collect::<Vec<_>>(),
    })
}

/// Split `0..n0` (the first parameter's domain) into chunks so that a unit
/// has about `target` cases; returns (lo, hi) ranges of first-parameter indices.
pub fn chunks<D: AsRef<[V]>>(doms: &[D], target: u64) -> Vec<(u64, u64)> {
    if doms.is_empty() {
        return vec![(0, 1)];
    }
    let n0 = doms[0].as_ref().len() as u64;
    let inner: u64 = doms[1..].iter().map(|d| d.as_ref().len() as u64).product();
    let per = (target / inner.max(1)).clamp(1, n0.max(1));
    let mut v = vec![];
    let mut lo = 0;
    while lo < n0 {
        let hi = (lo + per).min(n0);
        v.push((lo, hi));
        lo = hi;
    }
    v
}

/// sub-case range of a chunk
pub fn sub_range<D: AsRef<[V]>>(doms: &[D], lo: u64, hi: u64) -> (u64, u64) {
    if doms.is_empty() {
        return (0, 1);
    }
    let inner: u64 = doms[1..].iter().map(|d| d.as_ref().len() as u64).product();
    (lo * inner, hi * inner)
}

/// Split the whole cross product into contiguous sub-case ranges of at most
/// `target` cases.
pub fn sub_chunks<D: AsRef<[V]>>(doms: &[D], target: u64) -> Vec<(u64, u64)> {
    let n = total(doms);
    let mut v = vec![];
    let mut lo = 0;
    while lo < n {
        let hi = (lo + target.max(1)).min(n);
        v.push((lo, hi));
        lo = hi;
    }
    v
}
