//! The table of built-ins of roto's default runtime: for each one (and each
//! surface form — method call, operator, constant) a roto script that applies
//! it to harness-supplied arguments, the Rust signature under which the
//! script's function is fetched, the parameter kinds (mapped to concrete
//! argument domains by each check), the reference computed from Rust's
//! std / own arithmetic per the documentation, and — where roto exposes the
//! Rust method publicly — a direct call.

use std::net::{IpAddr, Ipv4Addr, Ipv6Addr};

use inetnum::{addr::Prefix, asn::Asn};
use roto::{List, NoCtx, Package, RotoString};

use crate::val::{Bind, Caller, V, fill, mask};

/// What a parameter *means*; each check maps kinds to concrete domains.
#[derive(Clone, Copy, Debug, PartialEq, Eq, Hash)]
pub enum P {
    /// receiver string of a String method / view
    Recv,
    /// receiver of `replace` (two further string arguments: the cross
    /// product is the largest of all, so its receivers may be bounded lower)
    RecvReplace,
    /// second / third string argument (needle, prefix, separator, from, to)
    Str2,
    /// index into a string view (bytes / chars / lines)
    Idx,
    /// `repeat` count (kept small: memory)
    Rep,
    /// `splitn` / `rsplitn` count
    SplitN,
    U8,
    I8,
    U16,
    I16,
    U32,
    I32,
    U64,
    I64,
    F32,
    F64,
    /// base and exponent of `pow`
    F32Pow,
    F64Pow,
    Bool,
    Char,
    Asn,
    Ip,
    Ip4,
    Ip6,
    /// prefix length for an IPv4 / IPv6 address
    Len4,
    Len6,
    Pfx,
    /// both operands of Prefix.eq (smaller set, squared)
    PfxPair,
    /// List[char] for String.from_chars
    CharList,
    /// StringBuf sequences: initial / pushed string, pushed char
    BufStr,
    BufChar,
    /// a parameter the script does not use (one dummy value)
    UnusedStr,
    UnusedChar,
    /// Unicode sweep: which context a code point is embedded in
    /// (`in_context`), for the case mappings / the trims / the lengths
    CtxCase,
    CtxTrim,
    CtxLen,
    /// List methods (C10 survival only; their meaning is C15's)
    ListU64,
    ListStr,
    ElemU64,
    ElemStr,
    ListIdx,
    /// length of a list the script builds itself (element-type dimension):
    /// by pushes {0, 1, 2, 4, 5} / by a list literal {0, 1, 2}
    ListLen,
    ListLen3,
    /// an integer parameter the script does not use (one dummy value)
    UnusedInt,
}

pub enum Ref {
    Is(V),
    /// the documentation leaves this case open
    Unspecified,
}

#[derive(Clone)]
pub struct Op {
    /// short name of the primary built-in, e.g. `String.repeat`
    pub name: String,
    /// `method`, `operator ==`, `constant`, `sequence`, ...
    pub form: String,
    /// documented items this op exercises: the exact text after
    /// `{roto:<kind>} ` in the generated documentation, prefixed by the kind
    pub covers: Vec<String>,
    pub script: String,
    pub params: Vec<P>,
    pub bind: fn(&mut Package<NoCtx>, &str) -> Result<Caller, String>,
    /// None only for the List methods (C15 owns their meaning)
    pub reference: Option<fn(&[V]) -> Ref>,
    /// the same operation through roto's public Rust API
    pub direct: Option<fn(&[V]) -> V>,
    pub is_list: bool,
    /// the same built-in under the signature it gets once a recorded defect
    /// is repaired (used when the primary script no longer compiles)
    pub alt: Option<Alt>,
    /// The enumerated tuple is not the argument tuple itself: this maps it to
    /// the arguments the script / reference / direct call receive (Unicode
    /// sweep: (code point, context) -> receiver string). The domain of all
    /// 1.1 M code points times contexts is never materialised as strings.
    pub arg_map: Option<fn(&[V]) -> Vec<V>>,
    /// StringBuf push sequence: the reference replays the pushes that the
    /// parameter kinds mark as used (`buf_reference`)
    pub buf_seq: bool,
}

#[derive(Clone)]
pub struct Alt {
    pub cover: String,
    pub script: String,
    pub bind: fn(&mut Package<NoCtx>, &str) -> Result<Caller, String>,
}

/// contexts of the Unicode sweep
pub const CONTEXTS: [&str; 7] = ["c", "a+c", "c+B", "c+c", "c+a+c", "space+c+space", "newline+c+newline"];

/// the code point `c` embedded in context number `ctx`
pub fn in_context(c: char, ctx: u64) -> String {
    match ctx {
        0 => format!("{c}"),
        1 => format!("a{c}"),
        2 => format!("{c}B"),
        3 => format!("{c}{c}"),
        4 => format!("{c}a{c}"),
        5 => format!(" {c} "),
        6 => format!("\n{c}\n"),
        _ => panic!("harness: unknown context {ctx}"),
    }
}

fn sweep_args(a: &[V]) -> Vec<V> {
    vec![V::Str(in_context(a[0].c(), a[1].u()))]
}

impl Op {
    /// the arguments the built-in actually receives for an enumerated tuple
    pub fn real_args(&self, enumerated: Vec<V>) -> Vec<V> {
        match self.arg_map {
            Some(m) => m(&enumerated),
            None => enumerated,
        }
    }
    /// the documented result for these arguments (None: no reference, List.*)
    pub fn expected(&self, a: &[V]) -> Option<Ref> {
        if self.buf_seq {
            return Some(Ref::Is(buf_reference(&self.params, a)));
        }
        self.reference.map(|f| f(a))
    }
    pub fn has_reference(&self) -> bool {
        self.buf_seq || self.reference.is_some()
    }
    pub fn label(&self) -> String {
        format!("{} [{}]", self.name, self.form)
    }
}

fn is(v: V) -> Ref {
    Ref::Is(v)
}

struct B {
    v: Vec<Op>,
}

impl B {
    #[allow(clippy::too_many_arguments)]
    fn add<T: Bind>(
        &mut self,
        name: &str,
        form: &str,
        covers: &[&str],
        script: &str,
        params: &[P],
        reference: Option<fn(&[V]) -> Ref>,
        direct: Option<fn(&[V]) -> V>,
    ) {
        self.v.push(Op {
            name: name.into(),
            form: form.into(),
            covers: covers.iter().map(|s| s.to_string()).collect(),
            script: format!("{script}\n"),
            params: params.to_vec(),
            bind: T::bind,
            reference,
            direct,
            is_list: name.starts_with("List."),
            buf_seq: false,
            alt: None,
            arg_map: None,
        });
    }
}

macro_rules! r {
    ($e:expr) => {{
        let f: fn(&[V]) -> Ref = $e;
        Some(f)
    }};
}
macro_rules! d {
    ($e:expr) => {{
        let f: fn(&[V]) -> V = $e;
        Some(f)
    }};
}

fn rs(v: &V) -> RotoString {
    RotoString::from(v.s())
}
fn opt_str(o: Option<RotoString>) -> V {
    V::Opt(o.map(|s| Box::new(V::Str(s.to_string()))))
}
fn opt_char(o: Option<char>) -> V {
    V::Opt(o.map(|c| Box::new(V::Char(c))))
}
fn list_str(l: List<RotoString>) -> V {
    V::List(l.to_vec().into_iter().map(|s| V::Str(s.to_string())).collect())
}

/// `StringLines::get` returns `Option<char>` on the pinned tree and will
/// return `Option<RotoString>` once repaired; the harness must build against both
trait AnyOpt {
    fn any_opt(self) -> V;
}
impl AnyOpt for Option<char> {
    fn any_opt(self) -> V {
        opt_char(self)
    }
}
impl AnyOpt for Option<RotoString> {
    fn any_opt(self) -> V {
        opt_str(self)
    }
}

/// raw lines, terminators included; as many as `str::lines()` yields
pub fn raw_lines(s: &str) -> Vec<&str> {
    s.split_inclusive('\n').collect()
}

macro_rules! int_to_string {
    ($b:expr, $t:ty, $name:literal, $p:expr) => {
        $b.add::<fn($t) -> RotoString>(
            concat!($name, ".to_string"),
            "method",
            &[concat!("method ", $name, ".to_string(self: ", $name, ") -> String")],
            concat!("fn f(x: ", $name, ") -> String { x.to_string() }"),
            &[$p],
            r!(|a| is(V::Str((a[0].i() as $t).to_string()))),
            None,
        );
    };
}

macro_rules! float_ops {
    (@un $b:expr, $t:ty, $name:literal, $p:expr, $get:ident, $of:ident, $m:literal, $f:ident) => {
        $b.add::<fn($t) -> $t>(
            concat!($name, ".", $m),
            "method",
            &[concat!("method ", $name, ".", $m, "(self: ", $name, ") -> ", $name)],
            concat!("fn f(x: ", $name, ") -> ", $name, " { x.", $m, "() }"),
            &[$p],
            r!(|a| is(V::$of(a[0].$get().$f()))),
            None,
        );
    };
    (@pred $b:expr, $t:ty, $name:literal, $p:expr, $get:ident, $m:literal, $f:ident) => {
        $b.add::<fn($t) -> bool>(
            concat!($name, ".", $m),
            "method",
            &[concat!("method ", $name, ".", $m, "(self: ", $name, ") -> bool")],
            concat!("fn f(x: ", $name, ") -> bool { x.", $m, "() }"),
            &[$p],
            r!(|a| is(V::Bool(a[0].$get().$f()))),
            None,
        );
    };
    ($b:expr, $t:ty, $name:literal, $p:expr, $pp:expr, $get:ident, $of:ident) => {
        $b.add::<fn($t) -> RotoString>(
            concat!($name, ".to_string"),
            "method",
            &[concat!("method ", $name, ".to_string(self: ", $name, ") -> String")],
            concat!("fn f(x: ", $name, ") -> String { x.to_string() }"),
            &[$p],
            r!(|a| is(V::Str(a[0].$get().to_string()))),
            None,
        );
        float_ops!(@un $b, $t, $name, $p, $get, $of, "floor", floor);
        float_ops!(@un $b, $t, $name, $p, $get, $of, "ceil", ceil);
        float_ops!(@un $b, $t, $name, $p, $get, $of, "round", round);
        float_ops!(@un $b, $t, $name, $p, $get, $of, "abs", abs);
        float_ops!(@un $b, $t, $name, $p, $get, $of, "sqrt", sqrt);
        float_ops!(@pred $b, $t, $name, $p, $get, "is_nan", is_nan);
        float_ops!(@pred $b, $t, $name, $p, $get, "is_infinite", is_infinite);
        float_ops!(@pred $b, $t, $name, $p, $get, "is_finite", is_finite);
        $b.add::<fn($t, $t) -> $t>(
            concat!($name, ".pow"),
            "method",
            &[concat!("method ", $name, ".pow(self: ", $name, ", exp: ", $name, ") -> ", $name)],
            concat!("fn f(x: ", $name, ", y: ", $name, ") -> ", $name, " { x.pow(y) }"),
            &[$pp, $pp],
            r!(|a| is(V::$of(a[0].$get().powf(a[1].$get())))),
            None,
        );
    };
}

const S_BYTES: &str = "method String.bytes(self: String) -> StringBytes";
const S_CHARS: &str = "method String.chars(self: String) -> StringChars";
const S_LINES: &str = "method String.lines(self: String) -> StringLines";

/// All built-ins, simplest first.
pub fn ops() -> Vec<Op> {
    let mut b = B { v: vec![] };
    type S = RotoString;

    // ------------------------------------------------------------ to_string
    b.add::<fn(bool) -> S>(
        "bool.to_string",
        "method",
        &["method bool.to_string(self: bool) -> String"],
        "fn f(x: bool) -> String { x.to_string() }",
        &[P::Bool],
        r!(|a| is(V::Str(a[0].b().to_string()))),
        None,
    );
    int_to_string!(b, u8, "u8", P::U8);
    int_to_string!(b, i8, "i8", P::I8);
    int_to_string!(b, u16, "u16", P::U16);
    int_to_string!(b, i16, "i16", P::I16);
    int_to_string!(b, u32, "u32", P::U32);
    int_to_string!(b, i32, "i32", P::I32);
    int_to_string!(b, u64, "u64", P::U64);
    int_to_string!(b, i64, "i64", P::I64);
    b.add::<fn(char) -> S>(
        "char.to_string",
        "method",
        &["method char.to_string(self: char) -> String"],
        "fn f(x: char) -> String { x.to_string() }",
        &[P::Char],
        r!(|a| is(V::Str(a[0].c().to_string()))),
        None,
    );
    b.add::<fn(Asn) -> S>(
        "Asn.to_string",
        "method",
        &["method Asn.to_string(self: Asn) -> String"],
        "fn f(x: Asn) -> String { x.to_string() }",
        &[P::Asn],
        r!(|a| match &a[0] {
            V::Asn(n) => is(V::Str(Asn::from_u32(*n).to_string())),
            _ => unreachable!(),
        }),
        None,
    );

    // ------------------------------------------------------------ floats
    float_ops!(b, f32, "f32", P::F32, P::F32Pow, f32, of_f32);
    float_ops!(b, f64, "f64", P::F64, P::F64Pow, f64, of_f64);

    // ------------------------------------------------------------ IpAddr
    b.add::<fn() -> IpAddr>(
        "IpAddr.LOCALHOSTV4",
        "constant",
        &["constant LOCALHOSTV4: IpAddr"],
        "fn f() -> IpAddr { IpAddr.LOCALHOSTV4 }",
        &[],
        r!(|_| is(V::Ip(IpAddr::V4(Ipv4Addr::new(127, 0, 0, 1))))),
        None,
    );
    b.add::<fn() -> IpAddr>(
        "IpAddr.LOCALHOSTV6",
        "constant",
        &["constant LOCALHOSTV6: IpAddr"],
        "fn f() -> IpAddr { IpAddr.LOCALHOSTV6 }",
        &[],
        r!(|_| is(V::Ip(IpAddr::V6(Ipv6Addr::new(0, 0, 0, 0, 0, 0, 0, 1))))),
        None,
    );
    b.add::<fn(IpAddr) -> S>(
        "IpAddr.to_string",
        "method",
        &["method IpAddr.to_string(self: IpAddr) -> String"],
        "fn f(x: IpAddr) -> String { x.to_string() }",
        &[P::Ip],
        r!(|a| is(V::Str(a[0].ip().to_string()))),
        None,
    );
    b.add::<fn(IpAddr) -> bool>(
        "IpAddr.is_ipv4",
        "method",
        &["method IpAddr.is_ipv4(self: IpAddr) -> bool"],
        "fn f(x: IpAddr) -> bool { x.is_ipv4() }",
        &[P::Ip],
        r!(|a| is(V::Bool(matches!(a[0].ip(), IpAddr::V4(_))))),
        None,
    );
    b.add::<fn(IpAddr) -> bool>(
        "IpAddr.is_ipv6",
        "method",
        &["method IpAddr.is_ipv6(self: IpAddr) -> bool"],
        "fn f(x: IpAddr) -> bool { x.is_ipv6() }",
        &[P::Ip],
        r!(|a| is(V::Bool(matches!(a[0].ip(), IpAddr::V6(_))))),
        None,
    );
    b.add::<fn(IpAddr) -> IpAddr>(
        "IpAddr.to_canonical",
        "method",
        &["method IpAddr.to_canonical(self: IpAddr) -> IpAddr"],
        "fn f(x: IpAddr) -> IpAddr { x.to_canonical() }",
        &[P::Ip],
        r!(|a| is(V::Ip(a[0].ip().to_canonical()))),
        None,
    );
    const IP_EQ: &str = "method IpAddr.eq(self: IpAddr, other: IpAddr) -> bool";
    b.add::<fn(IpAddr, IpAddr) -> bool>(
        "IpAddr.eq",
        "method",
        &[IP_EQ],
        "fn f(x: IpAddr, y: IpAddr) -> bool { x.eq(y) }",
        &[P::Ip, P::Ip],
        r!(|a| is(V::Bool(a[0].ip() == a[1].ip()))),
        None,
    );
    b.add::<fn(IpAddr, IpAddr) -> bool>(
        "IpAddr.eq",
        "operator ==",
        &[IP_EQ],
        "fn f(x: IpAddr, y: IpAddr) -> bool { x == y }",
        &[P::Ip, P::Ip],
        r!(|a| is(V::Bool(a[0].ip() == a[1].ip()))),
        None,
    );
    b.add::<fn(IpAddr, IpAddr) -> bool>(
        "IpAddr.eq",
        "operator !=",
        &[IP_EQ],
        "fn f(x: IpAddr, y: IpAddr) -> bool { x != y }",
        &[P::Ip, P::Ip],
        r!(|a| is(V::Bool(a[0].ip() != a[1].ip()))),
        None,
    );

    // ------------------------------------------------------------ Prefix
    const PFX_NEW: &str = "method Prefix.new(ip: IpAddr, len: u8) -> Prefix";
    fn pfx_new_ref(a: &[V]) -> Ref {
        let (ip, len) = (a[0].ip(), a[1].u() as u8);
        if len > crate::val::max_len(ip) {
            // outside the documented domain (C10 owns survival there)
            return Ref::Unspecified;
        }
        is(V::Pfx(mask(ip, len), len))
    }
    for (fam, pi, pl) in [("v4", P::Ip4, P::Len4), ("v6", P::Ip6, P::Len6)] {
        b.add::<fn(IpAddr, u8) -> Prefix>(
            "Prefix.new",
            &format!("method {fam}"),
            &[PFX_NEW],
            "fn f(ip: IpAddr, len: u8) -> Prefix { Prefix.new(ip, len) }",
            &[pi, pl],
            Some(pfx_new_ref),
            None,
        );
        b.add::<fn(IpAddr, u8) -> Prefix>(
            "Prefix.new",
            &format!("operator / {fam}"),
            &[PFX_NEW],
            "fn f(ip: IpAddr, len: u8) -> Prefix { ip / len }",
            &[pi, pl],
            Some(pfx_new_ref),
            None,
        );
    }
    b.add::<fn(Prefix) -> IpAddr>(
        "Prefix.addr",
        "method",
        &["method Prefix.addr(self: Prefix) -> IpAddr"],
        "fn f(p: Prefix) -> IpAddr { p.addr() }",
        &[P::Pfx],
        r!(|a| is(V::Ip(a[0].pfx().0))),
        None,
    );
    b.add::<fn(Prefix) -> IpAddr>(
        "Prefix.min_addr",
        "method",
        &["method Prefix.min_addr(self: Prefix) -> IpAddr"],
        "fn f(p: Prefix) -> IpAddr { p.min_addr() }",
        &[P::Pfx],
        r!(|a| is(V::Ip(a[0].pfx().0))),
        None,
    );
    b.add::<fn(Prefix) -> IpAddr>(
        "Prefix.max_addr",
        "method",
        &["method Prefix.max_addr(self: Prefix) -> IpAddr"],
        "fn f(p: Prefix) -> IpAddr { p.max_addr() }",
        &[P::Pfx],
        r!(|a| {
            let (ip, l) = a[0].pfx();
            is(V::Ip(fill(ip, l)))
        }),
        None,
    );
    b.add::<fn(Prefix) -> u8>(
        "Prefix.len",
        "method",
        &["method Prefix.len(self: Prefix) -> u8"],
        "fn f(p: Prefix) -> u8 { p.len() }",
        &[P::Pfx],
        r!(|a| is(V::Int(a[0].pfx().1 as i128))),
        None,
    );
    b.add::<fn(Prefix) -> S>(
        "Prefix.to_string",
        "method",
        &["method Prefix.to_string(self: Prefix) -> String"],
        "fn f(p: Prefix) -> String { p.to_string() }",
        &[P::Pfx],
        r!(|a| {
            let (ip, l) = a[0].pfx();
            is(V::Str(format!("{ip}/{l}")))
        }),
        None,
    );
    const PFX_EQ: &str = "method Prefix.eq(self: Prefix, other: Prefix) -> bool";
    b.add::<fn(Prefix, Prefix) -> bool>(
        "Prefix.eq",
        "method",
        &[PFX_EQ],
        "fn f(p: Prefix, q: Prefix) -> bool { p.eq(q) }",
        &[P::PfxPair, P::PfxPair],
        r!(|a| is(V::Bool(a[0].pfx() == a[1].pfx()))),
        None,
    );
    b.add::<fn(Prefix, Prefix) -> bool>(
        "Prefix.eq",
        "operator ==",
        &[PFX_EQ],
        "fn f(p: Prefix, q: Prefix) -> bool { p == q }",
        &[P::PfxPair, P::PfxPair],
        r!(|a| is(V::Bool(a[0].pfx() == a[1].pfx()))),
        None,
    );
    b.add::<fn(Prefix, Prefix) -> bool>(
        "Prefix.eq",
        "operator !=",
        &[PFX_EQ],
        "fn f(p: Prefix, q: Prefix) -> bool { p != q }",
        &[P::PfxPair, P::PfxPair],
        r!(|a| is(V::Bool(a[0].pfx() != a[1].pfx()))),
        None,
    );

    // ------------------------------------------------------------ String
    b.add::<fn(S) -> S>(
        "String.to_string",
        "method",
        &["method String.to_string(self: String) -> String"],
        "fn f(s: String) -> String { s.to_string() }",
        &[P::Recv],
        r!(|a| is(a[0].clone())),
        None,
    );
    b.add::<fn(S) -> S>(
        "String.to_lowercase",
        "method",
        &["method String.to_lowercase(self: String) -> String"],
        "fn f(s: String) -> String { s.to_lowercase() }",
        &[P::Recv],
        r!(|a| is(V::Str(a[0].s().to_lowercase()))),
        d!(|a| V::Str(rs(&a[0]).to_lowercase().to_string())),
    );
    b.add::<fn(S) -> S>(
        "String.to_uppercase",
        "method",
        &["method String.to_uppercase(self: String) -> String"],
        "fn f(s: String) -> String { s.to_uppercase() }",
        &[P::Recv],
        r!(|a| is(V::Str(a[0].s().to_uppercase()))),
        d!(|a| V::Str(rs(&a[0]).to_uppercase().to_string())),
    );
    b.add::<fn(S) -> S>(
        "String.trim",
        "method",
        &["method String.trim(self: String) -> String"],
        "fn f(s: String) -> String { s.trim() }",
        &[P::Recv],
        r!(|a| is(V::str(a[0].s().trim()))),
        d!(|a| V::Str(rs(&a[0]).trim().to_string())),
    );
    b.add::<fn(S) -> S>(
        "String.trim_start",
        "method",
        &["method String.trim_start(self: String) -> String"],
        "fn f(s: String) -> String { s.trim_start() }",
        &[P::Recv],
        r!(|a| is(V::str(a[0].s().trim_start()))),
        d!(|a| V::Str(rs(&a[0]).trim_start().to_string())),
    );
    b.add::<fn(S) -> S>(
        "String.trim_end",
        "method",
        &["method String.trim_end(self: String) -> String"],
        "fn f(s: String) -> String { s.trim_end() }",
        &[P::Recv],
        r!(|a| is(V::str(a[0].s().trim_end()))),
        d!(|a| V::Str(rs(&a[0]).trim_end().to_string())),
    );
    b.add::<fn(S, u64) -> S>(
        "String.repeat",
        "method",
        &["method String.repeat(self: String, n: u64) -> String"],
        "fn f(s: String, n: u64) -> String { s.repeat(n) }",
        &[P::Recv, P::Rep],
        r!(|a| {
            let mut out = String::new();
            for _ in 0..a[1].u() {
                out.push_str(a[0].s());
            }
            is(V::Str(out))
        }),
        d!(|a| V::Str(rs(&a[0]).repeat(a[1].u() as usize).to_string())),
    );
    b.add::<fn(List<char>) -> S>(
        "String.from_chars",
        "static method",
        &["method String.from_chars(chars: List[char]) -> String"],
        "fn f(l: List[char]) -> String { String.from_chars(l) }",
        &[P::CharList],
        r!(|a| is(V::Str(a[0].list().iter().map(|c| c.c()).collect()))),
        d!(|a| {
            let l: List<char> = a[0].list().iter().map(|c| c.c()).collect();
            V::Str(RotoString::from_chars(l).to_string())
        }),
    );
    const APPEND: &str = "method String.append(self: String, other: String) -> String";
    b.add::<fn(S, S) -> S>(
        "String.append",
        "method",
        &[APPEND],
        "fn f(s: String, t: String) -> String { s.append(t) }",
        &[P::Recv, P::Str2],
        r!(|a| is(V::Str([a[0].s(), a[1].s()].concat()))),
        None,
    );
    b.add::<fn(S, S) -> S>(
        "String.append",
        "operator +",
        &[APPEND],
        "fn f(s: String, t: String) -> String { s + t }",
        &[P::Recv, P::Str2],
        r!(|a| is(V::Str([a[0].s(), a[1].s()].concat()))),
        None,
    );
    const STR_EQ: &str = "method String.eq(self: String, other: String) -> bool";
    b.add::<fn(S, S) -> bool>(
        "String.eq",
        "method",
        &[STR_EQ],
        "fn f(s: String, t: String) -> bool { s.eq(t) }",
        &[P::Recv, P::Str2],
        r!(|a| is(V::Bool(a[0].s().as_bytes() == a[1].s().as_bytes()))),
        None,
    );
    b.add::<fn(S, S) -> bool>(
        "String.eq",
        "operator ==",
        &[STR_EQ],
        "fn f(s: String, t: String) -> bool { s == t }",
        &[P::Recv, P::Str2],
        r!(|a| is(V::Bool(a[0].s().as_bytes() == a[1].s().as_bytes()))),
        None,
    );
    b.add::<fn(S, S) -> bool>(
        "String.eq",
        "operator !=",
        &[STR_EQ],
        "fn f(s: String, t: String) -> bool { s != t }",
        &[P::Recv, P::Str2],
        r!(|a| is(V::Bool(a[0].s().as_bytes() != a[1].s().as_bytes()))),
        None,
    );
    b.add::<fn(S, S) -> bool>(
        "String.contains",
        "method",
        &["method String.contains(self: String, needle: String) -> bool"],
        "fn f(s: String, t: String) -> bool { s.contains(t) }",
        &[P::Recv, P::Str2],
        r!(|a| is(V::Bool(a[0].s().contains(a[1].s())))),
        d!(|a| V::Bool(rs(&a[0]).contains(a[1].s()))),
    );
    b.add::<fn(S, S) -> bool>(
        "String.starts_with",
        "method",
        &["method String.starts_with(self: String, prefix: String) -> bool"],
        "fn f(s: String, t: String) -> bool { s.starts_with(t) }",
        &[P::Recv, P::Str2],
        r!(|a| is(V::Bool(a[0].s().starts_with(a[1].s())))),
        d!(|a| V::Bool(rs(&a[0]).starts_with(a[1].s()))),
    );
    b.add::<fn(S, S) -> bool>(
        "String.ends_with",
        "method",
        &["method String.ends_with(self: String, suffix: String) -> bool"],
        "fn f(s: String, t: String) -> bool { s.ends_with(t) }",
        &[P::Recv, P::Str2],
        r!(|a| is(V::Bool(a[0].s().ends_with(a[1].s())))),
        d!(|a| V::Bool(rs(&a[0]).ends_with(a[1].s()))),
    );
    b.add::<fn(S, S) -> Option<S>>(
        "String.strip_prefix",
        "method",
        &["method String.strip_prefix(self: String, prefix: String) -> Option[String]"],
        "fn f(s: String, t: String) -> String? { s.strip_prefix(t) }",
        &[P::Recv, P::Str2],
        r!(|a| is(V::Opt(a[0].s().strip_prefix(a[1].s()).map(|x| Box::new(V::str(x)))))),
        d!(|a| opt_str(rs(&a[0]).strip_prefix(a[1].s()))),
    );
    b.add::<fn(S, S) -> Option<S>>(
        "String.strip_suffix",
        "method",
        &["method String.strip_suffix(self: String, suffix: String) -> Option[String]"],
        "fn f(s: String, t: String) -> String? { s.strip_suffix(t) }",
        &[P::Recv, P::Str2],
        r!(|a| is(V::Opt(a[0].s().strip_suffix(a[1].s()).map(|x| Box::new(V::str(x)))))),
        d!(|a| opt_str(rs(&a[0]).strip_suffix(a[1].s()))),
    );
    b.add::<fn(S, S) -> List<S>>(
        "String.split",
        "method",
        &["method String.split(self: String, separator: String) -> List[String]"],
        "fn f(s: String, t: String) -> List[String] { s.split(t) }",
        &[P::Recv, P::Str2],
        r!(|a| is(V::strs(a[0].s().split(a[1].s())))),
        d!(|a| list_str(rs(&a[0]).split(a[1].s()))),
    );
    b.add::<fn(S, u64, S) -> List<S>>(
        "String.splitn",
        "method",
        &["method String.splitn(self: String, n: u64, separator: String) -> List[String]"],
        "fn f(s: String, n: u64, t: String) -> List[String] { s.splitn(n, t) }",
        &[P::Recv, P::SplitN, P::Str2],
        r!(|a| is(V::strs(a[0].s().splitn(a[1].u() as usize, a[2].s())))),
        d!(|a| list_str(rs(&a[0]).splitn(a[1].u() as usize, a[2].s()))),
    );
    b.add::<fn(S, u64, S) -> List<S>>(
        "String.rsplitn",
        "method",
        &["method String.rsplitn(self: String, n: u64, separator: String) -> List[String]"],
        "fn f(s: String, n: u64, t: String) -> List[String] { s.rsplitn(n, t) }",
        &[P::Recv, P::SplitN, P::Str2],
        r!(|a| is(V::strs(a[0].s().rsplitn(a[1].u() as usize, a[2].s())))),
        d!(|a| list_str(rs(&a[0]).rsplitn(a[1].u() as usize, a[2].s()))),
    );
    b.add::<fn(S, S, S) -> S>(
        "String.replace",
        "method",
        &["method String.replace(self: String, from: String, to: String) -> String"],
        "fn f(s: String, t: String, u: String) -> String { s.replace(t, u) }",
        &[P::RecvReplace, P::Str2, P::Str2],
        r!(|a| is(V::Str(a[0].s().replace(a[1].s(), a[2].s())))),
        d!(|a| V::Str(rs(&a[0]).replace(a[1].s(), a[2].s()).to_string())),
    );

    // ------------------------------------------------------------ views
    // bytes
    b.add::<fn(S) -> u64>(
        "StringBytes.len",
        "method",
        &["method StringBytes.len(self: StringBytes) -> u64", S_BYTES],
        "fn f(s: String) -> u64 { s.bytes().len() }",
        &[P::Recv],
        r!(|a| is(V::Int(a[0].s().len() as i128))),
        d!(|a| V::Int(rs(&a[0]).bytes().len() as i128)),
    );
    b.add::<fn(S) -> List<u8>>(
        "StringBytes.list",
        "method",
        &["method StringBytes.list(self: StringBytes) -> List[u8]", S_BYTES],
        "fn f(s: String) -> List[u8] { s.bytes().list() }",
        &[P::Recv],
        r!(|a| is(V::List(a[0].s().bytes().map(|x| V::Int(x as i128)).collect()))),
        d!(|a| V::List(rs(&a[0]).bytes().list().to_vec().into_iter().map(|x| V::Int(x as i128)).collect())),
    );
    b.add::<fn(S, u64) -> Option<char>>(
        "StringBytes.get",
        "method",
        &["method StringBytes.get(self: StringBytes, idx: u64) -> Option[char]", S_BYTES],
        "fn f(s: String, i: u64) -> char? { s.bytes().get(i) }",
        &[P::Recv, P::Idx],
        r!(|a| {
            let (s, i) = (a[0].s(), a[1].u());
            // the character that starts at byte offset i; None past the end
            // and in the middle of a code point
            let r = if i < s.len() as u64 && s.is_char_boundary(i as usize) {
                s[i as usize..].chars().next()
            } else {
                None
            };
            is(opt_char(r))
        }),
        d!(|a| opt_char(rs(&a[0]).bytes().get(a[1].u() as usize))),
    );
    b.add::<fn(S, u64, u64) -> Option<S>>(
        "StringBytes.slice",
        "method",
        &["method StringBytes.slice(self: StringBytes, start: u64, end: u64) -> Option[String]", S_BYTES],
        "fn f(s: String, i: u64, j: u64) -> String? { s.bytes().slice(i, j) }",
        &[P::Recv, P::Idx, P::Idx],
        r!(|a| {
            let (s, i, j) = (a[0].s(), a[1].u(), a[2].u());
            let n = s.len() as u64;
            let r = if i <= j && j <= n && s.is_char_boundary(i as usize) && s.is_char_boundary(j as usize) {
                Some(V::str(&s[i as usize..j as usize]))
            } else {
                None
            };
            is(V::Opt(r.map(Box::new)))
        }),
        d!(|a| opt_str(rs(&a[0]).bytes().slice(a[1].u() as usize, a[2].u() as usize))),
    );
    // chars
    b.add::<fn(S) -> u64>(
        "StringChars.len",
        "method",
        &["method StringChars.len(self: StringChars) -> u64", S_CHARS],
        "fn f(s: String) -> u64 { s.chars().len() }",
        &[P::Recv],
        r!(|a| is(V::Int(a[0].s().chars().count() as i128))),
        d!(|a| V::Int(rs(&a[0]).chars().len() as i128)),
    );
    b.add::<fn(S) -> List<char>>(
        "StringChars.list",
        "method",
        &["method StringChars.list(self: StringChars) -> List[char]", S_CHARS],
        "fn f(s: String) -> List[char] { s.chars().list() }",
        &[P::Recv],
        r!(|a| is(V::List(a[0].s().chars().map(V::Char).collect()))),
        d!(|a| V::List(rs(&a[0]).chars().list().to_vec().into_iter().map(V::Char).collect())),
    );
    b.add::<fn(S, u64) -> Option<char>>(
        "StringChars.get",
        "method",
        &["method StringChars.get(self: StringChars, idx: u64) -> Option[char]", S_CHARS],
        "fn f(s: String, i: u64) -> char? { s.chars().get(i) }",
        &[P::Recv, P::Idx],
        r!(|a| {
            let cs: Vec<char> = a[0].s().chars().collect();
            let i = a[1].u();
            is(opt_char(if i < cs.len() as u64 { Some(cs[i as usize]) } else { None }))
        }),
        d!(|a| opt_char(rs(&a[0]).chars().get(a[1].u() as usize))),
    );
    b.add::<fn(S, u64, u64) -> Option<S>>(
        "StringChars.slice",
        "method",
        &["method StringChars.slice(self: StringChars, start: u64, end: u64) -> Option[String]", S_CHARS],
        "fn f(s: String, i: u64, j: u64) -> String? { s.chars().slice(i, j) }",
        &[P::Recv, P::Idx, P::Idx],
        r!(|a| {
            let cs: Vec<char> = a[0].s().chars().collect();
            let (i, j) = (a[1].u(), a[2].u());
            let r = if i <= j && j <= cs.len() as u64 {
                Some(V::Str(cs[i as usize..j as usize].iter().collect()))
            } else {
                None
            };
            is(V::Opt(r.map(Box::new)))
        }),
        d!(|a| opt_str(rs(&a[0]).chars().slice(a[1].u() as usize, a[2].u() as usize))),
    );
    // lines
    b.add::<fn(S) -> u64>(
        "StringLines.len",
        "method",
        &["method StringLines.len(self: StringLines) -> u64", S_LINES],
        "fn f(s: String) -> u64 { s.lines().len() }",
        &[P::Recv],
        r!(|a| is(V::Int(a[0].s().lines().count() as i128))),
        d!(|a| V::Int(rs(&a[0]).lines().len() as i128)),
    );
    b.add::<fn(S) -> List<S>>(
        "StringLines.list",
        "method",
        &["method StringLines.list(self: StringLines) -> List[String]", S_LINES],
        "fn f(s: String) -> List[String] { s.lines().list() }",
        &[P::Recv],
        r!(|a| is(V::strs(a[0].s().lines()))),
        d!(|a| list_str(rs(&a[0]).lines().list())),
    );
    b.add::<fn(S, u64) -> Option<char>>(
        "StringLines.get",
        "method",
        &["method StringLines.get(self: StringLines, idx: u64) -> Option[char]", S_LINES],
        "fn f(s: String, i: u64) -> char? { s.lines().get(i) }",
        &[P::Recv, P::Idx],
        // documented: "Get the nth line in this string." The declared return
        // type cannot even hold a line; the reference is the n-th of
        // str::lines(), so the implementation can only agree where both
        // are None.
        r!(|a| {
            let i = a[1].u();
            let l = if i <= usize::MAX as u64 { a[0].s().lines().nth(i as usize) } else { None };
            is(V::Opt(l.map(|x| Box::new(V::str(x)))))
        }),
        d!(|a| rs(&a[0]).lines().get(a[1].u() as usize).any_opt()),
    );
    // once the defect is repaired the method returns the line itself
    b.v.last_mut().unwrap().alt = Some(Alt {
        cover: "method StringLines.get(self: StringLines, idx: u64) -> Option[String]".into(),
        script: "fn f(s: String, i: u64) -> String? { s.lines().get(i) }\n".into(),
        bind: <fn(S, u64) -> Option<S> as Bind>::bind,
    });
    b.add::<fn(S, u64, u64) -> Option<S>>(
        "StringLines.slice",
        "method",
        &["method StringLines.slice(self: StringLines, start: u64, end: u64) -> Option[String]", S_LINES],
        "fn f(s: String, i: u64, j: u64) -> String? { s.lines().slice(i, j) }",
        &[P::Recv, P::Idx, P::Idx],
        r!(|a| {
            let raw = raw_lines(a[0].s());
            let (i, j) = (a[1].u(), a[2].u());
            let n = raw.len() as u64;
            if i <= j && j <= n {
                // the empty range at the very end included: `end == len` is in
                // bounds (slice(1, len) is Some), so `start == len` is too, as
                // for `&v[len..len]`, `chars().slice(len, len)` and the same
                // lines when the text ends in a newline
                is(V::some(V::Str(raw[i as usize..j as usize].concat())))
            } else {
                is(V::none())
            }
        }),
        d!(|a| opt_str(rs(&a[0]).lines().slice(a[1].u() as usize, a[2].u() as usize))),
    );

    // ------------------------------------------------------------ StringBuf
    // every sequence of <= 3 pushes, after `new()` and after `from(init)`
    const BUF_ALL: [&str; 5] = [
        "method StringBuf.new() -> StringBuf",
        "method StringBuf.from(s: String) -> StringBuf",
        "method StringBuf.push_char(self: StringBuf, c: char)",
        "method StringBuf.push_string(self: StringBuf, s: String)",
        "method StringBuf.as_string(self: StringBuf) -> String",
    ];
    for from in [false, true] {
        for k in 0..=3usize {
            for shape in 0..(1u32 << k) {
                // bit i of shape: push i is a string (1) or a char (0)
                let mut body = String::new();
                let mut params = vec![if from { P::BufStr } else { P::UnusedStr }];
                let mut form = String::from(if from { "from" } else { "new" });
                for i in 0..3 {
                    let used = i < k;
                    let is_str = shape >> i & 1 == 1;
                    params.push(if used && !is_str { P::BufChar } else { P::UnusedChar });
                    params.push(if used && is_str { P::BufStr } else { P::UnusedStr });
                    if used {
                        if is_str {
                            body.push_str(&format!("    b.push_string(s{i});\n"));
                            form.push_str(",push_string");
                        } else {
                            body.push_str(&format!("    b.push_char(c{i});\n"));
                            form.push_str(",push_char");
                        }
                    }
                }
                let ctor = if from { "StringBuf.from(i)" } else { "StringBuf.new()" };
                let script = format!(
                    "fn f(i: String, c0: char, s0: String, c1: char, s1: String, c2: char, s2: String) -> String {{\n    let b = {ctor};\n{body}    b.as_string()\n}}"
                );
                let mut covers: Vec<&str> = vec![BUF_ALL[from as usize], BUF_ALL[4]];
                if k > 0 {
                    if shape != 0 {
                        covers.push(BUF_ALL[3]);
                    }
                    if shape != (1 << k) - 1 {
                        covers.push(BUF_ALL[2]);
                    }
                }
                b.add::<fn(S, char, S, char, S, char, S) -> S>(
                    "StringBuf",
                    &format!("sequence {form}"),
                    &covers,
                    &script,
                    &params,
                    None,
                    None,
                );
                b.v.last_mut().unwrap().buf_seq = true;
            }
        }
    }
    // snapshot semantics: a String taken with as_string() is not affected by
    // later pushes
    b.add::<fn(S, char, S, char, S, char, S) -> S>(
        "StringBuf",
        "sequence from,as_string,push_char,push_string,as_string",
        &[BUF_ALL[1], BUF_ALL[2], BUF_ALL[3], BUF_ALL[4]],
        "fn f(i: String, c0: char, s0: String, c1: char, s1: String, c2: char, s2: String) -> String {\n    let b = StringBuf.from(i);\n    let x = b.as_string();\n    b.push_char(c0);\n    b.push_string(s0);\n    x + \"|\" + b.as_string()\n}",
        &[P::BufStr, P::BufChar, P::BufStr, P::UnusedChar, P::UnusedStr, P::UnusedChar, P::UnusedStr],
        r!(|a| is(V::Str(format!("{}|{}{}{}", a[0].s(), a[0].s(), a[1].c(), a[2].s())))),
        None,
    );

    // ------------------------------------------------------------ Unicode sweep
    // The String built-ins whose result depends on per-character Unicode
    // properties, on EVERY Unicode scalar value embedded in a few contexts
    // (the string alphabet above has 8 symbols and e.g. no titlecase letter).
    for (name, ctx) in [
        ("String.to_lowercase", P::CtxCase),
        ("String.to_uppercase", P::CtxCase),
        ("String.trim", P::CtxTrim),
        ("String.trim_start", P::CtxTrim),
        ("String.trim_end", P::CtxTrim),
        ("StringChars.len", P::CtxLen),
        ("StringBytes.len", P::CtxLen),
    ] {
        let mut op = b.v.iter().find(|o| o.name == name && o.form == "method").expect("sweep base op").clone();
        op.form = "method, every code point in context".into();
        op.params = vec![P::Char, ctx];
        op.arg_map = Some(sweep_args);
        b.v.push(op);
    }

    // ------------------------------------------------------------ List (C10 only)
    list_ops(&mut b);

    b.v
}

/// Reference for the StringBuf sequence ops: replay the pushes the param
/// kinds say are used.
pub fn buf_reference(params: &[P], a: &[V]) -> V {
    let mut out = String::new();
    for (p, v) in params.iter().zip(a) {
        match p {
            P::BufStr => out.push_str(v.s()),
            P::BufChar => out.push(v.c()),
            _ => {}
        }
    }
    V::Str(out)
}

fn list_ops(b: &mut B) {
    type S = RotoString;
    b.add::<fn() -> List<u64>>(
        "List.new",
        "static method u64",
        &["method List.new() -> List[T]"],
        "fn f() -> List[u64] { List.new() }",
        &[],
        None,
        None,
    );
    b.add::<fn() -> List<S>>(
        "List.new",
        "static method String",
        &["method List.new() -> List[T]"],
        "fn f() -> List[String] { List.new() }",
        &[],
        None,
        None,
    );
    macro_rules! both {
        ($name:literal, $sig:literal, $form:literal, $ret_u:ty, $ret_s:ty, $script_u:literal, $script_s:literal, [$($pu:expr),*], [$($ps:expr),*], ($($au:ty),*), ($($as_:ty),*)) => {
            b.add::<fn($($au),*) -> $ret_u>($name, concat!($form, " u64"), &[$sig], $script_u, &[$($pu),*], None, None);
            b.add::<fn($($as_),*) -> $ret_s>($name, concat!($form, " String"), &[$sig], $script_s, &[$($ps),*], None, None);
        };
    }
    both!("List.push", "method List.push(self: List[T], elem: T)", "method", List<u64>, List<S>,
        "fn f(l: List[u64], x: u64) -> List[u64] { l.push(x); l }",
        "fn f(l: List[String], x: String) -> List[String] { l.push(x); l }",
        [P::ListU64, P::ElemU64], [P::ListStr, P::ElemStr], (List<u64>, u64), (List<S>, S));
    both!("List.contains", "method List.contains(self: List[T], item: T) -> bool", "method", bool, bool,
        "fn f(l: List[u64], x: u64) -> bool { l.contains(x) }",
        "fn f(l: List[String], x: String) -> bool { l.contains(x) }",
        [P::ListU64, P::ElemU64], [P::ListStr, P::ElemStr], (List<u64>, u64), (List<S>, S));
    both!("List.index", "method List.index(self: List[T], item: T) -> Option[u64]", "method", Option<u64>, Option<u64>,
        "fn f(l: List[u64], x: u64) -> u64? { l.index(x) }",
        "fn f(l: List[String], x: String) -> u64? { l.index(x) }",
        [P::ListU64, P::ElemU64], [P::ListStr, P::ElemStr], (List<u64>, u64), (List<S>, S));
    both!("List.concat", "method List.concat(self: List[T], other: List[T]) -> List[T]", "method", List<u64>, List<S>,
        "fn f(l: List[u64], m: List[u64]) -> List[u64] { l.concat(m) }",
        "fn f(l: List[String], m: List[String]) -> List[String] { l.concat(m) }",
        [P::ListU64, P::ListU64], [P::ListStr, P::ListStr], (List<u64>, List<u64>), (List<S>, List<S>));
    both!("List.concat", "method List.concat(self: List[T], other: List[T]) -> List[T]", "operator +", List<u64>, List<S>,
        "fn f(l: List[u64], m: List[u64]) -> List[u64] { l + m }",
        "fn f(l: List[String], m: List[String]) -> List[String] { l + m }",
        [P::ListU64, P::ListU64], [P::ListStr, P::ListStr], (List<u64>, List<u64>), (List<S>, List<S>));
    both!("List.concat", "method List.concat(self: List[T], other: List[T]) -> List[T]", "method self+self", List<u64>, List<S>,
        "fn f(l: List[u64]) -> List[u64] { l.concat(l) }",
        "fn f(l: List[String]) -> List[String] { l.concat(l) }",
        [P::ListU64], [P::ListStr], (List<u64>), (List<S>));
    both!("List.get", "method List.get(self: List[T], idx: u64) -> Option[T]", "method", Option<u64>, Option<S>,
        "fn f(l: List[u64], i: u64) -> u64? { l.get(i) }",
        "fn f(l: List[String], i: u64) -> String? { l.get(i) }",
        [P::ListU64, P::ListIdx], [P::ListStr, P::ListIdx], (List<u64>, u64), (List<S>, u64));
    both!("List.swap", "method List.swap(self: List[T], i: u64, j: u64)", "method", List<u64>, List<S>,
        "fn f(l: List[u64], i: u64, j: u64) -> List[u64] { l.swap(i, j); l }",
        "fn f(l: List[String], i: u64, j: u64) -> List[String] { l.swap(i, j); l }",
        [P::ListU64, P::ListIdx, P::ListIdx], [P::ListStr, P::ListIdx, P::ListIdx], (List<u64>, u64, u64), (List<S>, u64, u64));
    both!("List.len", "method List.len(self: List[T]) -> u64", "method", u64, u64,
        "fn f(l: List[u64]) -> u64 { l.len() }",
        "fn f(l: List[String]) -> u64 { l.len() }",
        [P::ListU64], [P::ListStr], (List<u64>), (List<S>));
    both!("List.capacity", "method List.capacity(self: List[T]) -> u64", "method", u64, u64,
        "fn f(l: List[u64]) -> u64 { l.capacity() }",
        "fn f(l: List[String]) -> u64 { l.capacity() }",
        [P::ListU64], [P::ListStr], (List<u64>), (List<S>));
    both!("List.is_empty", "method List.is_empty(self: List[T]) -> bool", "method", bool, bool,
        "fn f(l: List[u64]) -> bool { l.is_empty() }",
        "fn f(l: List[String]) -> bool { l.is_empty() }",
        [P::ListU64], [P::ListStr], (List<u64>), (List<S>));
    b.add::<fn(List<S>, S) -> S>(
        "List.join",
        "method",
        &["method List.join(self: List[String], separator: String) -> String"],
        "fn f(l: List[String], s: String) -> String { l.join(s) }",
        &[P::ListStr, P::ElemStr],
        None,
        None,
    );
    // push onto a list built in the script until it grows several times,
    // then read back out of range
    b.add::<fn(u64, u64) -> Option<u64>>(
        "List.push",
        "method grow-in-script u64",
        &["method List.push(self: List[T], elem: T)", "method List.new() -> List[T]"],
        "fn f(x: u64, i: u64) -> u64? {\n    let l: List[u64] = List.new();\n    l.push(x); l.push(x); l.push(x); l.push(x); l.push(x);\n    l.get(i)\n}",
        &[P::ElemU64, P::ListIdx],
        None,
        None,
    );
    b.add::<fn(S, u64) -> Option<S>>(
        "List.push",
        "method grow-in-script String",
        &["method List.push(self: List[T], elem: T)", "method List.new() -> List[T]"],
        "fn f(x: String, i: u64) -> String? {\n    let l: List[String] = List.new();\n    l.push(x); l.push(x); l.push(x); l.push(x); l.push(x);\n    l.get(i)\n}",
        &[P::ElemStr, P::ListIdx],
        None,
        None,
    );
    list_elem_ops(b);
}

/// An element type of the element-type dimension of the List built-ins.
pub struct Elem {
    pub name: &'static str,
    /// type annotation, where the type can be written down
    pub ty: Option<&'static str>,
    /// top-level declarations the script needs
    pub prelude: &'static str,
    /// three element expressions (the second one is the searched item)
    pub e: [&'static str; 3],
}

/// u8, u64, String, the unit type, a zero-sized and a 24-byte registered
/// type, an optional, a nested list, an anonymous record, and zero-sized
/// records (anonymous with a unit field, named without fields).
pub const ELEMS: &[Elem] = &[
    Elem { name: "u8", ty: Some("u8"), prelude: "", e: ["1", "2", "255"] },
    Elem { name: "u64", ty: Some("u64"), prelude: "", e: ["1", "2", "9223372036854775807"] },
    Elem { name: "String", ty: Some("String"), prelude: "", e: ["\"a\"", "\"é\"", "\"\""] },
    Elem { name: "()", ty: Some("()"), prelude: "", e: ["()", "()", "()"] },
    Elem { name: "Z (zero-sized registered type)", ty: Some("Z"), prelude: "", e: ["mkz()", "mkz()", "mkz()"] },
    Elem { name: "Tr (24-byte registered type)", ty: Some("Tr"), prelude: "", e: ["mk(1)", "mk(2)", "mk(3)"] },
    Elem { name: "Option[u32]", ty: Some("u32?"), prelude: "", e: ["Some(1)", "None", "Some(4294967295)"] },
    Elem { name: "List[u8]", ty: Some("List[u8]"), prelude: "", e: ["[1, 2]", "[]", "[3]"] },
    Elem {
        name: "anonymous record",
        ty: None,
        prelude: "",
        e: ["{ a: 1, b: true }", "{ a: 2, b: false }", "{ a: 1, b: false }"],
    },
    Elem {
        name: "anonymous record with only a unit field",
        ty: None,
        prelude: "",
        e: ["{ u: () }", "{ u: () }", "{ u: () }"],
    },
    Elem {
        name: "named record",
        ty: Some("R"),
        prelude: "record R { a: u8, s: String }\n",
        e: ["R { a: 1, s: \"a\" }", "R { a: 2, s: \"é\" }", "R { a: 1, s: \"\" }"],
    },
    Elem { name: "named record without fields", ty: Some("E"), prelude: "record E {}\n", e: ["E {}", "E {}", "E {}"] },
];

/// The List built-ins with the ELEMENT TYPE as an extra dimension. The
/// scripts build their list themselves (length n in {0, 1, 2, 4, 5}) and
/// reduce the result to a u64, so that one Rust signature serves every
/// element type, including those that cannot cross the host boundary.
fn list_elem_ops(b: &mut B) {
    const NEW: &str = "method List.new() -> List[T]";
    const PUSH: &str = "method List.push(self: List[T], elem: T)";
    // (built-in, form, extra covered signature, uses i, uses j, body)
    let bodies: &[(&str, &str, &str, bool, bool, &str)] = &[
        ("List.len", "method", "method List.len(self: List[T]) -> u64", false, false, "l.len()"),
        ("List.capacity", "method", "method List.capacity(self: List[T]) -> u64", false, false, "l.capacity()"),
        ("List.is_empty", "method", "method List.is_empty(self: List[T]) -> bool", false, false,
            "if l.is_empty() { 1 } else { 0 }"),
        ("List.push", "method", PUSH, false, false, "l.push(E1);\n    l.len()"),
        ("List.contains", "method", "method List.contains(self: List[T], item: T) -> bool", false, false,
            "let a = if l.contains(E1) { 1 } else { 0 };\n    let b = if l.contains(E2) { 2 } else { 0 };\n    a + b"),
        ("List.index", "method", "method List.index(self: List[T], item: T) -> Option[u64]", false, false,
            "let a = match l.index(E1) {\n        Some(k) => k + 1,\n        None => 0,\n    };\n    let b = match l.index(E2) {\n        Some(k) => k + 1,\n        None => 0,\n    };\n    a * 8 + b"),
        ("List.get", "method", "method List.get(self: List[T], idx: u64) -> Option[T]", true, false,
            "match l.get(i) {\n        Some(x) => 1,\n        None => 0,\n    }"),
        ("List.swap", "method", "method List.swap(self: List[T], i: u64, j: u64)", true, true, "l.swap(i, j);\n    l.len()"),
        ("List.concat", "method", "method List.concat(self: List[T], other: List[T]) -> List[T]", false, false,
            "let k = List.new();\n    k.push(E2);\n    let m = l.concat(k).concat(l);\n    m.len()"),
        ("List.concat", "operator +", "method List.concat(self: List[T], other: List[T]) -> List[T]", false, false,
            "let k = [E2];\n    let m = l + k + l;\n    m.len()"),
        ("List.eq", "operator == / !=", "", false, false,
            "let k = List.new();\n    let m = l.concat(k);\n    let a = if l == m { 1 } else { 0 };\n    let b = if l != k { 2 } else { 0 };\n    let c = if l == l { 4 } else { 0 };\n    a + b + c"),
        ("List.for", "for loop", "", false, false,
            "let c = 0;\n    for x in l {\n        c = c + 1;\n    }\n    c"),
    ];
    for el in ELEMS {
        let ann = el.ty.map(|t| format!(": List[{t}]")).unwrap_or_default();
        for (name, form, sig, use_i, use_j, body) in bodies {
            for literal in [false, true] {
                // the list literal construction only for the searching built-ins
                if literal && !["List.contains", "List.index", "List.len"].contains(name) {
                    continue;
                }
                let build = if literal {
                    format!(
                        "    let l{ann} = if n == 0 {{\n        []\n    }} else if n == 1 {{\n        [{e0}]\n    }} else {{\n        [{e0}, {e1}]\n    }};\n",
                        e0 = el.e[0], e1 = el.e[1]
                    )
                } else {
                    format!(
                        "    let l{ann} = List.new();\n    if n >= 1 {{ l.push({e0}); }}\n    if n >= 2 {{ l.push({e1}); }}\n    if n >= 4 {{ l.push({e2}); l.push({e0}); }}\n    if n >= 5 {{ l.push({e1}); }}\n",
                        e0 = el.e[0], e1 = el.e[1], e2 = el.e[2]
                    )
                };
                let body = body.replace("E1", el.e[1]).replace("E2", el.e[2]);
                let script = format!("{}fn f(n: u64, i: u64, j: u64) -> u64 {{\n{build}    {body}\n}}", el.prelude);
                let mut covers = vec![NEW, PUSH];
                if !sig.is_empty() {
                    covers.push(sig);
                }
                let params = [
                    if literal { P::ListLen3 } else { P::ListLen },
                    if *use_i { P::ListIdx } else { P::UnusedInt },
                    if *use_j { P::ListIdx } else { P::UnusedInt },
                ];
                b.add::<fn(u64, u64, u64) -> u64>(
                    name,
                    &format!("{form}, {}, elem = {}", if literal { "list literal" } else { "list built in the script" }, el.name),
                    &covers,
                    &script,
                    &params,
                    None,
                    None,
                );
            }
        }
    }
}
