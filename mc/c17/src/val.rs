//! A small dynamic value model so that one enumeration loop can drive
//! built-ins of every signature: `V` on the harness side, `Conv` to and from
//! the Rust types that cross the roto boundary.

use std::net::{IpAddr, Ipv4Addr, Ipv6Addr};

use inetnum::{addr::Prefix, asn::Asn};
use roto::{List, NoCtx, Package, RotoFunc, RotoString, Value};
use vcore::{Value as J, json};

#[derive(Clone, Debug, PartialEq)]
pub enum V {
    Unit,
    Bool(bool),
    /// any integer type, widened
    Int(i128),
    /// raw bits on the way in; NaNs canonicalised on the way out
    F32(u32),
    F64(u64),
    Char(char),
    Str(String),
    Ip(IpAddr),
    /// (address with host bits zero, length)
    Pfx(IpAddr, u8),
    Asn(u32),
    Opt(Option<Box<V>>),
    List(Vec<V>),
}

impl V {
    pub fn some(v: V) -> V {
        V::Opt(Some(Box::new(v)))
    }
    pub fn none() -> V {
        V::Opt(None)
    }
    pub fn str(s: impl Into<String>) -> V {
        V::Str(s.into())
    }
    pub fn s(&self) -> &str {
        match self {
            V::Str(s) => s,
            _ => panic!("harness: expected Str, got {self:?}"),
        }
    }
    pub fn u(&self) -> u64 {
        match self {
            V::Int(i) => *i as u64,
            _ => panic!("harness: expected Int, got {self:?}"),
        }
    }
    pub fn i(&self) -> i128 {
        match self {
            V::Int(i) => *i,
            _ => panic!("harness: expected Int, got {self:?}"),
        }
    }
    pub fn c(&self) -> char {
        match self {
            V::Char(c) => *c,
            _ => panic!("harness: expected Char, got {self:?}"),
        }
    }
    pub fn b(&self) -> bool {
        match self {
            V::Bool(c) => *c,
            _ => panic!("harness: expected Bool, got {self:?}"),
        }
    }
    pub fn f32(&self) -> f32 {
        match self {
            V::F32(b) => f32::from_bits(*b),
            _ => panic!("harness: expected F32, got {self:?}"),
        }
    }
    pub fn f64(&self) -> f64 {
        match self {
            V::F64(b) => f64::from_bits(*b),
            _ => panic!("harness: expected F64, got {self:?}"),
        }
    }
    pub fn ip(&self) -> IpAddr {
        match self {
            V::Ip(b) => *b,
            _ => panic!("harness: expected Ip, got {self:?}"),
        }
    }
    pub fn pfx(&self) -> (IpAddr, u8) {
        match self {
            V::Pfx(a, l) => (*a, *l),
            _ => panic!("harness: expected Pfx, got {self:?}"),
        }
    }
    pub fn list(&self) -> &[V] {
        match self {
            V::List(l) => l,
            _ => panic!("harness: expected List, got {self:?}"),
        }
    }
    pub fn of_f32(x: f32) -> V {
        V::F32(host::canon_f32(x))
    }
    pub fn of_f64(x: f64) -> V {
        V::F64(host::canon_f64(x))
    }
    pub fn strs<'a>(it: impl IntoIterator<Item = &'a str>) -> V {
        V::List(it.into_iter().map(V::str).collect())
    }

    /// literal, unambiguous rendering for violations / samples / replays
    pub fn json(&self) -> J {
        match self {
            V::Unit => json!("()"),
            V::Bool(b) => json!(b),
            V::Int(i) => json!(i.to_string()),
            V::F32(b) => json!({"f32_bits": format!("{b:#010x}"), "value": format!("{:?}", f32::from_bits(*b))}),
            V::F64(b) => json!({"f64_bits": format!("{b:#018x}"), "value": format!("{:?}", f64::from_bits(*b))}),
            V::Char(c) => json!({"char": c.to_string(), "code": format!("U+{:04X}", *c as u32)}),
            V::Str(s) => json!(s),
            V::Ip(a) => json!(a.to_string()),
            V::Pfx(a, l) => json!(format!("{a}/{l}")),
            V::Asn(n) => json!(format!("AS{n}")),
            V::Opt(None) => json!("None"),
            V::Opt(Some(v)) => json!({"Some": v.json()}),
            V::List(l) => J::Array(l.iter().map(|v| v.json()).collect()),
        }
    }

    /// stable hash of the value
    pub fn hash(&self) -> u64 {
        vcore::util::fnv_str(&format!("{self:?}"))
    }

    /// coarse abstraction used for the `nontrivial` / `outcomes` sets so that
    /// they stay bounded: (None/Some, byte and char length, list length,
    /// bool value, float category, integer magnitude class)
    pub fn class(&self) -> u64 {
        use vcore::util::mix;
        match self {
            V::Unit => 1,
            V::Bool(b) => 2 + *b as u64,
            V::Int(i) => mix(4, (128 - i.unsigned_abs().leading_zeros()) as u64 * 2 + (*i < 0) as u64),
            V::F32(b) => mix(5, fclass(f32::from_bits(*b) as f64)),
            V::F64(b) => mix(6, fclass(f64::from_bits(*b))),
            V::Char(c) => mix(7, c.len_utf8() as u64),
            V::Str(s) => mix(8, (s.len() as u64) << 8 | s.chars().count() as u64),
            V::Ip(a) => mix(9, a.is_ipv4() as u64),
            V::Pfx(a, l) => mix(10, (*l as u64) << 1 | a.is_ipv4() as u64),
            V::Asn(n) => mix(11, (32 - n.leading_zeros()) as u64),
            V::Opt(None) => 12,
            V::Opt(Some(v)) => mix(13, v.class()),
            V::List(l) => mix(14, l.iter().fold(l.len() as u64, |h, v| mix(h, v.class()))),
        }
    }
}

fn fclass(x: f64) -> u64 {
    let cat = match x.classify() {
        std::num::FpCategory::Nan => 0,
        std::num::FpCategory::Infinite => 1,
        std::num::FpCategory::Zero => 2,
        std::num::FpCategory::Subnormal => 3,
        std::num::FpCategory::Normal => 4,
    };
    let int = (x.is_finite() && x.fract() == 0.0) as u64;
    cat << 2 | (x.is_sign_negative() as u64) << 1 | int
}

// ---------------------------------------------------------------- masks

/// `ip` with all bits after the first `len` cleared (own arithmetic, not inetnum's)
pub fn mask(ip: IpAddr, len: u8) -> IpAddr {
    match ip {
        IpAddr::V4(a) => {
            let b = u32::from(a);
            let m = if len == 0 { 0 } else { u32::MAX << (32 - len as u32) };
            IpAddr::V4(Ipv4Addr::from(b & m))
        }
        IpAddr::V6(a) => {
            let b = u128::from(a);
            let m = if len == 0 { 0 } else { u128::MAX << (128 - len as u32) };
            IpAddr::V6(Ipv6Addr::from(b & m))
        }
    }
}

/// `ip` with all bits after the first `len` set
pub fn fill(ip: IpAddr, len: u8) -> IpAddr {
    match ip {
        IpAddr::V4(a) => {
            let b = u32::from(a);
            let m = if len == 0 { 0 } else { u32::MAX << (32 - len as u32) };
            IpAddr::V4(Ipv4Addr::from(b | !m))
        }
        IpAddr::V6(a) => {
            let b = u128::from(a);
            let m = if len == 0 { 0 } else { u128::MAX << (128 - len as u32) };
            IpAddr::V6(Ipv6Addr::from(b | !m))
        }
    }
}

pub fn max_len(ip: IpAddr) -> u8 {
    if ip.is_ipv4() { 32 } else { 128 }
}

// ---------------------------------------------------------------- Conv

/// Rust types that cross the roto boundary <-> `V`
pub trait Conv: Value + Sized {
    fn to_v(self) -> V;
    fn from_v(v: &V) -> Self;
}

macro_rules! conv_int {
    ($($t:ty),*) => {$(
        impl Conv for $t {
            fn to_v(self) -> V { V::Int(self as i128) }
            fn from_v(v: &V) -> Self { v.i() as $t }
        }
    )*};
}
conv_int!(u8, u16, u32, u64, i8, i16, i32, i64);

impl Conv for () {
    fn to_v(self) -> V {
        V::Unit
    }
    fn from_v(_: &V) -> Self {}
}
impl Conv for bool {
    fn to_v(self) -> V {
        V::Bool(self)
    }
    fn from_v(v: &V) -> Self {
        v.b()
    }
}
impl Conv for char {
    fn to_v(self) -> V {
        V::Char(self)
    }
    fn from_v(v: &V) -> Self {
        v.c()
    }
}
impl Conv for f32 {
    fn to_v(self) -> V {
        V::of_f32(self)
    }
    fn from_v(v: &V) -> Self {
        v.f32()
    }
}
impl Conv for f64 {
    fn to_v(self) -> V {
        V::of_f64(self)
    }
    fn from_v(v: &V) -> Self {
        v.f64()
    }
}
impl Conv for RotoString {
    fn to_v(self) -> V {
        V::Str(self.to_string())
    }
    fn from_v(v: &V) -> Self {
        RotoString::from(v.s())
    }
}
impl Conv for IpAddr {
    fn to_v(self) -> V {
        V::Ip(self)
    }
    fn from_v(v: &V) -> Self {
        v.ip()
    }
}
impl Conv for Prefix {
    fn to_v(self) -> V {
        let (a, l) = self.addr_and_len();
        V::Pfx(a, l)
    }
    fn from_v(v: &V) -> Self {
        let (a, l) = v.pfx();
        Prefix::new(a, l).expect("harness: prefix domain values are valid")
    }
}
impl Conv for Asn {
    fn to_v(self) -> V {
        V::Asn(self.into_u32())
    }
    fn from_v(v: &V) -> Self {
        match v {
            V::Asn(n) => Asn::from_u32(*n),
            _ => panic!("harness: expected Asn"),
        }
    }
}
impl<T: Conv> Conv for Option<T> {
    fn to_v(self) -> V {
        V::Opt(self.map(|x| Box::new(x.to_v())))
    }
    fn from_v(v: &V) -> Self {
        match v {
            V::Opt(o) => o.as_ref().map(|b| T::from_v(b)),
            _ => panic!("harness: expected Opt"),
        }
    }
}
impl<T: Conv + Clone> Conv for List<T>
where
    T::Transformed: PartialEq,
{
    fn to_v(self) -> V {
        V::List(self.to_vec().into_iter().map(Conv::to_v).collect())
    }
    fn from_v(v: &V) -> Self {
        v.list().iter().map(T::from_v).collect()
    }
}

// ---------------------------------------------------------------- Bind

/// a compiled roto function behind a uniform calling convention
pub type Caller = Box<dyn Fn(&[V]) -> V>;

/// Implemented for `fn(A, ..) -> R`: fetch the function from a package under
/// exactly this Rust signature and wrap it.
pub trait Bind {
    fn bind(pkg: &mut Package<NoCtx>, name: &str) -> Result<Caller, String>;
}

macro_rules! bind_impl {
    ($($a:ident $i:tt),*) => {
        impl<$($a: Conv + 'static,)* R: Conv + 'static> Bind for fn($($a),*) -> R
        where
            fn($($a),*) -> R: RotoFunc<Args = ($($a,)*), Return = R>,
        {
            #[allow(unused_variables)]
            fn bind(pkg: &mut Package<NoCtx>, name: &str) -> Result<Caller, String> {
                let f = pkg
                    .get_function::<fn($($a),*) -> R>(name)
                    .map_err(|e| format!("{e}"))?;
                Ok(Box::new(move |a: &[V]| {
                    f.call_tuple(&mut NoCtx, ($($a::from_v(&a[$i]),)*)).to_v()
                }))
            }
        }
    };
}
bind_impl!();
bind_impl!(A0 0);
bind_impl!(A0 0, A1 1);
bind_impl!(A0 0, A1 1, A2 2);
bind_impl!(A0 0, A1 1, A2 2, A3 3);
bind_impl!(A0 0, A1 1, A2 2, A3 3, A4 4, A5 5, A6 6);
