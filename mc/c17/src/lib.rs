//! Shared part of C17 (built-ins follow their documented meaning) and of
//! C10 part B (built-ins cannot kill the host): the table of built-ins, the
//! dynamic value model, the documentation lint and the enumeration helpers.

pub mod doclint;
pub mod dom;
pub mod ops;
pub mod plan;
pub mod val;
