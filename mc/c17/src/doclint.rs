//! The list of built-ins is read from the runtime at run time
//! (`Runtime::print_documentation`), so that a newly registered built-in — or
//! one whose signature changed — without an entry in the table is a machinery
//! error instead of a silent gap.

use std::collections::BTreeSet;
use std::path::{Path, PathBuf};

use crate::ops::Op;

fn walk(dir: &Path, out: &mut Vec<PathBuf>) -> std::io::Result<()> {
    for e in std::fs::read_dir(dir)? {
        let p = e?.path();
        if p.is_dir() {
            walk(&p, out)?;
        } else if p.extension().is_some_and(|x| x == "md") {
            out.push(p);
        }
    }
    Ok(())
}

/// Every function, method and constant of the harness runtime as
/// `"<kind> <signature>"`, e.g.
/// `"method String.repeat(self: String, n: u64) -> String"`.
pub fn documented_items(tag: &str) -> Result<BTreeSet<String>, String> {
    let dir = PathBuf::from(format!("/verif/work/docs-{tag}-{}", std::process::id()));
    let _ = std::fs::remove_dir_all(&dir);
    std::fs::create_dir_all("/verif/work").map_err(|e| format!("create /verif/work: {e}"))?;
    let rt = host::runtime();
    let r = vcore::util::catch(|| rt.print_documentation(&dir));
    match r {
        Ok(Ok(())) => {}
        Ok(Err(e)) => return Err(format!("print_documentation: {e}")),
        Err(p) => return Err(format!("print_documentation panicked: {p}")),
    }
    let mut files = vec![];
    walk(&dir, &mut files).map_err(|e| format!("reading {}: {e}", dir.display()))?;
    let mut items = BTreeSet::new();
    for f in &files {
        let text = std::fs::read_to_string(f).map_err(|e| format!("{}: {e}", f.display()))?;
        for line in text.lines() {
            let l = line.trim_start_matches('`');
            if l.len() == line.len() {
                continue;
            }
            for kind in ["method", "function", "constant"] {
                if let Some(rest) = l.strip_prefix(&format!("{{roto:{kind}}} ")) {
                    items.insert(format!("{kind} {}", rest.trim_end()));
                }
            }
        }
    }
    let _ = std::fs::remove_dir_all(&dir);
    if items.len() < 50 {
        return Err(format!(
            "only {} items found in the generated documentation under {} ({} files): the documentation format changed?",
            items.len(),
            dir.display(),
            files.len()
        ));
    }
    Ok(items)
}

/// items the harness's own host library registers (not built-ins of roto)
pub fn is_host_item(item: &str) -> bool {
    let Some(rest) = item.strip_prefix("function ") else {
        return item.starts_with("method Tr.payload(") || item.starts_with("method K.to_string(");
    };
    let name = rest.split('(').next().unwrap_or("");
    ["e", "eb", "es", "mk", "val", "mkz", "eatz", "mkk", "kval"].contains(&name)
        || name.starts_with("emit_")
        || name.starts_with("echo_")
        || name.starts_with("wide_")
}

/// Compare the run-time list with the table. `in_scope` selects the
/// documented items this check is responsible for.
pub fn lint(tag: &str, ops: &[Op], in_scope: impl Fn(&str) -> bool) -> Result<usize, String> {
    let documented = documented_items(tag)?;
    let mut covered: BTreeSet<String> = ops.iter().flat_map(|o| o.covers.iter().cloned()).collect();
    // a built-in with an alternative (repaired) signature: exactly one of
    // the two must be registered
    let mut absent_ok = BTreeSet::new();
    let mut errs = vec![];
    for o in ops {
        if let Some(alt) = &o.alt {
            let primary = &o.covers[0];
            match (documented.contains(primary), documented.contains(&alt.cover)) {
                (true, false) => {
                    absent_ok.insert(alt.cover.clone());
                }
                (false, true) => {
                    absent_ok.insert(primary.clone());
                }
                _ => errs.push(format!("exactly one of `{primary}` and `{}` must be registered", alt.cover)),
            }
            covered.insert(alt.cover.clone());
        }
    }
    let mut n = 0;
    for d in &documented {
        if is_host_item(d) || !in_scope(d) {
            continue;
        }
        n += 1;
        if !covered.contains(d) {
            errs.push(format!("built-in `{d}` is registered in the runtime but has no entry in the table (c17/src/ops.rs)"));
        }
    }
    for c in &covered {
        if in_scope(c) && !documented.contains(c) && !absent_ok.contains(c) {
            errs.push(format!("table entry `{c}` does not exist in the runtime under this signature"));
        }
    }
    if errs.is_empty() { Ok(n) } else { Err(errs.join("; ")) }
}
