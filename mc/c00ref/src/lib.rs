//! `rotoref`: the reference model for Roto-core programs.
//!
//! A typed AST, a printer (`print_program`: the only thing the implementation
//! ever sees is the printed source text) and a deliberately boring big-step
//! interpreter (`eval_fn`). The model knows nothing about layouts, stack
//! slots, drops, clones or basic blocks — the things the implementation can
//! get wrong. Where the language leaves behaviour open the interpreter returns
//! `Stop::Unspecified` and the case is skipped by the oracle.

use std::cell::RefCell;
use std::collections::HashMap;
use std::fmt::Write;
use std::rc::Rc;

pub use host::Ev;

pub mod call;
pub mod gen_expr;

// ------------------------------------------------------------------ types

#[derive(Clone, Copy, PartialEq, Eq, Hash, Debug, PartialOrd, Ord)]
pub enum IntTy {
    U8,
    I8,
    U16,
    I16,
    U32,
    I32,
    U64,
    I64,
}

pub const INT_TYS: [IntTy; 8] = [
    IntTy::U8,
    IntTy::I8,
    IntTy::U16,
    IntTy::I16,
    IntTy::U32,
    IntTy::I32,
    IntTy::U64,
    IntTy::I64,
];

impl IntTy {
    pub fn bits(self) -> u32 {
        match self {
            IntTy::U8 | IntTy::I8 => 8,
            IntTy::U16 | IntTy::I16 => 16,
            IntTy::U32 | IntTy::I32 => 32,
            IntTy::U64 | IntTy::I64 => 64,
        }
    }
    pub fn signed(self) -> bool {
        matches!(self, IntTy::I8 | IntTy::I16 | IntTy::I32 | IntTy::I64)
    }
    pub fn name(self) -> &'static str {
        match self {
            IntTy::U8 => "u8",
            IntTy::I8 => "i8",
            IntTy::U16 => "u16",
            IntTy::I16 => "i16",
            IntTy::U32 => "u32",
            IntTy::I32 => "i32",
            IntTy::U64 => "u64",
            IntTy::I64 => "i64",
        }
    }
    pub fn min_val(self) -> i128 {
        if self.signed() { -(1i128 << (self.bits() - 1)) } else { 0 }
    }
    pub fn max_val(self) -> i128 {
        if self.signed() { (1i128 << (self.bits() - 1)) - 1 } else { (1i128 << self.bits()) - 1 }
    }
    /// two's-complement wrap of an arbitrary integer into this type
    pub fn wrap(self, x: i128) -> i128 {
        let m = 1i128 << self.bits();
        let mut r = x.rem_euclid(m);
        if self.signed() && r >= m / 2 {
            r -= m;
        }
        r
    }
    /// boundary values (DESIGN C01 inputs)
    pub fn boundary(self) -> Vec<i128> {
        let w = self.bits();
        let mut v = if self.signed() {
            vec![
                self.min_val(),
                self.min_val() + 1,
                -2,
                -1,
                0,
                1,
                2,
                (1i128 << (w / 2)) - 1,
                (1i128 << (w / 2)) + 1,
                -(1i128 << (w / 2)),
                self.max_val() - 1,
                self.max_val(),
            ]
        } else {
            vec![
                0,
                1,
                2,
                3,
                (1i128 << (w / 2)) - 1,
                (1i128 << (w / 2)) + 1,
                1i128 << (w - 1),
                (1i128 << (w - 1)) - 1,
                self.max_val() - 1,
                self.max_val(),
            ]
        };
        v.sort();
        v.dedup();
        v
    }
}

#[derive(Clone, PartialEq, Eq, Hash, Debug)]
pub enum Ty {
    Int(IntTy),
    F32,
    F64,
    Bool,
    Char,
    Str,
    Unit,
    Opt(Box<Ty>),
    List(Box<Ty>),
    /// named record or enum, possibly with type arguments
    Named(String, Vec<Ty>),
    /// anonymous record
    Anon(Vec<(String, Ty)>),
    /// registered host types of the harness
    Tr,
    Z,
    K,
    Verdict(Box<Ty>, Box<Ty>),
    Result(Box<Ty>, Box<Ty>),
}

impl Ty {
    pub fn print(&self) -> String {
        match self {
            Ty::Int(t) => t.name().into(),
            Ty::F32 => "f32".into(),
            Ty::F64 => "f64".into(),
            Ty::Bool => "bool".into(),
            Ty::Char => "char".into(),
            Ty::Str => "String".into(),
            Ty::Unit => "()".into(),
            Ty::Opt(t) => format!("Option[{}]", t.print()),
            Ty::List(t) => format!("List[{}]", t.print()),
            Ty::Named(n, args) => {
                if args.is_empty() {
                    n.clone()
                } else {
                    format!("{}[{}]", n, args.iter().map(|a| a.print()).collect::<Vec<_>>().join(", "))
                }
            }
            Ty::Anon(fs) => format!(
                "{{ {} }}",
                fs.iter().map(|(n, t)| format!("{n}: {}", t.print())).collect::<Vec<_>>().join(", ")
            ),
            Ty::Tr => "Tr".into(),
            Ty::Z => "Z".into(),
            Ty::K => "K".into(),
            Ty::Verdict(a, r) => format!("Verdict[{}, {}]", a.print(), r.print()),
            Ty::Result(a, r) => format!("Result[{}, {}]", a.print(), r.print()),
        }
    }
    pub fn is_float(&self) -> bool {
        matches!(self, Ty::F32 | Ty::F64)
    }
}

// ------------------------------------------------------------------ values

#[derive(Clone, Debug)]
pub enum V {
    Int(IntTy, i128),
    F32(f32),
    F64(f64),
    Bool(bool),
    Char(char),
    Str(String),
    Unit,
    /// enum value (also Option / Result / Verdict): variant name + payload
    Enum(String, Vec<V>),
    /// record value, fields in declaration order
    Rec(Vec<(String, V)>),
    List(Rc<RefCell<Vec<V>>>),
    Tr(u64),
    Z,
    K(u32),
}

impl V {
    pub fn some(v: V) -> V {
        V::Enum("Some".into(), vec![v])
    }
    pub fn none() -> V {
        V::Enum("None".into(), vec![])
    }
    /// structural equality as `==` in the language; floats IEEE, lists by contents
    pub fn lang_eq(&self, o: &V) -> bool {
        match (self, o) {
            (V::Int(_, a), V::Int(_, b)) => a == b,
            (V::F32(a), V::F32(b)) => a == b,
            (V::F64(a), V::F64(b)) => a == b,
            (V::Bool(a), V::Bool(b)) => a == b,
            (V::Char(a), V::Char(b)) => a == b,
            (V::Str(a), V::Str(b)) => a == b,
            (V::Unit, V::Unit) => true,
            (V::Enum(a, x), V::Enum(b, y)) => {
                a == b && x.len() == y.len() && x.iter().zip(y).all(|(p, q)| p.lang_eq(q))
            }
            // fields are matched by name: two anonymous record literals of the
            // same type may list their fields in different orders
            (V::Rec(x), V::Rec(y)) => {
                x.len() == y.len()
                    && x.iter().all(|(n, v)| y.iter().find(|(m, _)| m == n).is_some_and(|(_, w)| v.lang_eq(w)))
            }
            (V::List(x), V::List(y)) => {
                let (x, y) = (x.borrow(), y.borrow());
                x.len() == y.len() && x.iter().zip(y.iter()).all(|(p, q)| p.lang_eq(q))
            }
            (V::Tr(a), V::Tr(b)) => a == b,
            (V::Z, V::Z) => true,
            (V::K(a), V::K(b)) => a == b,
            _ => false,
        }
    }
    /// observation equality for the oracle: like `lang_eq` but NaN == NaN and
    /// -0.0 != 0.0 (bit-exact floats with canonical NaN)
    pub fn obs_eq(&self, o: &V) -> bool {
        match (self, o) {
            (V::F32(a), V::F32(b)) => host::canon_f32(*a) == host::canon_f32(*b),
            (V::F64(a), V::F64(b)) => host::canon_f64(*a) == host::canon_f64(*b),
            (V::Enum(a, x), V::Enum(b, y)) => {
                a == b && x.len() == y.len() && x.iter().zip(y).all(|(p, q)| p.obs_eq(q))
            }
            (V::Rec(x), V::Rec(y)) => {
                x.len() == y.len()
                    && x.iter().all(|(n, v)| y.iter().find(|(m, _)| m == n).is_some_and(|(_, w)| v.obs_eq(w)))
            }
            (V::List(x), V::List(y)) => {
                let (x, y) = (x.borrow(), y.borrow());
                x.len() == y.len() && x.iter().zip(y.iter()).all(|(p, q)| p.obs_eq(q))
            }
            _ => self.lang_eq(o),
        }
    }
    /// deep copy with value semantics: lists stay shared
    pub fn copy(&self) -> V {
        self.clone()
    }
    pub fn show(&self) -> String {
        match self {
            V::Int(t, x) => format!("{x}{}", t.name()),
            V::F32(x) => format!("{x:?}f32[{:#x}]", host::canon_f32(*x)),
            V::F64(x) => format!("{x:?}f64[{:#x}]", host::canon_f64(*x)),
            V::Bool(b) => format!("{b}"),
            V::Char(c) => format!("{c:?}"),
            V::Str(s) => format!("{s:?}"),
            V::Unit => "()".into(),
            V::Enum(n, p) => {
                if p.is_empty() {
                    n.clone()
                } else {
                    format!("{n}({})", p.iter().map(|v| v.show()).collect::<Vec<_>>().join(", "))
                }
            }
            V::Rec(fs) => format!(
                "{{{}}}",
                fs.iter().map(|(n, v)| format!("{n}: {}", v.show())).collect::<Vec<_>>().join(", ")
            ),
            V::List(l) => format!("[{}]", l.borrow().iter().map(|v| v.show()).collect::<Vec<_>>().join(", ")),
            V::Tr(k) => format!("Tr({k})"),
            V::Z => "Z".into(),
            V::K(k) => format!("K({k})"),
        }
    }
    /// what `to_string` / f-string interpolation gives (Rust Display)
    pub fn display(&self) -> Option<String> {
        Some(match self {
            V::Int(_, x) => format!("{x}"),
            V::F32(x) => format!("{x}"),
            V::F64(x) => format!("{x}"),
            V::Bool(b) => format!("{b}"),
            V::Char(c) => format!("{c}"),
            V::Str(s) => s.clone(),
            _ => return None,
        })
    }
}

// ------------------------------------------------------------------ AST

#[derive(Clone, Copy, PartialEq, Eq, Hash, Debug)]
pub enum BinOp {
    Add,
    Sub,
    Mul,
    Div,
    Mod,
    Eq,
    Ne,
    Lt,
    Le,
    Gt,
    Ge,
    And,
    Or,
}

pub const ARITH: [BinOp; 5] = [BinOp::Add, BinOp::Sub, BinOp::Mul, BinOp::Div, BinOp::Mod];
pub const CMP: [BinOp; 6] = [BinOp::Eq, BinOp::Ne, BinOp::Lt, BinOp::Le, BinOp::Gt, BinOp::Ge];

impl BinOp {
    pub fn sym(self) -> &'static str {
        match self {
            BinOp::Add => "+",
            BinOp::Sub => "-",
            BinOp::Mul => "*",
            BinOp::Div => "/",
            BinOp::Mod => "%",
            BinOp::Eq => "==",
            BinOp::Ne => "!=",
            BinOp::Lt => "<",
            BinOp::Le => "<=",
            BinOp::Gt => ">",
            BinOp::Ge => ">=",
            BinOp::And => "&&",
            BinOp::Or => "||",
        }
    }
    pub fn is_cmp(self) -> bool {
        CMP.contains(&self)
    }
}

#[derive(Clone, Debug)]
pub enum E {
    /// integer literal: value (non-negative), optional suffix, resolved type
    Int(i128, Option<IntTy>, IntTy),
    /// float literal: spelling (without suffix), suffix?, resolved type
    Float(String, Option<Ty>, Ty),
    Bool(bool),
    Char(char),
    Str(String),
    Unit,
    Var(String),
    Neg(Box<E>),
    Not(Box<E>),
    Bin(BinOp, Box<E>, Box<E>),
    If(Box<E>, Block, Option<Block>),
    Block(Block),
    /// call of a script function
    Call(String, Vec<E>),
    /// call of a host function (e, eb, emit_*, mk, val, ...)
    Host(String, Vec<E>),
    /// method call on a receiver (built-in list / string methods)
    Method(Box<E>, String, Vec<E>),
    Return(Option<Box<E>>),
    /// enum constructor `Path.Variant(args)`; path printed as given ("Option.Some", "Some", "E.A")
    Ctor(String, String, Vec<E>),
    /// record literal: optional type name, fields in WRITTEN order
    Rec(Option<String>, Vec<(String, E)>),
    Field(Box<E>, String),
    ListLit(Vec<E>),
    Match(Box<E>, Vec<Arm>),
    Try(Box<E>),
    FStr(Vec<FPart>),
    /// assignment to a local or nested field path `a.b.c = e`
    Assign(Vec<String>, Box<E>),
    Compound(Vec<String>, BinOp, Box<E>),
    While(Box<E>, Block),
    For(String, Box<E>, Block),
    /// parenthesised (printer always parenthesises nested operators itself)
    Accept(Option<Box<E>>),
    Reject(Option<Box<E>>),
}

#[derive(Clone, Debug)]
pub enum FPart {
    Text(String),
    Expr(E),
}

#[derive(Clone, Debug)]
pub struct Arm {
    /// None = `_`
    pub variant: Option<String>,
    pub binds: Vec<String>,
    pub guard: Option<E>,
    pub body: Block,
}

#[derive(Clone, Debug, Default)]
pub struct Block {
    pub stmts: Vec<S>,
    pub tail: Option<Box<E>>,
}

#[derive(Clone, Debug)]
pub enum S {
    Let(String, Option<Ty>, E),
    Expr(E),
}

#[derive(Clone, Debug)]
pub struct Func {
    pub name: String,
    pub params: Vec<(String, Ty)>,
    pub ret: Ty,
    pub body: Block,
    pub filtermap: bool,
}

#[derive(Clone, Debug)]
pub struct RecDecl {
    pub name: String,
    pub tparams: Vec<String>,
    /// field types printed as given (may mention type parameters)
    pub fields: Vec<(String, String)>,
}

#[derive(Clone, Debug)]
pub struct EnumDecl {
    pub name: String,
    pub tparams: Vec<String>,
    pub variants: Vec<(String, Vec<String>)>,
}

#[derive(Clone, Debug, Default)]
pub struct Program {
    pub records: Vec<RecDecl>,
    pub enums: Vec<EnumDecl>,
    pub funcs: Vec<Func>,
}

// ------------------------------------------------------------------ printer

fn needs_paren(e: &E) -> bool {
    matches!(
        e,
        E::Bin(..)
            | E::Neg(..)
            | E::Not(..)
            | E::If(..)
            | E::Match(..)
            | E::Return(..)
            | E::Assign(..)
            | E::Compound(..)
            | E::While(..)
            | E::For(..)
            | E::Accept(..)
            | E::Reject(..)
            | E::Rec(None, _)
    )
}

fn esc_str(s: &str) -> String {
    let mut o = String::new();
    for c in s.chars() {
        match c {
            '\n' => o.push_str("\\n"),
            '\t' => o.push_str("\\t"),
            '\r' => o.push_str("\\r"),
            '\0' => o.push_str("\\0"),
            '"' => o.push_str("\\\""),
            '\\' => o.push_str("\\\\"),
            c => o.push(c),
        }
    }
    o
}

pub fn print_expr(e: &E) -> String {
    let p = |e: &E| {
        if needs_paren(e) { format!("({})", print_expr(e)) } else { print_expr(e) }
    };
    match e {
        E::Int(v, suf, _) => match suf {
            Some(t) => format!("{v}{}", t.name()),
            None => format!("{v}"),
        },
        E::Float(s, suf, _) => match suf {
            Some(t) => format!("{s}{}", t.print()),
            None => s.clone(),
        },
        E::Bool(b) => format!("{b}"),
        E::Char(c) => match c {
            '\'' => "'\\''".into(),
            '\\' => "'\\\\'".into(),
            '\n' => "'\\n'".into(),
            '\0' => "'\\0'".into(),
            c => format!("'{c}'"),
        },
        E::Str(s) => format!("\"{}\"", esc_str(s)),
        E::Unit => "()".into(),
        E::Var(n) => n.clone(),
        // Operators are printed with the MINIMAL parentheses the documented
        // grammar requires (precedence: unary > * / % > + - > comparisons >
        // && > ||, binary operators left associative, comparison chains and
        // && / || mixtures need parentheses), so that the parser's grouping is
        // part of what the program families exercise.
        E::Neg(x) => format!("-{}", unary_operand(x)),
        E::Not(x) => format!("!{}", unary_operand(x)),
        E::Bin(op, l, r) => format!("{} {} {}", bin_operand(*op, l, false), op.sym(), bin_operand(*op, r, true)),
        E::If(c, t, None) => format!("if {} {}", print_cond(c), print_block(t)),
        E::If(c, t, Some(f)) => {
            // `else if` chains: an else block that is exactly one if-expression
            if f.stmts.is_empty() {
                if let Some(tail) = &f.tail {
                    if let E::If(..) = **tail {
                        return format!("if {} {} else {}", print_cond(c), print_block(t), print_expr(tail));
                    }
                }
            }
            format!("if {} {} else {}", print_cond(c), print_block(t), print_block(f))
        }
        E::Block(b) => print_block(b),
        E::Call(f, args) | E::Host(f, args) => {
            format!("{f}({})", args.iter().map(print_expr).collect::<Vec<_>>().join(", "))
        }
        E::Method(r, m, args) => {
            format!("{}.{m}({})", p(r), args.iter().map(print_expr).collect::<Vec<_>>().join(", "))
        }
        E::Return(None) => "return".into(),
        // the operand of return/accept/reject cannot start with `if`, `match`
        // or a block in the grammar: parenthesise those
        E::Return(Some(x)) => format!("return {}", print_operand(x)),
        E::Accept(None) => "accept".into(),
        E::Accept(Some(x)) => format!("accept {}", print_operand(x)),
        E::Reject(None) => "reject".into(),
        E::Reject(Some(x)) => format!("reject {}", print_operand(x)),
        E::Ctor(path, v, args) => {
            let head = if path.is_empty() { v.clone() } else { format!("{path}.{v}") };
            if args.is_empty() {
                head
            } else {
                format!("{head}({})", args.iter().map(print_expr).collect::<Vec<_>>().join(", "))
            }
        }
        E::Rec(name, fs) => {
            let body = fs.iter().map(|(n, e)| format!("{n}: {}", print_expr(e))).collect::<Vec<_>>().join(", ");
            match name {
                Some(n) => format!("{n} {{ {body} }}"),
                None => format!("{{ {body} }}"),
            }
        }
        E::Field(x, f) => format!("{}.{f}", p(x)),
        E::ListLit(xs) => format!("[{}]", xs.iter().map(print_expr).collect::<Vec<_>>().join(", ")),
        E::Match(x, arms) => {
            let mut s = format!("match {} {{\n", print_cond(x));
            for a in arms {
                let pat = match &a.variant {
                    None => "_".to_string(),
                    Some(v) => {
                        if a.binds.is_empty() {
                            v.clone()
                        } else {
                            format!("{v}({})", a.binds.join(", "))
                        }
                    }
                };
                let guard = match &a.guard {
                    Some(g) => format!(" if {}", print_cond(g)),
                    None => String::new(),
                };
                let _ = writeln!(s, "    {pat}{guard} => {},", print_block(&a.body));
            }
            s.push('}');
            s
        }
        E::Try(x) => format!("{}?", p(x)),
        E::FStr(parts) => {
            let mut s = String::from("f\"");
            for part in parts {
                match part {
                    FPart::Text(t) => s.push_str(&esc_str(t).replace('{', "{{").replace('}', "}}")),
                    FPart::Expr(e) => {
                        // `{{` would be the escape for a literal brace
                        let t = print_expr(e);
                        if t.starts_with('{') {
                            let _ = write!(s, "{{({t})}}");
                        } else {
                            let _ = write!(s, "{{{t}}}");
                        }
                    }
                }
            }
            s.push('"');
            s
        }
        E::Assign(path, x) => format!("{} = {}", path.join("."), print_expr(x)),
        E::Compound(path, op, x) => format!("{} {}= {}", path.join("."), op.sym(), print_expr(x)),
        E::While(c, b) => format!("while {} {}", print_cond(c), print_block(b)),
        E::For(v, l, b) => format!("for {v} in {} {}", print_cond(l), print_block(b)),
    }
}

fn prec(op: BinOp) -> u8 {
    match op {
        BinOp::Or => 1,
        BinOp::And => 2,
        BinOp::Eq | BinOp::Ne | BinOp::Lt | BinOp::Le | BinOp::Gt | BinOp::Ge => 3,
        BinOp::Add | BinOp::Sub => 4,
        BinOp::Mul | BinOp::Div | BinOp::Mod => 5,
    }
}

fn unary_operand(x: &E) -> String {
    match x {
        // `--a` / `-!a` would lex differently or read badly; a binary operand binds looser
        E::Bin(..) | E::Neg(..) | E::Not(..) => format!("({})", print_expr(x)),
        _ if needs_paren(x) => format!("({})", print_expr(x)),
        _ => print_expr(x),
    }
}

fn bin_operand(op: BinOp, x: &E, right: bool) -> String {
    let paren = match x {
        E::Bin(cop, ..) => {
            let (pc, po) = (prec(*cop), prec(op));
            if pc < po {
                true
            } else if pc > po {
                // a logical operator never directly contains the other logical
                // operator without parentheses (mixtures are rejected)
                matches!((op, cop), (BinOp::Or, BinOp::And) | (BinOp::And, BinOp::Or))
            } else {
                // same level: left associative; comparisons do not chain
                right || po == 3 || (po <= 2 && *cop != op)
            }
        }
        // unary operators bind tighter than every binary operator
        E::Neg(..) | E::Not(..) => false,
        _ => needs_paren(x),
    };
    if paren { format!("({})", print_expr(x)) } else { print_expr(x) }
}

fn print_operand(e: &E) -> String {
    match e {
        E::If(..) | E::Match(..) | E::Block(..) | E::While(..) | E::For(..) | E::Rec(None, _) => {
            format!("({})", print_expr(e))
        }
        _ => print_expr(e),
    }
}

/// conditions / scrutinees: a record literal or block there would be ambiguous
fn print_cond(e: &E) -> String {
    match e {
        E::Rec(..) | E::Block(..) => format!("({})", print_expr(e)),
        _ => print_expr(e),
    }
}

pub fn print_block(b: &Block) -> String {
    let mut s = String::from("{ ");
    for st in &b.stmts {
        match st {
            S::Let(n, Some(t), e) => {
                let _ = write!(s, "let {n}: {} = {}; ", t.print(), print_expr(e));
            }
            S::Let(n, None, e) => {
                let _ = write!(s, "let {n} = {}; ", print_expr(e));
            }
            S::Expr(e) => {
                let _ = write!(s, "{}; ", print_expr(e));
            }
        }
    }
    if let Some(t) = &b.tail {
        let _ = write!(s, "{} ", print_expr(t));
    }
    s.push('}');
    s
}

pub fn print_func(f: &Func) -> String {
    let params = f.params.iter().map(|(n, t)| format!("{n}: {}", t.print())).collect::<Vec<_>>().join(", ");
    if f.filtermap {
        format!("filtermap {}({params}) {}\n", f.name, print_block(&f.body))
    } else if f.ret == Ty::Unit {
        format!("fn {}({params}) {}\n", f.name, print_block(&f.body))
    } else {
        format!("fn {}({params}) -> {} {}\n", f.name, f.ret.print(), print_block(&f.body))
    }
}

pub fn print_program(p: &Program) -> String {
    let mut s = String::new();
    for r in &p.records {
        let tp = if r.tparams.is_empty() { String::new() } else { format!("[{}]", r.tparams.join(", ")) };
        let _ = writeln!(
            s,
            "record {}{tp} {{ {} }}",
            r.name,
            r.fields.iter().map(|(n, t)| format!("{n}: {t}")).collect::<Vec<_>>().join(", ")
        );
    }
    for e in &p.enums {
        let tp = if e.tparams.is_empty() { String::new() } else { format!("[{}]", e.tparams.join(", ")) };
        let _ = writeln!(
            s,
            "enum {}{tp} {{ {} }}",
            e.name,
            e.variants
                .iter()
                .map(|(n, fs)| if fs.is_empty() { n.clone() } else { format!("{n}({})", fs.join(", ")) })
                .collect::<Vec<_>>()
                .join(", ")
        );
    }
    for f in &p.funcs {
        s.push_str(&print_func(f));
    }
    s
}

// ------------------------------------------------------------------ interpreter

#[derive(Debug, Clone)]
pub enum Stop {
    Return(V),
    /// the language leaves the behaviour open (division by zero, MIN / -1, ...)
    Unspecified(&'static str),
    /// the model cannot evaluate this (generator bug): machinery error
    Stuck(String),
    /// fuel exhausted (non-terminating loop / recursion): skip
    Fuel,
}

type R = Result<V, Stop>;

pub struct Interp<'p> {
    pub prog: &'p Program,
    pub log: Vec<Ev>,
    scopes: Vec<HashMap<String, V>>,
    pub fuel: u64,
    depth: u32,
}

pub struct Outcome {
    pub value: V,
    pub log: Vec<Ev>,
}

/// Evaluate function `name` of the program on `args`.
pub fn eval_fn(prog: &Program, name: &str, args: &[V]) -> Result<Outcome, Stop> {
    let mut it = Interp { prog, log: vec![], scopes: vec![], fuel: 200_000, depth: 0 };
    let v = it.call(name, args.to_vec())?;
    Ok(Outcome { value: v, log: it.log })
}

fn stuck<T>(s: impl Into<String>) -> Result<T, Stop> {
    Err(Stop::Stuck(s.into()))
}

impl<'p> Interp<'p> {
    fn lookup(&self, n: &str) -> R {
        for s in self.scopes.iter().rev() {
            if let Some(v) = s.get(n) {
                return Ok(v.clone());
            }
        }
        stuck(format!("unbound variable {n}"))
    }
    fn slot(&mut self, n: &str) -> Result<&mut V, Stop> {
        for s in self.scopes.iter_mut().rev() {
            if let Some(v) = s.get_mut(n) {
                return Ok(v);
            }
        }
        stuck(format!("unbound variable {n}"))
    }
    fn place(&mut self, path: &[String]) -> Result<&mut V, Stop> {
        let mut cur = self.slot(&path[0])?;
        for f in &path[1..] {
            match cur {
                V::Rec(fs) => match fs.iter_mut().find(|(n, _)| n == f) {
                    Some((_, v)) => cur = v,
                    None => return stuck(format!("no field {f}")),
                },
                _ => return stuck("field of non-record"),
            }
        }
        Ok(cur)
    }

    pub fn call(&mut self, name: &str, args: Vec<V>) -> R {
        let Some(f) = self.prog.funcs.iter().find(|f| f.name == name) else {
            return stuck(format!("no function {name}"));
        };
        if self.depth > 200 {
            return Err(Stop::Fuel);
        }
        self.depth += 1;
        let saved = std::mem::take(&mut self.scopes);
        let mut sc = HashMap::new();
        for ((n, _), v) in f.params.iter().zip(args) {
            sc.insert(n.clone(), v);
        }
        self.scopes.push(sc);
        let r = self.block(&f.body);
        self.scopes = saved;
        self.depth -= 1;
        match r {
            Ok(v) => Ok(v),
            Err(Stop::Return(v)) => Ok(v),
            Err(e) => Err(e),
        }
    }

    fn block(&mut self, b: &Block) -> R {
        self.scopes.push(HashMap::new());
        let r = self.block_inner(b);
        self.scopes.pop();
        r
    }
    fn block_inner(&mut self, b: &Block) -> R {
        for s in &b.stmts {
            match s {
                S::Let(n, _, e) => {
                    let v = self.eval(e)?;
                    self.scopes.last_mut().unwrap().insert(n.clone(), v);
                }
                S::Expr(e) => {
                    self.eval(e)?;
                }
            }
        }
        match &b.tail {
            Some(e) => self.eval(e),
            None => Ok(V::Unit),
        }
    }

    fn truth(&mut self, e: &E) -> Result<bool, Stop> {
        match self.eval(e)? {
            V::Bool(b) => Ok(b),
            o => stuck(format!("condition is {}", o.show())),
        }
    }

    pub fn eval(&mut self, e: &E) -> R {
        if self.fuel == 0 {
            return Err(Stop::Fuel);
        }
        self.fuel -= 1;
        match e {
            E::Int(v, _, t) => Ok(V::Int(*t, *v)),
            E::Float(s, _, t) => {
                let clean: String = s.chars().filter(|c| *c != '_').collect();
                match t {
                    Ty::F32 => {
                        // the implementation parses to f64 and narrows; double
                        // rounding is left unspecified by the docs: only
                        // literals exactly representable are generated
                        let x: f64 = clean.parse().map_err(|_| Stop::Stuck(format!("float {s}")))?;
                        Ok(V::F32(x as f32))
                    }
                    _ => Ok(V::F64(clean.parse().map_err(|_| Stop::Stuck(format!("float {s}")))?)),
                }
            }
            E::Bool(b) => Ok(V::Bool(*b)),
            E::Char(c) => Ok(V::Char(*c)),
            E::Str(s) => Ok(V::Str(s.clone())),
            E::Unit => Ok(V::Unit),
            E::Var(n) => self.lookup(n),
            E::Neg(x) => match self.eval(x)? {
                V::Int(t, v) => Ok(V::Int(t, t.wrap(-v))),
                V::F32(v) => Ok(V::F32(-v)),
                V::F64(v) => Ok(V::F64(-v)),
                o => stuck(format!("neg of {}", o.show())),
            },
            E::Not(x) => match self.eval(x)? {
                V::Bool(b) => Ok(V::Bool(!b)),
                o => stuck(format!("not of {}", o.show())),
            },
            E::Bin(BinOp::And, l, r) => {
                if !self.truth(l)? {
                    return Ok(V::Bool(false));
                }
                Ok(V::Bool(self.truth(r)?))
            }
            E::Bin(BinOp::Or, l, r) => {
                if self.truth(l)? {
                    return Ok(V::Bool(true));
                }
                Ok(V::Bool(self.truth(r)?))
            }
            E::Bin(op, l, r) => {
                let a = self.eval(l)?;
                let b = self.eval(r)?;
                binop(*op, a, b)
            }
            E::If(c, t, f) => {
                if self.truth(c)? {
                    self.block(t)
                } else if let Some(f) = f {
                    self.block(f)
                } else {
                    Ok(V::Unit)
                }
            }
            E::Block(b) => self.block(b),
            E::Call(f, args) => {
                let mut vs = vec![];
                for a in args {
                    vs.push(self.eval(a)?);
                }
                self.call(f, vs)
            }
            E::Host(f, args) => {
                let mut vs = vec![];
                for a in args {
                    vs.push(self.eval(a)?);
                }
                self.host(f, vs)
            }
            E::Method(r, m, args) => {
                let recv = self.eval(r)?;
                let mut vs = vec![];
                for a in args {
                    vs.push(self.eval(a)?);
                }
                self.method(recv, m, vs)
            }
            E::Return(None) | E::Accept(None) | E::Reject(None) => {
                let v = match e {
                    E::Return(_) => V::Unit,
                    E::Accept(_) => V::Enum("Accept".into(), vec![V::Unit]),
                    _ => V::Enum("Reject".into(), vec![V::Unit]),
                };
                Err(Stop::Return(v))
            }
            E::Return(Some(x)) => {
                let v = self.eval(x)?;
                Err(Stop::Return(v))
            }
            E::Accept(Some(x)) => {
                let v = self.eval(x)?;
                Err(Stop::Return(V::Enum("Accept".into(), vec![v])))
            }
            E::Reject(Some(x)) => {
                let v = self.eval(x)?;
                Err(Stop::Return(V::Enum("Reject".into(), vec![v])))
            }
            E::Ctor(_, v, args) => {
                let mut vs = vec![];
                for a in args {
                    vs.push(self.eval(a)?);
                }
                Ok(V::Enum(v.clone(), vs))
            }
            E::Rec(name, fs) => {
                // fields are evaluated in written order, stored in declared order
                let mut vals = vec![];
                for (n, x) in fs {
                    vals.push((n.clone(), self.eval(x)?));
                }
                if let Some(name) = name {
                    if let Some(d) = self.prog.records.iter().find(|r| &r.name == name) {
                        let mut ordered = vec![];
                        for (fname, _) in &d.fields {
                            match vals.iter().position(|(n, _)| n == fname) {
                                Some(i) => ordered.push(vals.remove(i)),
                                None => return stuck(format!("missing field {fname}")),
                            }
                        }
                        return Ok(V::Rec(ordered));
                    }
                }
                Ok(V::Rec(vals))
            }
            E::Field(x, f) => match self.eval(x)? {
                V::Rec(fs) => match fs.into_iter().find(|(n, _)| n == f) {
                    Some((_, v)) => Ok(v),
                    None => stuck(format!("no field {f}")),
                },
                o => stuck(format!("field of {}", o.show())),
            },
            E::ListLit(xs) => {
                let mut vs = vec![];
                for x in xs {
                    vs.push(self.eval(x)?);
                }
                Ok(V::List(Rc::new(RefCell::new(vs))))
            }
            E::Match(x, arms) => {
                let v = self.eval(x)?;
                let V::Enum(vn, payload) = v else { return stuck("match on non-enum") };
                for a in arms {
                    let matches = match &a.variant {
                        None => true,
                        Some(n) => *n == vn,
                    };
                    if !matches {
                        continue;
                    }
                    self.scopes.push(HashMap::new());
                    if a.variant.is_some() {
                        for (b, p) in a.binds.iter().zip(payload.iter()) {
                            self.scopes.last_mut().unwrap().insert(b.clone(), p.clone());
                        }
                    }
                    let ok = match &a.guard {
                        Some(g) => self.truth(g),
                        None => Ok(true),
                    };
                    let r = match ok {
                        Ok(true) => Some(self.block(&a.body)),
                        Ok(false) => None,
                        Err(e) => Some(Err(e)),
                    };
                    self.scopes.pop();
                    if let Some(r) = r {
                        return r;
                    }
                }
                stuck("no match arm taken")
            }
            E::Try(x) => match self.eval(x)? {
                V::Enum(n, mut p) if n == "Some" => Ok(p.remove(0)),
                V::Enum(n, _) if n == "None" => Err(Stop::Return(V::none())),
                o => stuck(format!("? on {}", o.show())),
            },
            E::FStr(parts) => {
                let mut s = String::new();
                for p in parts {
                    match p {
                        FPart::Text(t) => s.push_str(t),
                        FPart::Expr(x) => {
                            let v = self.eval(x)?;
                            // the harness registers `to_string` for its copy type K: a host
                            // call (logged) that runs when the part is converted, i.e. before
                            // the next part is evaluated
                            if let V::K(k) = v {
                                self.log.push(Ev::K(k));
                                s.push_str(&format!("K{k}"));
                                continue;
                            }
                            match v.display() {
                                Some(d) => s.push_str(&d),
                                None => return stuck("display of aggregate"),
                            }
                        }
                    }
                }
                Ok(V::Str(s))
            }
            E::Assign(path, x) => {
                let v = self.eval(x)?;
                *self.place(path)? = v;
                Ok(V::Unit)
            }
            E::Compound(path, op, x) => {
                // the target is read before the right-hand side is evaluated
                let old = self.place(path)?.clone();
                let rhs = self.eval(x)?;
                let new = binop(*op, old, rhs)?;
                *self.place(path)? = new;
                Ok(V::Unit)
            }
            E::While(c, b) => {
                while self.truth(c)? {
                    self.block(b)?;
                }
                Ok(V::Unit)
            }
            E::For(var, l, b) => {
                let V::List(list) = self.eval(l)? else { return stuck("for over non-list") };
                // iterates by index over the live list
                let mut i = 0;
                loop {
                    let item = {
                        let l = list.borrow();
                        if i >= l.len() {
                            break;
                        }
                        l[i].clone()
                    };
                    self.scopes.push(HashMap::from([(var.clone(), item)]));
                    let r = self.block(b);
                    self.scopes.pop();
                    r?;
                    i += 1;
                    if self.fuel == 0 {
                        return Err(Stop::Fuel);
                    }
                    self.fuel -= 1;
                }
                Ok(V::Unit)
            }
        }
    }

    fn host(&mut self, f: &str, mut a: Vec<V>) -> R {
        match (f, a.as_slice()) {
            ("e", [V::Int(_, k)]) => {
                self.log.push(Ev::Mark(*k as i32));
                Ok(a.remove(0))
            }
            ("es", [V::Int(_, k)]) => {
                self.log.push(Ev::Mark(*k as i32));
                Ok(V::Str(format!("{k}")))
            }
            ("eb", [V::Int(_, k), V::Bool(b)]) => {
                self.log.push(Ev::MarkB(*k as i32, *b));
                Ok(V::Bool(*b))
            }
            ("mk", [V::Int(_, k)]) => Ok(V::Tr(*k as u64)),
            ("val", [V::Tr(k)]) => Ok(V::Int(IntTy::U64, *k as i128)),
            ("mkk", [V::Int(_, k)]) => Ok(V::K(*k as u32)),
            ("kval", [V::K(k)]) => Ok(V::Int(IntTy::U32, *k as i128)),
            ("mkz", []) => Ok(V::Z),
            ("eatz", [V::Z]) => Ok(V::Unit),
            ("emit_tr", [V::Tr(k)]) => {
                self.log.push(Ev::Tr(*k));
                Ok(V::Unit)
            }
            ("emit_k", [V::K(k)]) => {
                self.log.push(Ev::K(*k));
                Ok(V::Unit)
            }
            ("emit_unit", [V::Unit]) => {
                self.log.push(Ev::Unit);
                Ok(V::Unit)
            }
            ("emit_bool", [V::Bool(b)]) => {
                self.log.push(Ev::Bool(*b));
                Ok(V::Unit)
            }
            ("emit_char", [V::Char(c)]) => {
                self.log.push(Ev::Char(*c as u32));
                Ok(V::Unit)
            }
            ("emit_str", [V::Str(s)]) => {
                self.log.push(Ev::Str(s.clone()));
                Ok(V::Unit)
            }
            ("emit_f32", [V::F32(x)]) => {
                self.log.push(Ev::F32(host::canon_f32(*x)));
                Ok(V::Unit)
            }
            ("emit_f64", [V::F64(x)]) => {
                self.log.push(Ev::F64(host::canon_f64(*x)));
                Ok(V::Unit)
            }
            (n, [V::Int(t, x)]) if n.starts_with("emit_") && &n[5..] == t.name() => {
                self.log.push(Ev::Int(t.name(), *x));
                Ok(V::Unit)
            }
            (n, [V::Int(t, _)]) if n.starts_with("echo_") && &n[5..] == t.name() => Ok(a.remove(0)),
            _ => stuck(format!("unknown host call {f}({})", a.iter().map(|v| v.show()).collect::<Vec<_>>().join(","))),
        }
    }

    fn method(&mut self, recv: V, m: &str, mut a: Vec<V>) -> R {
        match (recv, m, a.as_slice()) {
            (V::List(l), "push", [_]) => {
                l.borrow_mut().push(a.remove(0));
                Ok(V::Unit)
            }
            (V::List(l), "len", []) => Ok(V::Int(IntTy::U64, l.borrow().len() as i128)),
            (V::List(l), "is_empty", []) => Ok(V::Bool(l.borrow().is_empty())),
            (V::List(l), "get", [V::Int(_, i)]) => {
                let l = l.borrow();
                Ok(match l.get(*i as usize) {
                    Some(v) if *i >= 0 => V::some(v.clone()),
                    _ => V::none(),
                })
            }
            (V::List(l), "swap", [V::Int(_, i), V::Int(_, j)]) => {
                let mut l = l.borrow_mut();
                let (i, j) = (*i as usize, *j as usize);
                if i < l.len() && j < l.len() {
                    l.swap(i, j);
                }
                Ok(V::Unit)
            }
            (V::List(l), "contains", [x]) => Ok(V::Bool(l.borrow().iter().any(|v| v.lang_eq(x)))),
            (V::List(l), "concat", [V::List(o)]) => {
                let mut v = l.borrow().clone();
                v.extend(o.borrow().iter().cloned());
                Ok(V::List(Rc::new(RefCell::new(v))))
            }
            (V::Tr(k), "payload", []) => Ok(V::Int(IntTy::U64, k as i128)),
            (V::Str(a), "contains", [V::Str(b)]) => Ok(V::Bool(a.contains(b.as_str()))),
            (V::Str(a), "starts_with", [V::Str(b)]) => Ok(V::Bool(a.starts_with(b.as_str()))),
            (V::Str(a), "append", [V::Str(b)]) => Ok(V::Str(a + b)),
            (v, "to_string", []) => match v.display() {
                Some(s) => Ok(V::Str(s)),
                None => stuck("to_string of aggregate"),
            },
            (r, m, _) => stuck(format!("unknown method {}.{m}", r.show())),
        }
    }
}

pub fn binop(op: BinOp, a: V, b: V) -> R {
    use BinOp::*;
    match (a, b) {
        (V::Int(t, x), V::Int(t2, y)) => {
            if t != t2 {
                return stuck("int type mismatch");
            }
            Ok(match op {
                Add => V::Int(t, t.wrap(x + y)),
                Sub => V::Int(t, t.wrap(x - y)),
                Mul => V::Int(t, t.wrap(x.wrapping_mul(y))),
                Div | Mod => {
                    if y == 0 {
                        return Err(Stop::Unspecified("division by zero"));
                    }
                    if t.signed() && x == t.min_val() && y == -1 {
                        return Err(Stop::Unspecified("MIN / -1"));
                    }
                    // truncation toward zero (Rust semantics on i128)
                    if op == Div { V::Int(t, t.wrap(x / y)) } else { V::Int(t, t.wrap(x % y)) }
                }
                Eq => V::Bool(x == y),
                Ne => V::Bool(x != y),
                Lt => V::Bool(x < y),
                Le => V::Bool(x <= y),
                Gt => V::Bool(x > y),
                Ge => V::Bool(x >= y),
                And | Or => return stuck("logic on ints"),
            })
        }
        (V::F32(x), V::F32(y)) => Ok(match op {
            Add => V::F32(x + y),
            Sub => V::F32(x - y),
            Mul => V::F32(x * y),
            Div => V::F32(x / y),
            Eq => V::Bool(x == y),
            Ne => V::Bool(x != y),
            Lt => V::Bool(x < y),
            Le => V::Bool(x <= y),
            Gt => V::Bool(x > y),
            Ge => V::Bool(x >= y),
            _ => return stuck("float op"),
        }),
        (V::F64(x), V::F64(y)) => Ok(match op {
            Add => V::F64(x + y),
            Sub => V::F64(x - y),
            Mul => V::F64(x * y),
            Div => V::F64(x / y),
            Eq => V::Bool(x == y),
            Ne => V::Bool(x != y),
            Lt => V::Bool(x < y),
            Le => V::Bool(x <= y),
            Gt => V::Bool(x > y),
            Ge => V::Bool(x >= y),
            _ => return stuck("float op"),
        }),
        (V::Str(x), V::Str(y)) => Ok(match op {
            Add => V::Str(x + &y),
            Eq => V::Bool(x == y),
            Ne => V::Bool(x != y),
            _ => return stuck("string op"),
        }),
        (V::List(x), V::List(y)) if op == Add => {
            let mut v = x.borrow().clone();
            v.extend(y.borrow().iter().cloned());
            Ok(V::List(Rc::new(RefCell::new(v))))
        }
        (a, b) => match op {
            Eq => Ok(V::Bool(a.lang_eq(&b))),
            Ne => Ok(V::Bool(!a.lang_eq(&b))),
            Lt | Le | Gt | Ge => match (a, b) {
                // ordering on bool / char is not promised by the property
                (x, y) => stuck(format!("ordering on {} {}", x.show(), y.show())),
            },
            _ => stuck("bad operands"),
        },
    }
}
