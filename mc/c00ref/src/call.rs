//! Calling compiled functions with dynamically typed values.

use roto::{NoCtx, Package, TypedFunc};

use crate::{IntTy, Ty, V};

pub type Dyn2 = Box<dyn Fn(&V, &V) -> V>;

pub trait Scalar: Sized {
    fn from_v(v: &V) -> Self;
    fn to_v(self) -> V;
}

macro_rules! int_scalar {
    ($t:ty, $it:expr) => {
        impl Scalar for $t {
            fn from_v(v: &V) -> Self {
                match v {
                    V::Int(_, x) => *x as $t,
                    o => panic!("expected int, got {}", o.show()),
                }
            }
            fn to_v(self) -> V {
                V::Int($it, self as i128)
            }
        }
    };
}
int_scalar!(u8, IntTy::U8);
int_scalar!(i8, IntTy::I8);
int_scalar!(u16, IntTy::U16);
int_scalar!(i16, IntTy::I16);
int_scalar!(u32, IntTy::U32);
int_scalar!(i32, IntTy::I32);
int_scalar!(u64, IntTy::U64);
int_scalar!(i64, IntTy::I64);

impl Scalar for f32 {
    fn from_v(v: &V) -> Self {
        match v {
            V::F32(x) => *x,
            o => panic!("expected f32, got {}", o.show()),
        }
    }
    fn to_v(self) -> V {
        V::F32(self)
    }
}
impl Scalar for f64 {
    fn from_v(v: &V) -> Self {
        match v {
            V::F64(x) => *x,
            o => panic!("expected f64, got {}", o.show()),
        }
    }
    fn to_v(self) -> V {
        V::F64(self)
    }
}
impl Scalar for bool {
    fn from_v(v: &V) -> Self {
        match v {
            V::Bool(x) => *x,
            o => panic!("expected bool, got {}", o.show()),
        }
    }
    fn to_v(self) -> V {
        V::Bool(self)
    }
}
impl Scalar for char {
    fn from_v(v: &V) -> Self {
        match v {
            V::Char(x) => *x,
            o => panic!("expected char, got {}", o.show()),
        }
    }
    fn to_v(self) -> V {
        V::Char(self)
    }
}

fn get2<A, R>(pkg: &mut Package<NoCtx>, name: &str) -> Result<Dyn2, String>
where
    A: Scalar + roto::Value + 'static,
    R: Scalar + roto::Value + 'static,
{
    let f: TypedFunc<NoCtx, fn(A, A) -> R> = pkg.get_function(name).map_err(|e| e.to_string())?;
    Ok(Box::new(move |a: &V, b: &V| f.call(A::from_v(a), A::from_v(b)).to_v()))
}

/// `fn name(a: T, b: T) -> R` with R either T or bool
pub fn get_fn2(pkg: &mut Package<NoCtx>, name: &str, t: &Ty, ret: &Ty) -> Result<Dyn2, String> {
    macro_rules! go {
        ($a:ty) => {
            if ret == t {
                get2::<$a, $a>(pkg, name)
            } else if *ret == Ty::Bool {
                get2::<$a, bool>(pkg, name)
            } else {
                Err(format!("unsupported return type {}", ret.print()))
            }
        };
    }
    match t {
        Ty::Int(IntTy::U8) => go!(u8),
        Ty::Int(IntTy::I8) => go!(i8),
        Ty::Int(IntTy::U16) => go!(u16),
        Ty::Int(IntTy::I16) => go!(i16),
        Ty::Int(IntTy::U32) => go!(u32),
        Ty::Int(IntTy::I32) => go!(i32),
        Ty::Int(IntTy::U64) => go!(u64),
        Ty::Int(IntTy::I64) => go!(i64),
        Ty::F32 => go!(f32),
        Ty::F64 => go!(f64),
        Ty::Bool => go!(bool),
        Ty::Char => go!(char),
        o => Err(format!("unsupported parameter type {}", o.print())),
    }
}
