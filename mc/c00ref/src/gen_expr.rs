//! Bounded-exhaustive enumerators of expressions and control-flow skeletons
//! (E-PROG). All enumerations are deterministic and ordered simplest first.

use crate::*;

pub fn var(n: &str) -> E {
    E::Var(n.into())
}
pub fn bin(op: BinOp, l: E, r: E) -> E {
    E::Bin(op, Box::new(l), Box::new(r))
}
pub fn lit(t: IntTy, v: i128) -> E {
    E::Int(v, None, t)
}
pub fn lit_suf(t: IntTy, v: i128) -> E {
    E::Int(v, Some(t), t)
}
pub fn blk(stmts: Vec<S>, tail: Option<E>) -> Block {
    Block { stmts, tail: tail.map(Box::new) }
}

/// boundary inputs of a scalar type
pub fn inputs(t: &Ty) -> Vec<V> {
    match t {
        Ty::Int(it) => it.boundary().into_iter().map(|v| V::Int(*it, v)).collect(),
        Ty::F32 => [
            0.0f32,
            -0.0,
            1.0,
            -1.0,
            0.5,
            -0.5,
            1.5,
            2.5,
            -2.5,
            f32::from_bits(1),
            f32::MIN_POSITIVE,
            f32::MAX,
            f32::MIN,
            f32::INFINITY,
            f32::NEG_INFINITY,
            f32::NAN,
            3.0,
            16777216.0,
        ]
        .into_iter()
        .map(V::F32)
        .collect(),
        Ty::F64 => [
            0.0f64,
            -0.0,
            1.0,
            -1.0,
            0.5,
            -0.5,
            1.5,
            2.5,
            -2.5,
            f64::from_bits(1),
            f64::MIN_POSITIVE,
            f64::MAX,
            f64::MIN,
            f64::INFINITY,
            f64::NEG_INFINITY,
            f64::NAN,
            3.0,
            9007199254740992.0,
        ]
        .into_iter()
        .map(V::F64)
        .collect(),
        Ty::Bool => vec![V::Bool(false), V::Bool(true)],
        Ty::Char => ['\0', 'a', 'é', '\u{FFFF}', '\u{10FFFF}', 'b'].into_iter().map(V::Char).collect(),
        _ => vec![],
    }
}

/// The leaves of expressions of a numeric type: two parameters and literals
pub fn leaves(t: &Ty, lits: &[E]) -> Vec<E> {
    let _ = t;
    let mut v = vec![var("a"), var("b")];
    v.extend(lits.iter().cloned());
    v
}

/// literal leaves for a numeric type: `n` simplest ones
pub fn literals(t: &Ty, n: usize) -> Vec<E> {
    let all: Vec<E> = match t {
        Ty::Int(it) => {
            let big = if it.bits() == 64 { i64::MAX as i128 } else { it.max_val() };
            vec![
                lit(*it, 1),
                lit(*it, 0),
                lit(*it, 3),
                lit_suf(*it, 2),
                lit_suf(*it, big),
                lit(*it, 100),
            ]
        }
        Ty::F32 | Ty::F64 => {
            let f = |s: &str, suf: bool| E::Float(s.into(), if suf { Some(t.clone()) } else { None }, t.clone());
            vec![f("1.0", false), f("0.0", false), f("0.5", true), f("2.5", false), f("1e2", false), f("3.", false)]
        }
        _ => vec![],
    };
    all.into_iter().take(n).collect()
}

/// All expressions of numeric type `t` with operator depth <= `depth`.
pub fn num_exprs(t: &Ty, depth: u32, lvs: &[E]) -> Vec<E> {
    let mut out: Vec<E> = lvs.to_vec();
    if depth == 0 {
        return out;
    }
    let sub = num_exprs(t, depth - 1, lvs);
    let ops: &[BinOp] = if t.is_float() {
        &[BinOp::Add, BinOp::Sub, BinOp::Mul, BinOp::Div]
    } else {
        &ARITH
    };
    let signed = match t {
        Ty::Int(it) => it.signed(),
        _ => true,
    };
    if signed {
        for x in &sub {
            out.push(E::Neg(Box::new(x.clone())));
        }
    }
    for op in ops {
        for l in &sub {
            for r in &sub {
                // only new shapes: at least one side must have depth == depth-1,
                // otherwise the expression was already produced at a lower depth
                out.push(bin(*op, l.clone(), r.clone()));
            }
        }
    }
    dedup_exprs(out)
}

fn dedup_exprs(v: Vec<E>) -> Vec<E> {
    let mut seen = std::collections::HashSet::new();
    let mut out = vec![];
    for e in v {
        let k = print_expr(&e);
        if seen.insert(k) {
            out.push(e);
        }
    }
    out
}

/// Numeric expressions of depth exactly 2 in which one operand of the root is
/// a leaf: every operator occurs at every operand position of every other
/// operator, without the full depth-2 product.
pub fn num_exprs_one_deep(t: &Ty, lvs: &[E]) -> Vec<E> {
    let d1 = num_exprs(t, 1, lvs);
    let ops: &[BinOp] = if t.is_float() { &[BinOp::Add, BinOp::Sub, BinOp::Mul, BinOp::Div] } else { &ARITH };
    let signed = match t {
        Ty::Int(it) => it.signed(),
        _ => true,
    };
    let mut out = vec![];
    if signed {
        for x in &d1 {
            out.push(E::Neg(Box::new(x.clone())));
        }
    }
    for op in ops {
        for x in &d1 {
            for l in lvs {
                out.push(bin(*op, x.clone(), l.clone()));
                out.push(bin(*op, l.clone(), x.clone()));
            }
        }
    }
    dedup_exprs(out)
}

/// Comparisons with one operand of depth <= 1 and the other a leaf.
pub fn cmp_exprs_one_deep(t: &Ty, lvs: &[E]) -> Vec<E> {
    let d1 = num_exprs(t, 1, lvs);
    let mut out = vec![];
    for op in CMP {
        for x in &d1 {
            for l in lvs {
                out.push(bin(op, x.clone(), l.clone()));
                out.push(bin(op, l.clone(), x.clone()));
            }
        }
    }
    dedup_exprs(out)
}

/// All boolean expressions over comparisons of numeric expressions of type
/// `t` (depth <= d_num) combined by at most `d_bool` levels of `&&`, `||`, `!`.
pub fn bool_exprs(t: &Ty, d_num: u32, d_bool: u32, lvs: &[E]) -> Vec<E> {
    let nums = num_exprs(t, d_num, lvs);
    let mut atoms = vec![];
    for op in CMP {
        for l in &nums {
            for r in &nums {
                atoms.push(bin(op, l.clone(), r.clone()));
            }
        }
    }
    let mut cur = atoms.clone();
    for _ in 0..d_bool {
        let mut next = cur.clone();
        for x in &cur {
            next.push(E::Not(Box::new(x.clone())));
        }
        for op in [BinOp::And, BinOp::Or] {
            for l in &cur {
                for r in &cur {
                    next.push(bin(op, l.clone(), r.clone()));
                }
            }
        }
        cur = dedup_exprs(next);
    }
    cur
}

/// A function `fn <name>(a: T, b: T) -> R { <expr> }`
pub fn fn2(name: &str, t: &Ty, ret: &Ty, body: E) -> Func {
    Func {
        name: name.into(),
        params: vec![("a".into(), t.clone()), ("b".into(), t.clone())],
        ret: ret.clone(),
        body: blk(vec![], Some(body)),
        filtermap: false,
    }
}

// ------------------------------------------------------------------ skeletons

/// Control-flow constructs of the skeleton grammar. A skeleton is a tree of
/// these; every hole is filled with a fingerprint update
/// `acc = acc * 31 + k` (distinct `k` per hole), so the returned accumulator
/// identifies the path that was executed.
#[derive(Clone, Copy, Debug, PartialEq, Eq)]
pub enum K {
    /// fingerprint leaf
    Fp,
    /// `if c { B }`
    If,
    /// `if c { B } else { B }`
    IfElse,
    /// `if c { B } else if c2 { B } else { B }`
    ElseIf,
    /// `let i = 0; while i < (b % 3) { B; i = i + 1; }`
    While,
    /// `for x in [k1, k2] { acc = acc*31 + x; B }`
    For,
    /// `match mkopt(a, c) { Some(y) => { fp(y) B }, None => { B } }`
    MatchOpt,
    /// `match mkopt(a, c) { Some(y) if y < b => { B }, Some(y) => { B }, None => { B } }`
    MatchGuard,
    /// `match mkopt(a, c) { Some(y) => { B }, _ => { B } }`
    MatchWild,
    /// `acc = { B; acc * 3 };` block expression
    BlockExpr,
    /// `if c { return acc; }` after a fingerprint
    Return,
    /// `if c1 && { fp; c2 } { B }`  (right operand with an effect)
    AndCond,
    /// `if c1 || { fp; c2 } { B }`
    OrCond,
    /// `acc = g(acc, b);` call of the helper function
    Call,
    /// `acc += k; acc *= 3; acc -= 1;` compound assignments
    Compound,
    /// `let t = acc; { let acc = t + 1; fp } ` shadowing in a nested block
    Shadow,
}

pub const CONSTRUCTS: [K; 16] = [
    K::Fp,
    K::If,
    K::IfElse,
    K::ElseIf,
    K::While,
    K::For,
    K::MatchOpt,
    K::MatchGuard,
    K::MatchWild,
    K::BlockExpr,
    K::Return,
    K::AndCond,
    K::OrCond,
    K::Call,
    K::Compound,
    K::Shadow,
];

impl K {
    /// number of sub-bodies
    pub fn arity(self) -> usize {
        match self {
            K::Fp | K::Return | K::Call | K::Compound | K::Shadow => 0,
            K::If | K::While | K::For | K::BlockExpr | K::AndCond | K::OrCond => 1,
            K::IfElse | K::MatchOpt | K::MatchWild => 2,
            K::ElseIf | K::MatchGuard => 3,
        }
    }
}

/// skeleton tree: a body is a sequence of nodes
#[derive(Clone, Debug)]
pub struct Node {
    pub k: K,
    pub subs: Vec<Vec<Node>>,
}

/// All bodies with exactly `size` constructs in total and nesting <= `nest`.
pub fn bodies(size: usize, nest: usize) -> Vec<Vec<Node>> {
    if size == 0 {
        return vec![vec![]];
    }
    let mut out = vec![];
    // first node takes `s` constructs (itself + its sub-bodies), rest of the sequence the remainder
    for s in 1..=size {
        let firsts = nodes(s, nest);
        let rests = bodies(size - s, nest);
        for f in &firsts {
            for r in &rests {
                let mut v = vec![f.clone()];
                v.extend(r.iter().cloned());
                out.push(v);
            }
        }
    }
    out
}

/// All single nodes whose subtree has exactly `size` constructs.
fn nodes(size: usize, nest: usize) -> Vec<Node> {
    let mut out = vec![];
    for k in CONSTRUCTS {
        let ar = k.arity();
        if ar == 0 {
            if size == 1 {
                out.push(Node { k, subs: vec![] });
            }
            continue;
        }
        if nest == 0 {
            continue;
        }
        // distribute size-1 constructs over `ar` sub-bodies (each may be empty)
        for split in splits(size - 1, ar) {
            let choices: Vec<Vec<Vec<Node>>> = split.iter().map(|s| bodies(*s, nest - 1)).collect();
            let total: usize = choices.iter().map(|c| c.len()).product();
            for mut idx in 0..total {
                let mut subs = Vec::with_capacity(ar);
                for c in choices.iter().rev() {
                    subs.push(c[idx % c.len()].clone());
                    idx /= c.len();
                }
                subs.reverse();
                out.push(Node { k, subs });
            }
        }
    }
    out
}

fn splits(total: usize, parts: usize) -> Vec<Vec<usize>> {
    if parts == 1 {
        return vec![vec![total]];
    }
    let mut out = vec![];
    for first in 0..=total {
        for mut rest in splits(total - first, parts - 1) {
            let mut v = vec![first];
            v.append(&mut rest);
            out.push(v);
        }
    }
    out
}

struct Fill {
    t: IntTy,
    next_k: i128,
    next_c: usize,
    next_v: usize,
}

impl Fill {
    fn k(&mut self) -> i128 {
        self.next_k += 1;
        // keep literals inside i8's positive range
        1 + (self.next_k * 7) % 120
    }
    fn cond(&mut self) -> E {
        self.next_c += 1;
        match self.next_c % 4 {
            0 => bin(BinOp::Lt, var("a"), var("b")),
            1 => bin(BinOp::Eq, var("a"), var("b")),
            2 => bin(BinOp::Ge, var("a"), var("b")),
            _ => bin(BinOp::Ne, var("b"), lit(self.t, 0)),
        }
    }
    fn fresh(&mut self, p: &str) -> String {
        self.next_v += 1;
        format!("{p}{}", self.next_v)
    }
    fn fp(&mut self) -> S {
        let k = self.k();
        S::Expr(E::Assign(
            vec!["acc".into()],
            Box::new(bin(BinOp::Add, bin(BinOp::Mul, var("acc"), lit(self.t, 31)), lit(self.t, k))),
        ))
    }
    fn fp_var(&mut self, v: &str) -> S {
        S::Expr(E::Assign(
            vec!["acc".into()],
            Box::new(bin(BinOp::Add, bin(BinOp::Mul, var("acc"), lit(self.t, 31)), var(v))),
        ))
    }
    fn body(&mut self, b: &[Node]) -> Vec<S> {
        let mut out = vec![];
        for n in b {
            self.node(n, &mut out);
        }
        out
    }
    fn block(&mut self, b: &[Node]) -> Block {
        // every block starts with a fingerprint of its own so that taking it is visible
        let mut st = vec![self.fp()];
        st.extend(self.body(b));
        blk(st, None)
    }
    fn node(&mut self, n: &Node, out: &mut Vec<S>) {
        let t = self.t;
        match n.k {
            K::Fp => out.push(self.fp()),
            K::If => {
                let c = self.cond();
                let b = self.block(&n.subs[0]);
                out.push(S::Expr(E::If(Box::new(c), b, None)));
            }
            K::IfElse => {
                let c = self.cond();
                let b1 = self.block(&n.subs[0]);
                let b2 = self.block(&n.subs[1]);
                out.push(S::Expr(E::If(Box::new(c), b1, Some(b2))));
            }
            K::ElseIf => {
                let c = self.cond();
                let c2 = self.cond();
                let b1 = self.block(&n.subs[0]);
                let b2 = self.block(&n.subs[1]);
                let b3 = self.block(&n.subs[2]);
                let inner = E::If(Box::new(c2), b2, Some(b3));
                out.push(S::Expr(E::If(Box::new(c), b1, Some(blk(vec![], Some(inner))))));
            }
            K::While => {
                let i = self.fresh("i");
                out.push(S::Let(i.clone(), Some(Ty::Int(t)), lit(t, 0)));
                let mut b = self.block(&n.subs[0]);
                b.stmts.push(S::Expr(E::Assign(vec![i.clone()], Box::new(bin(BinOp::Add, var(&i), lit(t, 1))))));
                // 0, 1 or 2 iterations depending on b (negative b: none)
                let c = bin(BinOp::Lt, var(&i), bin(BinOp::Mod, var("b"), lit(t, 3)));
                out.push(S::Expr(E::While(Box::new(c), b)));
            }
            K::For => {
                let x = self.fresh("x");
                let k1 = self.k();
                let k2 = self.k();
                let mut b = self.block(&n.subs[0]);
                b.stmts.insert(0, self.fp_var(&x));
                out.push(S::Expr(E::For(x, Box::new(E::ListLit(vec![lit(t, k1), lit(t, k2)])), b)));
            }
            K::MatchOpt | K::MatchWild | K::MatchGuard => {
                let c = self.cond();
                let y = self.fresh("y");
                let scrut = E::Call("mkopt".into(), vec![var("a"), c]);
                let mut arms = vec![];
                let mut b1 = self.block(&n.subs[0]);
                b1.stmts.insert(0, self.fp_var(&y));
                if n.k == K::MatchGuard {
                    arms.push(Arm {
                        variant: Some("Some".into()),
                        binds: vec![y.clone()],
                        guard: Some(bin(BinOp::Lt, var(&y), var("b"))),
                        body: b1,
                    });
                    let mut b2 = self.block(&n.subs[1]);
                    b2.stmts.insert(0, self.fp_var(&y));
                    arms.push(Arm { variant: Some("Some".into()), binds: vec![y.clone()], guard: None, body: b2 });
                    let b3 = self.block(&n.subs[2]);
                    arms.push(Arm { variant: Some("None".into()), binds: vec![], guard: None, body: b3 });
                } else {
                    arms.push(Arm { variant: Some("Some".into()), binds: vec![y.clone()], guard: None, body: b1 });
                    let b2 = self.block(&n.subs[1]);
                    arms.push(Arm {
                        variant: if n.k == K::MatchWild { None } else { Some("None".into()) },
                        binds: vec![],
                        guard: None,
                        body: b2,
                    });
                }
                out.push(S::Expr(E::Match(Box::new(scrut), arms)));
            }
            K::BlockExpr => {
                let mut b = self.block(&n.subs[0]);
                b.tail = Some(Box::new(bin(BinOp::Mul, var("acc"), lit(t, 3))));
                out.push(S::Expr(E::Assign(vec!["acc".into()], Box::new(E::Block(b)))));
            }
            K::Return => {
                let c = self.cond();
                let f = self.fp();
                out.push(S::Expr(E::If(
                    Box::new(c),
                    blk(vec![f, S::Expr(E::Return(Some(Box::new(var("acc")))))], None),
                    None,
                )));
            }
            K::AndCond | K::OrCond => {
                let c1 = self.cond();
                let c2 = self.cond();
                let f = self.fp();
                let rhs = E::Block(blk(vec![f], Some(c2)));
                let op = if n.k == K::AndCond { BinOp::And } else { BinOp::Or };
                let b = self.block(&n.subs[0]);
                out.push(S::Expr(E::If(Box::new(bin(op, c1, rhs)), b, None)));
            }
            K::Call => {
                out.push(S::Expr(E::Assign(
                    vec!["acc".into()],
                    Box::new(E::Call("g".into(), vec![var("acc"), var("b")])),
                )));
            }
            K::Compound => {
                let k = self.k();
                out.push(S::Expr(E::Compound(vec!["acc".into()], BinOp::Add, Box::new(lit(t, k)))));
                out.push(S::Expr(E::Compound(vec!["acc".into()], BinOp::Mul, Box::new(lit(t, 3)))));
                out.push(S::Expr(E::Compound(vec!["acc".into()], BinOp::Sub, Box::new(var("a")))));
            }
            K::Shadow => {
                let tv = self.fresh("t");
                out.push(S::Let(tv.clone(), None, var("acc")));
                let inner = blk(
                    vec![
                        S::Let("acc".into(), Some(Ty::Int(t)), bin(BinOp::Add, var(&tv), lit(t, 1))),
                        self.fp(),
                    ],
                    None,
                );
                out.push(S::Expr(E::Block(inner)));
                out.push(self.fp());
            }
        }
    }
}

/// The program for one skeleton body with accumulator type `t`:
/// `fn f(a: T, b: T) -> T { let acc: T = 1; <body>; acc }` plus the helpers
/// `mkopt` and `g` (g is itself recursive on a decreasing counter).
pub fn skeleton_program(t: IntTy, body: &[Node]) -> Program {
    let ty = Ty::Int(t);
    let mut fill = Fill { t, next_k: 0, next_c: 0, next_v: 0 };
    let mut stmts = vec![S::Let("acc".into(), Some(ty.clone()), lit(t, 1))];
    stmts.extend(fill.body(body));
    let f = Func {
        name: "f".into(),
        params: vec![("a".into(), ty.clone()), ("b".into(), ty.clone())],
        ret: ty.clone(),
        body: blk(stmts, Some(var("acc"))),
        filtermap: false,
    };
    let mut funcs = vec![f];
    funcs.extend(helpers(t));
    Program { records: vec![], enums: vec![], funcs }
}

pub fn helpers(t: IntTy) -> Vec<Func> {
    let ty = Ty::Int(t);
    let mkopt = Func {
        name: "mkopt".into(),
        params: vec![("x".into(), ty.clone()), ("c".into(), Ty::Bool)],
        ret: Ty::Opt(Box::new(ty.clone())),
        body: blk(
            vec![],
            Some(E::If(
                Box::new(var("c")),
                blk(vec![], Some(E::Ctor("Option".into(), "Some".into(), vec![var("x")]))),
                Some(blk(vec![], Some(E::Ctor("Option".into(), "None".into(), vec![])))),
            )),
        ),
        filtermap: false,
    };
    // g(x, n): recursion on a counter derived from n: depth 0..2
    let g = Func {
        name: "g".into(),
        params: vec![("x".into(), ty.clone()), ("n".into(), ty.clone())],
        ret: ty.clone(),
        body: blk(
            vec![],
            Some(E::Call("g2".into(), vec![var("x"), bin(BinOp::Mod, var("n"), lit(t, 3))])),
        ),
        filtermap: false,
    };
    let g2 = Func {
        name: "g2".into(),
        params: vec![("x".into(), ty.clone()), ("n".into(), ty.clone())],
        ret: ty.clone(),
        body: blk(
            vec![],
            Some(E::If(
                Box::new(bin(BinOp::Le, var("n"), lit(t, 0))),
                blk(vec![], Some(bin(BinOp::Add, var("x"), lit(t, 5)))),
                Some(blk(
                    vec![],
                    Some(E::Call(
                        "g2".into(),
                        vec![bin(BinOp::Add, bin(BinOp::Mul, var("x"), lit(t, 7)), var("n")), bin(BinOp::Sub, var("n"), lit(t, 1))],
                    )),
                )),
            )),
        ),
        filtermap: false,
    };
    vec![mkopt, g, g2]
}

/// Rename the functions of a program with a prefix so that many programs can
/// share one compiled package.
pub fn rename(p: &Program, prefix: &str) -> Program {
    let names: Vec<String> = p.funcs.iter().map(|f| f.name.clone()).collect();
    rename_only(p, &names, prefix)
}

/// Rename only the listed functions (and the calls to them).
pub fn rename_only(p: &Program, names: &[String], prefix: &str) -> Program {
    let mut q = p.clone();
    for f in &mut q.funcs {
        if names.contains(&f.name) {
            f.name = format!("{prefix}{}", f.name);
        }
        rename_block(&mut f.body, names, prefix);
    }
    q
}

fn rename_block(b: &mut Block, names: &[String], prefix: &str) {
    for s in &mut b.stmts {
        match s {
            S::Let(_, _, e) | S::Expr(e) => rename_expr(e, names, prefix),
        }
    }
    if let Some(t) = &mut b.tail {
        rename_expr(t, names, prefix);
    }
}

fn rename_expr(e: &mut E, names: &[String], prefix: &str) {
    match e {
        E::Call(f, args) => {
            if names.contains(f) {
                *f = format!("{prefix}{f}");
            }
            for a in args {
                rename_expr(a, names, prefix);
            }
        }
        E::Host(_, args) | E::Ctor(_, _, args) | E::ListLit(args) => {
            for a in args {
                rename_expr(a, names, prefix);
            }
        }
        E::Method(r, _, args) => {
            rename_expr(r, names, prefix);
            for a in args {
                rename_expr(a, names, prefix);
            }
        }
        E::Neg(x) | E::Not(x) | E::Try(x) | E::Field(x, _) | E::Assign(_, x) | E::Compound(_, _, x) => {
            rename_expr(x, names, prefix)
        }
        E::Return(x) | E::Accept(x) | E::Reject(x) => {
            if let Some(x) = x {
                rename_expr(x, names, prefix)
            }
        }
        E::Bin(_, l, r) => {
            rename_expr(l, names, prefix);
            rename_expr(r, names, prefix);
        }
        E::If(c, t, f) => {
            rename_expr(c, names, prefix);
            rename_block(t, names, prefix);
            if let Some(f) = f {
                rename_block(f, names, prefix);
            }
        }
        E::Block(b) => rename_block(b, names, prefix),
        E::Rec(_, fs) => {
            for (_, x) in fs {
                rename_expr(x, names, prefix);
            }
        }
        E::Match(x, arms) => {
            rename_expr(x, names, prefix);
            for a in arms {
                if let Some(g) = &mut a.guard {
                    rename_expr(g, names, prefix);
                }
                rename_block(&mut a.body, names, prefix);
            }
        }
        E::FStr(parts) => {
            for p in parts {
                if let FPart::Expr(x) = p {
                    rename_expr(x, names, prefix);
                }
            }
        }
        E::While(c, b) => {
            rename_expr(c, names, prefix);
            rename_block(b, names, prefix);
        }
        E::For(_, l, b) => {
            rename_expr(l, names, prefix);
            rename_block(b, names, prefix);
        }
        E::Int(..) | E::Float(..) | E::Bool(_) | E::Char(_) | E::Str(_) | E::Unit | E::Var(_) => {}
    }
}
