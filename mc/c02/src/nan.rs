//! `==` compares structurally — also when both operands are the SAME value.
//!
//! A NaN is not equal to itself, so an aggregate that holds one is not equal to
//! itself either, and neither is a list of such aggregates: `a == a`, `a == b`
//! for a copy `b`, `l == l`, `l == m` for an alias `m` of the list, a list
//! handed twice to one function, `contains` / `index` of an element the list
//! does hold. Any shortcut "same address, hence equal" in a generated equality
//! helper is wrong for exactly these values and invisible for all others
//! (seeded change C02-7: the generated helpers answered `true` for identical
//! pointers; only an aliased list of aggregates hands them identical pointers).
//! Seven element types x three values (NaN, -0.0 against 0.0, an ordinary
//! number); the expected bit masks are written down here.

use roto::{NoCtx, TypedFunc};
use vcore::{Cx, Value, json};

/// (name, declarations, type, constructor of a value holding `v`)
const TYPES: [(&str, &str, &str, &str); 8] = [
    ("f64", "", "f64", "v"),
    ("record", "record R { a: f64 }\n", "R", "R { a: v }"),
    ("record-mixed", "record M { k: u8, f: f64, s: String }\n", "M", "M { k: 1, f: v, s: \"s\" }"),
    ("enum", "enum E { A(f64), B }\n", "E", "E.A(v)"),
    ("option", "", "f64?", "Option.Some(v)"),
    ("nested", "record R { a: f64 }\nrecord N { r: R, o: R? }\n", "N", "N { r: R { a: 1.0 }, o: Option.Some(R { a: v }) }"),
    ("anonymous-record", "", "{ x: u8, y: f64 }", "{ x: 1, y: v }"),
    ("list", "", "List[f64]", "[v]"),
];

/// the comparisons: bit i of the result is comparison i
const BITS: [&str; 11] = [
    "let a = mk(v); a == a",
    "let a = mk(v); let b = a; a == b",
    "mk(v) == mk(v)",
    "let l = [mk(v)]; l == l",
    "let l = [mk(v)]; let m = l; l == m",
    "[mk(v)] == [mk(v)]",
    "let a = mk(v); let l = [a]; l.contains(a)",
    "let a = mk(v); a != a",
    "let a = mk(v); let l = [a]; match l.index(a) { Some(i) => true, None => false }",
    "let l = [mk(v)]; same(l, l)",
    "let l = [mk(v), mk(v)]; let m = l; m.push(mk(v)); l == m",
];

fn source(t: usize) -> String {
    let (_, decls, ty, cons) = TYPES[t];
    let mut s = String::from(decls);
    s += &format!("fn mk(v: f64) -> {ty} {{ {cons} }}\n");
    s += &format!("fn same(x: List[{ty}], y: List[{ty}]) -> bool {{ x == y }}\n");
    for (i, b) in BITS.iter().enumerate() {
        s += &format!("fn b{i}(v: f64) -> bool {{ {b} }}\n");
    }
    // zero of either sign: equal although the bytes differ
    s += &format!("fn z0(v: f64, w: f64) -> bool {{ mk(v) == mk(w) }}\n");
    s += &format!("fn z1(v: f64, w: f64) -> bool {{ [mk(v)] == [mk(w)] }}\n");
    s
}

pub fn n_cases() -> usize {
    TYPES.len()
}

pub fn describe(i: usize) -> Value {
    match TYPES.get(i) {
        Some(t) => json!({"family": "nan-eq", "element_type": t.0, "program": source(i), "comparisons": BITS}),
        None => json!({"family": "nan-eq"}),
    }
}

pub fn run(cx: &mut Cx) {
    if !cx.case(vcore::SUB_SETUP) {
        return;
    }
    let rt = host::runtime();
    for t in 0..TYPES.len() {
        if !cx.case(t as u64) {
            continue;
        }
        cx.states(1);
        cx.count("nan_eq_programs", 1);
        let src = source(t);
        let mut pkg = match host::compile(&rt, &src) {
            Ok(p) => p,
            Err(e) => {
                cx.violation("rejected", t as u64, describe(t), json!("a well-typed program compiles"), json!(format!("{e:?}")));
                continue;
            }
        };
        let mut got: Vec<String> = vec![];
        let mut want: Vec<String> = vec![];
        for (vi, (v, label)) in [(f64::NAN, "NaN"), (1.5, "1.5"), (-0.0, "-0.0")].into_iter().enumerate() {
            for i in 0..BITS.len() {
                let f: TypedFunc<NoCtx, fn(f64) -> bool> = match pkg.get_function(&format!("b{i}")) {
                    Ok(f) => f,
                    Err(e) => {
                        cx.violation("get_function", t as u64, describe(t), json!("Ok"), json!(e.to_string()));
                        return;
                    }
                };
                let r = f.call(v);
                cx.transitions(1);
                // NaN: nothing is equal, `!=` holds; otherwise the other way round
                let is_ne = BITS[i].contains("!=");
                let expect = if vi == 0 { is_ne } else { !is_ne };
                got.push(format!("{label}: {} -> {r}", BITS[i]));
                want.push(format!("{label}: {} -> {expect}", BITS[i]));
            }
        }
        for name in ["z0", "z1"] {
            let f: TypedFunc<NoCtx, fn(f64, f64) -> bool> = match pkg.get_function(name) {
                Ok(f) => f,
                Err(e) => {
                    cx.violation("get_function", t as u64, describe(t), json!("Ok"), json!(e.to_string()));
                    return;
                }
            };
            for (v, w, expect) in [(0.0, -0.0, true), (-0.0, 0.0, true), (f64::NAN, f64::NAN, false), (1.5, 2.5, false)] {
                let r = f.call(v, w);
                cx.transitions(1);
                got.push(format!("{name}({v:?}, {w:?}) -> {r}"));
                want.push(format!("{name}({v:?}, {w:?}) -> {expect}"));
            }
        }
        cx.validated(1);
        cx.nontrivial(vcore::util::fnv_str(TYPES[t].0));
        cx.outcome(vcore::util::fnv_str(&format!("{got:?}")));
        if got != want {
            let diff: Vec<&String> = got.iter().zip(&want).filter(|(g, w)| g != w).map(|(g, _)| g).collect();
            cx.violation("eq-mismatch", t as u64, describe(t), json!("NaN-bearing values are unequal to everything, all others compare by contents"), json!({"wrong": diff}));
        }
        if t == 1 {
            cx.sample(describe(t));
        }
    }
}
