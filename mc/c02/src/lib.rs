//! C02 — aggregates are values, lists are shared, components are addressed
//! exactly.
//!
//! For every layout (sequence of field classes) the type is built as a named
//! record, a generic record, an anonymous record, the payload of enum
//! variants and of Option / Result / Verdict. Each type gets a fixed family
//! of small programs with distinct sentinel values per component: construct,
//! copy (let, assignment, argument, return, outer record, Some, list element,
//! match binding, `?`), then a write through ONE name and an `emit_*` of every
//! component of EVERY name; `==` / `!=`; guarded matches; shared lists.
//! Oracle: host-call log and result equal the reference interpreter's
//! (value semantics for everything except lists); the drop ledger of tracked
//! host values is balanced after every call.

pub mod family;
pub mod nan;
pub mod perm;

use c00ref::*;
use family::*;
use roto::{NoCtx, Package, TypedFunc};
use vcore::{Cfg, Check, Cx, Finding, Meta, SUB_SETUP, Tier, Value, Violation, json};

// ------------------------------------------------------------ enumeration

struct Seg {
    /// the first `alpha` classes of `FULL`
    alpha: usize,
    len: usize,
    shapes: Vec<Shape>,
    /// only layouts with index % modulus == residue (1, 0 = all)
    modulus: usize,
    residue: usize,
}

impl Seg {
    fn units(&self) -> usize {
        let n = layouts_of_len(self.alpha, self.len);
        if n <= self.residue { 0 } else { (n - self.residue).div_ceil(self.modulus) }
    }
    fn layout(&self, i: usize) -> Vec<F> {
        layout(self.alpha, self.len, i * self.modulus + self.residue)
    }
}

fn segments(cfg: &Cfg) -> Vec<Seg> {
    let all = ALL_SHAPES.to_vec();
    let mut v = vec![];
    match cfg.tier {
        Tier::Quick => {
            for len in 1..=3 {
                v.push(Seg { alpha: QUICK, len, shapes: all.clone(), modulus: 1, residue: 0 });
            }
        }
        Tier::Thorough => {
            // nine shapes get every layout of up to three fields over all 16
            // classes and every four-field layout over the quick classes; the
            // other five shapes (second orientation of the generic record,
            // one-variant enum, first variant of the three-variant enum,
            // Result.Err, Verdict.Accept) get the layouts of up to two fields
            // over all classes and of three fields over the quick classes
            let main = vec![
                Shape::Named,
                Shape::Generic,
                Shape::Anon,
                Shape::Enum2,
                Shape::EnumStr,
                Shape::Enum3B,
                Shape::GenEnum,
                Shape::Opt,
                Shape::ResOk,
                Shape::VerRej,
            ];
            let rest: Vec<Shape> = ALL_SHAPES.iter().copied().filter(|s| !main.contains(s)).collect();
            for len in 1..=2 {
                v.push(Seg { alpha: FULL.len(), len, shapes: all.clone(), modulus: 1, residue: 0 });
            }
            v.push(Seg { alpha: QUICK, len: 3, shapes: rest, modulus: 1, residue: 0 });
            v.push(Seg { alpha: FULL.len(), len: 3, shapes: main.clone(), modulus: 1, residue: 0 });
            v.push(Seg { alpha: QUICK, len: 4, shapes: main, modulus: 1, residue: 0 });
            // the 65536 four-field layouts over all 16 classes: named record,
            // anonymous record and two-variant enum; VERIF_SEED selects which
            // 1/32 of them is enumerated (completely) in this run
            v.push(Seg {
                alpha: FULL.len(),
                len: 4,
                shapes: vec![Shape::Named, Shape::Anon, Shape::Enum2],
                modulus: 32,
                residue: (cfg.seed % 32) as usize,
            });
        }
    }
    v
}

fn locate(cfg: &Cfg, unit: usize) -> Option<(Vec<F>, Vec<Shape>)> {
    let mut u = unit;
    for s in segments(cfg) {
        let n = s.units();
        if u < n {
            return Some((s.layout(u), s.shapes.clone()));
        }
        u -= n;
    }
    None
}

/// classes of the permuted-anonymous-record family of a tier
fn perm_alpha(cfg: &Cfg) -> usize {
    cfg.tier.pick(perm::PERM_QUICK, perm::PERM_CLASSES.len())
}

fn layout_units(cfg: &Cfg) -> usize {
    segments(cfg).iter().map(|s| s.units()).sum()
}

pub struct UnitData {
    /// names of the field classes
    pub fields: Vec<&'static str>,
    pub descs: Vec<TypeDesc>,
    /// (index into descs, program)
    pub progs: Vec<(usize, Prog)>,
}

/// number of units of a tier (also used by C20, which runs the same programs
/// through the IR evaluator)
pub fn unit_count(cfg: &Cfg) -> usize {
    use vcore::Check;
    C02.units(cfg)
}

pub fn build_unit(cfg: &Cfg, unit: usize) -> Option<UnitData> {
    let lu = layout_units(cfg);
    if unit >= lu {
        // the units after the layouts: anonymous records in permuted field order
        let sets = perm::field_sets(perm_alpha(cfg));
        let cls = sets.get(unit - lu)?;
        let (descs, progs) = perm::perm_programs(cls);
        return Some(UnitData { fields: cls.iter().map(|c| c.name()).collect(), descs, progs });
    }
    let (fields, shapes) = locate(cfg, unit)?;
    let mut descs = vec![];
    let mut progs = vec![];
    for sh in shapes {
        let Some(d) = TypeDesc::new(sh, &fields) else { continue };
        let ps = programs(&d, progs.len());
        let di = descs.len();
        descs.push(d);
        progs.extend(ps.into_iter().map(|p| (di, p)));
    }
    Some(UnitData { fields: fields.iter().map(|f| f.name()).collect(), descs, progs })
}

impl UnitData {
    pub fn batch(&self) -> Program {
        let mut pr = Program::default();
        for d in &self.descs {
            for r in &d.records {
                if !pr.records.iter().any(|x| x.name == r.name) {
                    pr.records.push(r.clone());
                }
            }
            for e in &d.enums {
                if !pr.enums.iter().any(|x| x.name == e.name) {
                    pr.enums.push(e.clone());
                }
            }
        }
        for (_, p) in &self.progs {
            if !p.solo {
                pr.funcs.extend(p.funcs.iter().cloned());
            }
        }
        pr
    }
    pub fn case_json(&self, i: usize, p: Option<bool>) -> Value {
        let (di, pr) = &self.progs[i];
        let d = &self.descs[*di];
        json!({
            "layout": self.fields,
            "shape": d.shape.name(),
            "type": d.ty.print(),
            "kind": pr.kind,
            "entry": pr.entry,
            "p": p,
            "program": print_program(&standalone(d, pr)),
        })
    }
}

enum Fun {
    U(TypedFunc<NoCtx, fn(bool) -> u32>),
    O(TypedFunc<NoCtx, fn(bool) -> Option<u32>>),
}

fn get_fun(pk: &mut Package<NoCtx>, name: &str, ret: Ret) -> Result<Fun, String> {
    match ret {
        Ret::U32 => pk.get_function(name).map(Fun::U).map_err(|e| e.to_string()),
        Ret::OptU32 => pk.get_function(name).map(Fun::O).map_err(|e| e.to_string()),
    }
}

impl Fun {
    fn call(&self, p: bool) -> V {
        match self {
            Fun::U(f) => V::Int(IntTy::U32, f.call(p) as i128),
            Fun::O(f) => match f.call(p) {
                Some(x) => V::some(V::Int(IntTy::U32, x as i128)),
                None => V::none(),
            },
        }
    }
}

const SINGLE: u64 = 0xFF;
const GETFN: u64 = 0xFE;
const MAX_DEATHS: usize = 8;

/// Mark a preparatory step of a program (compile on its own, function
/// look-up). In a replay of another step of the same program it is part of
/// the set-up.
fn mark(cx: &mut Cx, sub: u64) -> bool {
    match cx.only() {
        Some(o) if o != sub => cx.case(SUB_SETUP),
        _ => cx.case(sub),
    }
}
/// sub id of the batch compile of a unit
const BATCH: u64 = (1 << 40) | 0xFD;

struct C02;

impl Check for C02 {
    fn id(&self) -> &'static str {
        "C02"
    }
    fn units(&self, cfg: &Cfg) -> usize {
        layout_units(cfg) + perm::field_sets(perm_alpha(cfg)).len() + 1
    }
    fn case_timeout_s(&self, cfg: &Cfg) -> f64 {
        // generous: on a heavily loaded machine the one-second batch compile
        // of a unit has been seen to take more than a minute of wall time
        cfg.tier.pick(240.0, 600.0)
    }
    fn run_unit(&self, unit: usize, cx: &mut Cx) {
        if !cx.case(SUB_SETUP) {
            return;
        }
        if unit == layout_units(&cx.cfg) + perm::field_sets(perm_alpha(&cx.cfg)).len() {
            return nan::run(cx);
        }
        let Some(u) = build_unit(&cx.cfg, unit) else { return };
        // Every death costs a fresh worker and a recompilation of the batch.
        // A unit whose programs keep killing workers is given up after
        // MAX_DEATHS (that many violations are already recorded for it); the
        // run is then not exhaustive and `finish` turns that into a
        // machinery error, so it can never count as "held".
        if cx.skipped_cases().len() >= MAX_DEATHS {
            cx.count("programs_abandoned", u.progs.len() as u64);
            cx.note(format!("unit {unit} ({:?}) abandoned after {MAX_DEATHS} worker deaths", u.fields));
            return;
        }
        let rt = host::runtime();
        let batch = u.batch();
        let t0 = std::time::Instant::now();
        // a replay of one program compiles only that program (on its own)
        let only_prog = cx.only().filter(|s| *s != SUB_SETUP && *s != BATCH).map(|s| (s >> 8) as usize);
        // (if the batch compile killed an earlier worker, cx.case(BATCH) is false
        // and every program is compiled on its own)
        let mut pkg = if only_prog.is_some() || !cx.case(BATCH) { None } else { host::compile(&rt, &print_program(&batch)).ok() };
        cx.case(SUB_SETUP);
        cx.count("ms_batch_compile", t0.elapsed().as_millis() as u64);
        let mut us_model = 0u128;
        let mut us_call = 0u128;
        if pkg.is_none() && cx.only().is_none() {
            cx.count("batches_split", 1);
        }
        for (i, (di, pr)) in u.progs.iter().enumerate() {
            if only_prog.is_some_and(|o| o != i) || cx.only() == Some(SUB_SETUP) || cx.only() == Some(BATCH) {
                continue;
            }
            // a program that killed a worker on one input is not run on the other
            if cx.skipped_cases().iter().any(|s| *s != BATCH && (s >> 8) as usize == i) {
                cx.count("programs_skipped_after_crash", 1);
                continue;
            }
            let d = &u.descs[*di];
            let base = (i as u64) << 8;
            let mut single;
            let single_prog;
            let (pk, model): (&mut Package<NoCtx>, &Program) = match pkg.as_mut() {
                Some(pk) if !pr.solo => (pk, &batch),
                _ => {
                    // (in a replay of a call the compile is part of the set-up)
                    if !mark(cx, base | SINGLE) {
                        continue;
                    }
                    single_prog = standalone(d, pr);
                    match host::compile(&rt, &print_program(&single_prog)) {
                        Ok(p1) => {
                            single = p1;
                            (&mut single, &single_prog)
                        }
                        // two written-out anonymous record types that list the same
                        // fields in different orders: the property does not say that
                        // they are one type, so a type error is an allowed answer
                        Err(host::CompileFail::Report(r)) if pr.kind.starts_with("two-written-types ") && r.contains("Type error") => {
                            cx.states(1);
                            cx.count("two_written_types_rejected", 1);
                            continue;
                        }
                        Err(e) => {
                            cx.states(1);
                            cx.violation(
                                match e {
                                    host::CompileFail::Panic(_) => "compile-panic",
                                    host::CompileFail::Report(_) => "rejected",
                                },
                                base | SINGLE,
                                u.case_json(i, None),
                                json!("a well-typed program compiles"),
                                json!(format!("{e:?}")),
                            );
                            continue;
                        }
                    }
                }
            };
            if !mark(cx, base | GETFN) {
                continue;
            }
            let f = match get_fun(pk, &pr.entry, pr.ret) {
                Ok(f) => f,
                Err(e) => {
                    cx.violation("get_function", base | GETFN, u.case_json(i, None), json!("Ok"), json!(e));
                    continue;
                }
            };
            cx.states(1);
            let mut logs: Vec<String> = vec![];
            let mut reported = false;
            for pv in [false, true] {
                let t1 = std::time::Instant::now();
                let expect = eval_fn(model, &pr.entry, &[V::Bool(pv)]);
                us_model += t1.elapsed().as_micros();
                let expect = match expect {
                    Ok(o) => o,
                    Err(Stop::Unspecified(_)) | Err(Stop::Fuel) => {
                        cx.unspecified(1);
                        continue;
                    }
                    Err(Stop::Stuck(m)) => {
                        if !reported {
                            reported = true;
                            cx.violation("model-stuck", base | pv as u64, u.case_json(i, Some(pv)), json!("model evaluates"), json!(m));
                        }
                        continue;
                    }
                    Err(Stop::Return(_)) => unreachable!(),
                };
                let sub = base | pv as u64;
                if !cx.case(sub) {
                    continue;
                }
                host::ledger_reset();
                host::clear_log();
                let t2 = std::time::Instant::now();
                let got = f.call(pv);
                us_call += t2.elapsed().as_micros();
                let log = host::take_log();
                let (live, _z, anomalies) = host::ledger_snapshot();
                cx.transitions(1);
                cx.validated(1);
                logs.push(format!("{log:?}"));
                // the zero-sized tracked type is C03's business
                let anomalies: Vec<_> = anomalies.into_iter().filter(|a| *a != host::Anomaly::ZUnderflow).collect();
                if reported {
                    continue;
                }
                if log != expect.log || !got.obs_eq(&expect.value) {
                    reported = true;
                    cx.violation(
                        if log != expect.log { "log-mismatch" } else { "value-mismatch" },
                        sub,
                        u.case_json(i, Some(pv)),
                        json!({"log": format!("{:?}", expect.log), "value": expect.value.show()}),
                        json!({"log": format!("{log:?}"), "value": got.show(), "first_difference": first_diff(&expect.log, &log)}),
                    );
                } else if !anomalies.is_empty() || !live.is_empty() {
                    reported = true;
                    cx.violation(
                        if !anomalies.is_empty() { "ledger-anomaly" } else { "ledger-leak" },
                        sub,
                        u.case_json(i, Some(pv)),
                        json!("every tracked value created by the call is dropped exactly once"),
                        json!({"anomalies": format!("{anomalies:?}"), "still_live (id, payload)": format!("{live:?}")}),
                    );
                }
            }
            // non-trivial: a component is written through one name while a
            // copy exists, and the two sentinel assignments give different logs
            if pr.writes_after_copy && logs.len() == 2 && logs[0] != logs[1] {
                cx.nontrivial(vcore::util::fnv_str(&format!("{:?}/{}/{}", u.fields, d.shape.name(), pr.kind)));
            }
            let mut h = 0u64;
            for l in &logs {
                h = vcore::util::mix(h, vcore::util::fnv_str(l));
            }
            cx.outcome(h);
            if i == 3 {
                cx.sample(u.case_json(i, None));
            }
        }
        cx.count("ms_model", (us_model / 1000) as u64);
        cx.count("ms_calls", (us_call / 1000) as u64);
        cx.count("ms_unit_total", t0.elapsed().as_millis() as u64);
    }
    fn finish(&self, _cfg: &Cfg, agg: &mut vcore::Aggregate) {
        let n = agg.counter("programs_abandoned");
        if n > 0 {
            agg.machinery_errors.push(format!("{n} programs were not run: their units were abandoned after {MAX_DEATHS} worker deaths each"));
        }
    }
    fn describe(&self, cfg: &Cfg, unit: usize, sub: u64) -> Value {
        if unit == layout_units(cfg) + perm::field_sets(perm_alpha(cfg)).len() {
            return nan::describe(sub as usize);
        }
        let Some(u) = build_unit(cfg, unit) else { return json!({"unit": unit}) };
        if sub == SUB_SETUP || sub == BATCH {
            return json!({"phase": "batch compile", "layout": u.fields, "program": print_program(&u.batch())});
        }
        let i = (sub >> 8) as usize;
        if i >= u.progs.len() {
            return json!({"unit": unit, "sub": sub});
        }
        let low = sub & 0xFF;
        let mut v = u.case_json(i, if low >= GETFN { None } else { Some(low == 1) });
        if low == SINGLE {
            v["phase"] = json!("single compile");
        } else if low == GETFN {
            v["phase"] = json!("get_function");
        }
        v
    }
    fn matches(&self, f: &Finding, v: &Violation) -> bool {
        match f.matcher.as_str() {
            // an anonymous record type written twice (parameter and return
            // type) does not unify with itself
            "anon_record_type_written_twice" => {
                v.class == "rejected"
                    && v.case["shape"] == "anon"
                    && v.case["kind"] == "identity"
                    && v.observed.as_str().is_some_and(|s| s.contains("mismatched types") && s.contains("expected `{") && s.contains("found `{"))
            }
            // `!=` on a zero-sized value is true
            "ne_on_zero_sized_value" => {
                let all_zero_sized = v.case["layout"].as_array().is_some_and(|a| !a.is_empty() && a.iter().all(|f| f == "()" || f == "Z"));
                let record = ["named", "generic", "generic-rev", "anon"].iter().any(|s| v.case["shape"] == *s);
                let split = |x: &Value| -> Vec<String> {
                    x["log"].as_str().unwrap_or("").trim_matches(['[', ']']).split(", ").map(String::from).collect()
                };
                let (e, o) = (split(&v.expected), split(&v.observed));
                v.class == "log-mismatch"
                    && v.case["kind"] == "equality"
                    && all_zero_sized
                    && record
                    && e.len() == o.len()
                    && e.iter().zip(&o).all(|(e, o)| e == o || (e == "Bool(false)" && o == "Bool(true)"))
                    && v.expected["value"] == v.observed["value"]
            }
            // field write on a zero-sized record with a droppable zero-sized field
            "zero_sized_record_field_write_ice" => {
                let layout_ok = v.case["layout"]
                    .as_array()
                    .is_some_and(|a| a.iter().all(|f| f == "()" || f == "Z") && a.iter().any(|f| f == "Z"));
                let prog = v.case["program"].as_str().unwrap_or("");
                let writes_field = (0..4).any(|k| prog.contains(&format!(".f{k} = ")));
                v.class == "compile-panic"
                    && layout_ok
                    && writes_field
                    && v.observed.as_str().is_some_and(|s| s.contains("did not find Var") && s.contains("src/codegen/mod.rs"))
            }
            _ => false,
        }
    }
    fn meta(&self, cfg: &Cfg) -> Meta {
        let segs: Vec<Value> = segments(cfg)
            .iter()
            .map(|s| {
                json!({
                    "classes": FULL[..s.alpha].iter().map(|f| f.name()).collect::<Vec<_>>(),
                    "fields": s.len,
                    "layouts": s.units(),
                    "shapes": s.shapes.iter().map(|x| x.name()).collect::<Vec<_>>(),
                    "slice": if s.modulus == 1 { json!("all") } else { json!(format!("layout index % {} == {} (VERIF_SEED)", s.modulus, s.residue)) },
                })
            })
            .collect();
        Meta {
            rule: "every layout (sequence of field classes) as named / generic / anonymous record, payload of each variant of 1-3 variant enums, of a generic enum and of Option / Result / Verdict; per type the fixed program family (construct, copy by let / assignment / argument / return / outer record / Some / list element / match binding / ?, then a write through one name, every component of every name emitted; == and != with exactly one or no differing component; guarded matches with _ arms; lists pushed/swapped through one copy and read through another, push inside for) on both sentinel assignments; non-trivial = a program that writes through one name while a copy exists and whose log differs between the two sentinel assignments".into(),
            assumptions: vec![
                "reference interpreter c00ref: value semantics for everything except lists, structural ==".into(),
                "x86-64 Cranelift backend".into(),
                "balance of the zero-sized tracked type Z is not checked here (C03)".into(),
            ],
            bounds: json!({"segments": segs, "inputs": "p in {false, true}: which sentinel set is the original and which the written one"}),
            states_are: "distinct generated programs (layout x type shape x program kind)".into(),
            transitions_are: "calls of a compiled program on one input; host-call log, result and drop ledger compared with the reference".into(),
        }
    }
}

fn first_diff(a: &[Ev], b: &[Ev]) -> String {
    for i in 0..a.len().max(b.len()) {
        if a.get(i) != b.get(i) {
            return format!("position {i}: expected {:?}, observed {:?}", a.get(i), b.get(i));
        }
    }
    "none".into()
}

pub fn run() {
    // triage aid: C02_DUMP_UNIT=<n> [VERIF_TIER=thorough] prints the batch of a unit
    if let Ok(u) = std::env::var("C02_DUMP_UNIT") {
        let tier = if std::env::var("VERIF_TIER").as_deref() == Ok("thorough") { Tier::Thorough } else { Tier::Quick };
        let cfg = Cfg { tier, seed: 0 };
        if let Some(ud) = build_unit(&cfg, u.parse().unwrap_or(0)) {
            for (i, (di, p)) in ud.progs.iter().enumerate() {
                println!("// ---- {i}: {} / {}", ud.descs[*di].shape.name(), p.kind);
            }
            println!("{}", print_program(&ud.batch()));
        }
        return;
    }
    vcore::main(&C02)
}
