//! Generator of C02: field classes with sentinel values, layouts, the type
//! shapes built from a layout and the fixed program family per type.
//!
//! Everything is a pure function of small integers (layout index, shape,
//! program index) so that a case can be rebuilt from `(unit, sub)` alone.

use c00ref::gen_expr::{bin, blk, var};
use c00ref::*;

// ------------------------------------------------------------ field classes

/// size/alignment classes of DESIGN `layouts(n)`
#[derive(Clone, Copy, PartialEq, Eq, Debug, Hash)]
pub enum F {
    U8,
    U32,
    U64,
    Unit,
    Str,
    Tr,
    U16,
    F32,
    Bool,
    Char,
    ListU8,
    Z,
    K,
    Nest,
    OptU16,
    OptStr,
}

/// the first six are the quick alphabet
pub const FULL: [F; 16] = [
    F::U8,
    F::U32,
    F::U64,
    F::Unit,
    F::Str,
    F::Tr,
    F::U16,
    F::F32,
    F::Bool,
    F::Char,
    F::ListU8,
    F::Z,
    F::K,
    F::Nest,
    F::OptU16,
    F::OptStr,
];
pub const QUICK: usize = 6;

pub(crate) fn il(t: IntTy, v: i128) -> E {
    E::Int(v, Some(t), t)
}
pub(crate) fn u8l(v: i128) -> E {
    il(IntTy::U8, v)
}
pub(crate) fn host(n: &str, a: Vec<E>) -> E {
    E::Host(n.into(), a)
}
pub(crate) fn st(e: E) -> S {
    S::Expr(e)
}
pub(crate) fn fld(x: E, f: &str) -> E {
    E::Field(Box::new(x), f.into())
}
pub(crate) fn ife(c: E, t: E, f: E) -> E {
    E::If(Box::new(c), blk(vec![], Some(t)), Some(blk(vec![], Some(f))))
}
pub(crate) fn meth(r: E, m: &str, a: Vec<E>) -> E {
    E::Method(Box::new(r), m.into(), a)
}
pub(crate) fn some(x: E) -> E {
    E::Ctor("Option".into(), "Some".into(), vec![x])
}
pub(crate) fn none() -> E {
    E::Ctor("Option".into(), "None".into(), vec![])
}
pub(crate) fn path_expr(path: &[String]) -> E {
    let mut e = var(&path[0]);
    for f in &path[1..] {
        e = fld(e, f);
    }
    e
}
pub(crate) fn emit_u8(v: i128) -> S {
    st(host("emit_u8", vec![u8l(v)]))
}
pub(crate) fn arm(variant: Option<&str>, binds: Vec<String>, guard: Option<E>, body: Vec<S>) -> Arm {
    Arm { variant: variant.map(String::from), binds, guard, body: blk(body, None) }
}
pub fn fname(k: usize) -> String {
    format!("f{k}")
}

#[derive(Clone, Copy, Debug, PartialEq, Eq)]
pub enum Mut {
    Assign,
    NestA,
    NestB,
    Push,
    Swap,
}

impl F {
    pub fn name(self) -> &'static str {
        match self {
            F::U8 => "u8",
            F::U32 => "u32",
            F::U64 => "u64",
            F::Unit => "()",
            F::Str => "String",
            F::Tr => "Tr",
            F::U16 => "u16",
            F::F32 => "f32",
            F::Bool => "bool",
            F::Char => "char",
            F::ListU8 => "List[u8]",
            F::Z => "Z",
            F::K => "K",
            F::Nest => "Nst",
            F::OptU16 => "Option[u16]",
            F::OptStr => "Option[String]",
        }
    }
    pub fn ty(self) -> Ty {
        match self {
            F::U8 => Ty::Int(IntTy::U8),
            F::U32 => Ty::Int(IntTy::U32),
            F::U64 => Ty::Int(IntTy::U64),
            F::Unit => Ty::Unit,
            F::Str => Ty::Str,
            F::Tr => Ty::Tr,
            F::U16 => Ty::Int(IntTy::U16),
            F::F32 => Ty::F32,
            F::Bool => Ty::Bool,
            F::Char => Ty::Char,
            F::ListU8 => Ty::List(Box::new(Ty::Int(IntTy::U8))),
            F::Z => Ty::Z,
            F::K => Ty::K,
            F::Nest => Ty::Named("Nst".into(), vec![]),
            F::OptU16 => Ty::Opt(Box::new(Ty::Int(IntTy::U16))),
            F::OptStr => Ty::Opt(Box::new(Ty::Str)),
        }
    }
    fn nest_part(k: usize, set: usize, which: usize) -> E {
        let k = k as i128;
        match (which, set) {
            (0, 0) => u8l(0x21 + k),
            (0, _) => u8l(0xA9 + k),
            (_, 0) => il(IntTy::U32, 0xC0DE_0000 + k),
            (_, _) => il(IntTy::U32, 0x0BAD_F00D - k),
        }
    }
    /// sentinel value of field position `k` in set 0 (A) or 1 (B): distinct
    /// per position and per set, every byte of a wide value distinct
    pub fn sent(self, k: usize, set: usize) -> E {
        let ki = k as i128;
        let b = set == 1;
        match self {
            F::U8 => u8l(if !b { 0x11 + 0x11 * ki } else { 0x95 + 0x11 * ki }),
            F::U16 => il(IntTy::U16, if !b { 0x1A2B + 0x0101 * ki } else { 0xE5D4 - 0x0101 * ki }),
            F::U32 => il(IntTy::U32, if !b { 0xA1B2_C3D4 + 0x0101_0101 * ki } else { 0x5E4D_3C2B - 0x0101_0101 * ki }),
            F::U64 => il(
                IntTy::U64,
                if !b {
                    0x0102_0304_0506_0708 + 0x1010_1010_1010_1010 * ki
                } else {
                    0x71E2_D3C4_B5A6_9788 - 0x1010_1010_1010_1010 * ki
                },
            ),
            F::F32 => {
                let s = if !b { format!("{}.5", k + 1) } else { format!("{}.25", 1024 + k) };
                E::Float(s, Some(Ty::F32), Ty::F32)
            }
            F::Bool => E::Bool((k % 2 == 0) != b),
            F::Char => E::Char(if !b { (b'a' + k as u8) as char } else { char::from_u32(0x100 + k as u32).unwrap() }),
            F::Unit => E::Unit,
            F::Str => E::Str(if !b { format!("a{k}") } else { format!("B{k}-a-longer-string-{k}{k}") }),
            F::ListU8 => {
                if !b {
                    E::ListLit(vec![u8l(ki + 1), u8l(ki + 2)])
                } else {
                    E::ListLit(vec![u8l(ki + 101), u8l(ki + 102), u8l(ki + 103)])
                }
            }
            F::Tr => host("mk", vec![E::Int(if !b { 100 + ki } else { 200 + ki }, None, IntTy::U64)]),
            F::Z => host("mkz", vec![]),
            F::K => host("mkk", vec![E::Int(if !b { 1000 + ki } else { 2000 + ki }, None, IntTy::U32)]),
            F::Nest => E::Rec(
                Some("Nst".into()),
                vec![("a".into(), F::nest_part(k, set, 0)), ("b".into(), F::nest_part(k, set, 1))],
            ),
            F::OptU16 => {
                if !b {
                    some(il(IntTy::U16, 0x2345 + ki))
                } else if k % 2 == 0 {
                    none()
                } else {
                    some(il(IntTy::U16, 0xBCDE + ki))
                }
            }
            F::OptStr => {
                if !b {
                    some(E::Str(format!("oa{k}")))
                } else if k % 2 == 1 {
                    none()
                } else {
                    some(E::Str(format!("ob{k}-longer")))
                }
            }
        }
    }
    /// statements passing the value of expression `x` of this class to the host
    pub fn emit(self, x: E, c: &mut usize) -> Vec<S> {
        let one = |f: &str, x: E| vec![st(host(f, vec![x]))];
        match self {
            F::U8 => one("emit_u8", x),
            F::U16 => one("emit_u16", x),
            F::U32 => one("emit_u32", x),
            F::U64 => one("emit_u64", x),
            F::F32 => one("emit_f32", x),
            F::Bool => one("emit_bool", x),
            F::Char => one("emit_char", x),
            F::Unit => one("emit_unit", x),
            F::Str => one("emit_str", x),
            F::Tr => one("emit_tr", x),
            F::K => one("emit_k", x),
            F::Z => one("emit_bool", bin(BinOp::Eq, x, host("mkz", vec![]))),
            F::ListU8 => {
                *c += 1;
                let v = format!("v{c}");
                vec![
                    st(host("emit_u64", vec![meth(x.clone(), "len", vec![])])),
                    st(E::For(v.clone(), Box::new(x), blk(vec![st(host("emit_u8", vec![var(&v)]))], None))),
                ]
            }
            F::Nest => vec![
                st(host("emit_u8", vec![fld(x.clone(), "a")])),
                st(host("emit_u32", vec![fld(x, "b")])),
            ],
            F::OptU16 | F::OptStr => {
                *c += 1;
                let v = format!("v{c}");
                let f = if self == F::OptU16 { "emit_u16" } else { "emit_str" };
                vec![st(E::Match(
                    Box::new(x),
                    vec![
                        arm(Some("Some"), vec![v.clone()], None, vec![st(host(f, vec![var(&v)]))]),
                        arm(Some("None"), vec![], None, vec![emit_u8(255)]),
                    ],
                ))]
            }
        }
    }
    /// ways to change a field of this class in place through a record
    pub fn muts(self) -> Vec<Mut> {
        match self {
            F::Nest => vec![Mut::Assign, Mut::NestA, Mut::NestB],
            F::ListU8 => vec![Mut::Assign, Mut::Push, Mut::Swap],
            _ => vec![Mut::Assign],
        }
    }
}

// ------------------------------------------------------------ layouts

/// number of layouts of exactly `len` fields over the first `alpha` classes
pub fn layouts_of_len(alpha: usize, len: usize) -> usize {
    alpha.pow(len as u32)
}

/// the `idx`-th layout of exactly `len` fields (lexicographic, last fastest)
pub fn layout(alpha: usize, len: usize, idx: usize) -> Vec<F> {
    let radices = vec![alpha as u64; len];
    vcore::util::decode(idx as u64, &radices).into_iter().map(|d| FULL[d as usize]).collect()
}

// ------------------------------------------------------------ type shapes

#[derive(Clone, Copy, PartialEq, Eq, Debug, Hash)]
pub enum Shape {
    Named,
    Generic,
    GenericRev,
    Anon,
    Enum1,
    Enum2,
    Enum3A,
    Enum3B,
    /// the tested variant next to a variant that carries a String (so that the enum gets
    /// generated clone / drop / eq helpers even when the tested payload is plain data)
    EnumStr,
    GenEnum,
    Opt,
    ResOk,
    ResErr,
    VerAcc,
    VerRej,
    /// anonymous records whose literals and written-out types list the
    /// fields in different orders (own program family, see perm.rs)
    AnonPerm,
}

pub const ALL_SHAPES: [Shape; 15] = [
    Shape::Named,
    Shape::Generic,
    Shape::GenericRev,
    Shape::Anon,
    Shape::Enum1,
    Shape::Enum2,
    Shape::Enum3A,
    Shape::Enum3B,
    Shape::EnumStr,
    Shape::GenEnum,
    Shape::Opt,
    Shape::ResOk,
    Shape::ResErr,
    Shape::VerAcc,
    Shape::VerRej,
];

impl Shape {
    pub fn name(self) -> &'static str {
        match self {
            Shape::Named => "named",
            Shape::Generic => "generic",
            Shape::GenericRev => "generic-rev",
            Shape::Anon => "anon",
            Shape::Enum1 => "enum1",
            Shape::Enum2 => "enum2",
            Shape::Enum3A => "enum3-first",
            Shape::Enum3B => "enum3-last",
            Shape::EnumStr => "enum-next-to-string-variant",
            Shape::GenEnum => "generic-enum",
            Shape::Opt => "option",
            Shape::ResOk => "result-ok",
            Shape::ResErr => "result-err",
            Shape::VerAcc => "verdict-accept",
            Shape::VerRej => "verdict-reject",
            Shape::AnonPerm => "anon-permuted",
        }
    }
    /// the full program family or the reduced one (wrappers around a record
    /// that already gets the full family as a named record)
    pub fn full_family(self) -> bool {
        !matches!(self, Shape::GenericRev | Shape::ResErr | Shape::VerAcc | Shape::Enum3A)
    }
}

#[derive(Clone, Debug)]
pub struct Other {
    pub variant: String,
    pub args: Vec<E>,
}

#[derive(Clone, Debug)]
pub enum Access {
    /// components are the fields `x.f0`, `x.f1`, ...
    Record { name: Option<String> },
    /// components are bound by matching on `variant`
    Variant {
        path: String,
        variant: String,
        /// Some(R): the single payload is the named record R holding all components
        rec_payload: Option<String>,
        /// payload position j holds component order[j]
        order: Vec<usize>,
        /// the other variants of the type, in declaration order
        others: Vec<Other>,
    },
}

#[derive(Clone, Debug)]
pub struct TypeDesc {
    pub shape: Shape,
    pub fields: Vec<F>,
    pub ty: Ty,
    pub records: Vec<RecDecl>,
    pub enums: Vec<EnumDecl>,
    pub access: Access,
    /// write the type on `let`s of the aggregate
    pub annotate: bool,
}

/// positions of the fields that become type parameters A, B
pub fn generic_positions(fields: &[F]) -> (usize, Option<usize>) {
    if fields.len() < 2 {
        return (0, None);
    }
    for i in 0..fields.len() {
        for j in i + 1..fields.len() {
            if fields[i] != fields[j] {
                return (i, Some(j));
            }
        }
    }
    (0, Some(1))
}

fn nst_decl() -> RecDecl {
    RecDecl { name: "Nst".into(), tparams: vec![], fields: vec![("a".into(), "u8".into()), ("b".into(), "u32".into())] }
}

fn named_decl(fields: &[F]) -> RecDecl {
    RecDecl {
        name: "R".into(),
        tparams: vec![],
        fields: fields.iter().enumerate().map(|(k, f)| (fname(k), f.ty().print())).collect(),
    }
}

impl TypeDesc {
    pub fn new(shape: Shape, fields: &[F]) -> Option<TypeDesc> {
        if shape == Shape::AnonPerm {
            return None; // built by perm.rs
        }
        let n = fields.len();
        let tys: Vec<String> = fields.iter().map(|f| f.ty().print()).collect();
        let mut records = vec![];
        let mut enums = vec![];
        if fields.contains(&F::Nest) {
            records.push(nst_decl());
        }
        let (gi, gj) = generic_positions(fields);
        // field/payload types with the generic positions replaced by parameters
        let generic_tys = |rev: bool| -> (Vec<String>, Vec<String>, Vec<Ty>) {
            let mut t = tys.clone();
            match gj {
                None => {
                    t[gi] = "A".into();
                    (t, vec!["A".into()], vec![fields[gi].ty()])
                }
                Some(gj) => {
                    if rev {
                        t[gi] = "B".into();
                        t[gj] = "A".into();
                        (t, vec!["A".into(), "B".into()], vec![fields[gj].ty(), fields[gi].ty()])
                    } else {
                        t[gi] = "A".into();
                        t[gj] = "B".into();
                        (t, vec!["A".into(), "B".into()], vec![fields[gi].ty(), fields[gj].ty()])
                    }
                }
            }
        };
        // payload of the wrappers Option/Result/Verdict: the field itself for
        // one-field layouts, else the named record
        let wrap_payload = |records: &mut Vec<RecDecl>| -> (Ty, Option<String>) {
            if n == 1 {
                (fields[0].ty(), None)
            } else {
                records.push(named_decl(fields));
                (Ty::Named("R".into(), vec![]), Some("R".into()))
            }
        };
        let ident: Vec<usize> = (0..n).collect();
        let u8t = Ty::Int(IntTy::U8);
        let (ty, access, annotate) = match shape {
            Shape::AnonPerm => unreachable!(),
            Shape::Named => {
                records.push(named_decl(fields));
                (Ty::Named("R".into(), vec![]), Access::Record { name: Some("R".into()) }, false)
            }
            Shape::Generic | Shape::GenericRev => {
                let rev = shape == Shape::GenericRev;
                if rev && gj.is_none() {
                    return None;
                }
                let (t, tparams, args) = generic_tys(rev);
                let name = if rev { "H" } else { "G" };
                records.push(RecDecl {
                    name: name.into(),
                    tparams,
                    fields: t.into_iter().enumerate().map(|(k, t)| (fname(k), t)).collect(),
                });
                (Ty::Named(name.into(), args), Access::Record { name: Some(name.into()) }, true)
            }
            Shape::Anon => (
                Ty::Anon(fields.iter().enumerate().map(|(k, f)| (fname(k), f.ty())).collect()),
                Access::Record { name: None },
                false,
            ),
            Shape::Enum1 => {
                enums.push(EnumDecl { name: "E1".into(), tparams: vec![], variants: vec![("A".into(), tys.clone())] });
                (
                    Ty::Named("E1".into(), vec![]),
                    Access::Variant { path: "E1".into(), variant: "A".into(), rec_payload: None, order: ident, others: vec![] },
                    false,
                )
            }
            Shape::Enum2 => {
                enums.push(EnumDecl {
                    name: "E2".into(),
                    tparams: vec![],
                    variants: vec![("N".into(), vec![]), ("A".into(), tys.clone())],
                });
                (
                    Ty::Named("E2".into(), vec![]),
                    Access::Variant {
                        path: "E2".into(),
                        variant: "A".into(),
                        rec_payload: None,
                        order: ident,
                        others: vec![Other { variant: "N".into(), args: vec![] }],
                    },
                    false,
                )
            }
            Shape::EnumStr => {
                enums.push(EnumDecl {
                    name: "ES".into(),
                    tparams: vec![],
                    variants: vec![("S".into(), vec!["String".into()]), ("A".into(), tys.clone()), ("N".into(), vec![])],
                });
                (
                    Ty::Named("ES".into(), vec![]),
                    Access::Variant {
                        path: "ES".into(),
                        variant: "A".into(),
                        rec_payload: None,
                        order: ident,
                        others: vec![Other { variant: "S".into(), args: vec![E::Str("other".into())] }, Other { variant: "N".into(), args: vec![] }],
                    },
                    false,
                )
            }
            Shape::Enum3A | Shape::Enum3B => {
                let rev_tys: Vec<String> = tys.iter().rev().cloned().collect();
                enums.push(EnumDecl {
                    name: "E3".into(),
                    tparams: vec![],
                    variants: vec![("A".into(), tys.clone()), ("N".into(), vec![]), ("B".into(), rev_tys)],
                });
                let rev_order: Vec<usize> = (0..n).rev().collect();
                let a_args: Vec<E> = (0..n).map(|k| fields[k].sent(k, 0)).collect();
                let b_args: Vec<E> = rev_order.iter().map(|&k| fields[k].sent(k, 0)).collect();
                let (variant, order, others) = if shape == Shape::Enum3A {
                    ("A", ident, vec![Other { variant: "N".into(), args: vec![] }, Other { variant: "B".into(), args: b_args }])
                } else {
                    ("B", rev_order, vec![Other { variant: "A".into(), args: a_args }, Other { variant: "N".into(), args: vec![] }])
                };
                (
                    Ty::Named("E3".into(), vec![]),
                    Access::Variant { path: "E3".into(), variant: variant.into(), rec_payload: None, order, others },
                    false,
                )
            }
            Shape::GenEnum => {
                let (t, tparams, args) = generic_tys(false);
                enums.push(EnumDecl { name: "GE".into(), tparams, variants: vec![("N".into(), vec![]), ("V".into(), t)] });
                (
                    Ty::Named("GE".into(), args),
                    Access::Variant {
                        path: "GE".into(),
                        variant: "V".into(),
                        rec_payload: None,
                        order: ident,
                        others: vec![Other { variant: "N".into(), args: vec![] }],
                    },
                    true,
                )
            }
            Shape::Opt => {
                let (p, rp) = wrap_payload(&mut records);
                (
                    Ty::Opt(Box::new(p)),
                    Access::Variant {
                        path: "Option".into(),
                        variant: "Some".into(),
                        rec_payload: rp,
                        order: vec![0],
                        others: vec![Other { variant: "None".into(), args: vec![] }],
                    },
                    true,
                )
            }
            Shape::ResOk | Shape::ResErr | Shape::VerAcc | Shape::VerRej => {
                let (p, rp) = wrap_payload(&mut records);
                let first = matches!(shape, Shape::ResOk | Shape::VerAcc);
                let is_res = matches!(shape, Shape::ResOk | Shape::ResErr);
                let (path, v0, v1) = if is_res { ("Result", "Ok", "Err") } else { ("Verdict", "Accept", "Reject") };
                let (a, b) = if first { (p, u8t.clone()) } else { (u8t.clone(), p) };
                let ty = if is_res { Ty::Result(Box::new(a), Box::new(b)) } else { Ty::Verdict(Box::new(a), Box::new(b)) };
                let (variant, other) = if first { (v0, v1) } else { (v1, v0) };
                (
                    ty,
                    Access::Variant {
                        path: path.into(),
                        variant: variant.into(),
                        rec_payload: rp,
                        order: vec![0],
                        others: vec![Other { variant: other.into(), args: vec![u8l(7)] }],
                    },
                    true,
                )
            }
        };
        Some(TypeDesc { shape, fields: fields.to_vec(), ty, records, enums, access, annotate })
    }

    pub fn is_record(&self) -> bool {
        matches!(self.access, Access::Record { .. })
    }

    /// construct the aggregate from one expression per component; record
    /// literals are written starting at field `rot` (written order rotated)
    pub fn cons(&self, vals: &[E], rot: usize) -> E {
        let n = vals.len();
        let rec = |name: Option<String>| {
            let fs: Vec<(String, E)> = (0..n).map(|i| (rot + i) % n).map(|k| (fname(k), vals[k].clone())).collect();
            E::Rec(name, fs)
        };
        match &self.access {
            Access::Record { name } => rec(name.clone()),
            Access::Variant { path, variant, rec_payload, order, .. } => {
                let args = match rec_payload {
                    Some(r) => vec![rec(Some(r.clone()))],
                    None => order.iter().map(|&k| vals[k].clone()).collect(),
                };
                E::Ctor(path.clone(), variant.clone(), args)
            }
        }
    }
}

// ------------------------------------------------------------ programs

#[derive(Clone, Copy, Debug, PartialEq, Eq)]
pub enum Ret {
    U32,
    OptU32,
}

#[derive(Clone, Debug)]
pub struct Prog {
    pub kind: String,
    /// helpers first, the entry function last
    pub funcs: Vec<Func>,
    pub entry: String,
    pub ret: Ret,
    /// compile on its own (known to be rejected on the pinned tree)
    pub solo: bool,
    /// something is written through one name after a copy exists
    pub writes_after_copy: bool,
}

struct B<'a> {
    d: &'a TypeDesc,
    c: usize,
}

pub(crate) fn p() -> E {
    var("p")
}

impl<'a> B<'a> {
    fn n(&self) -> usize {
        self.d.fields.len()
    }
    fn full_mask(&self) -> u32 {
        (1u32 << self.n()) - 1
    }
    fn sv(&self, k: usize, set: usize) -> E {
        self.d.fields[k].sent(k, set)
    }
    /// value of component k: the original set (selected by p) or the other one
    fn val(&self, k: usize, alt: bool) -> E {
        ife(p(), self.sv(k, alt as usize), self.sv(k, 1 - alt as usize))
    }
    /// the aggregate with the components in `mask` taken from the other set
    fn cons_mask(&self, mask: u32, rot: usize) -> E {
        let side = |flip: usize| -> E {
            let vals: Vec<E> = (0..self.n()).map(|k| self.sv(k, ((mask >> k) as usize & 1) ^ flip)).collect();
            self.d.cons(&vals, rot)
        };
        ife(p(), side(0), side(1))
    }
    fn let_cons(&self, name: &str, mask: u32) -> S {
        S::Let(name.into(), if self.d.annotate { Some(self.d.ty.clone()) } else { None }, self.cons_mask(mask, 0))
    }
    fn fresh(&mut self) -> String {
        self.c += 1;
        format!("v{}", self.c)
    }
    /// binders of the main variant and the expression reading each component
    fn bind_main(&mut self) -> (Vec<String>, Vec<E>) {
        let Access::Variant { rec_payload, order, .. } = &self.d.access else { unreachable!() };
        let order = order.clone();
        let rec_payload = rec_payload.clone();
        match rec_payload {
            Some(_) => {
                let v = self.fresh();
                let comps = (0..self.n()).map(|k| fld(var(&v), &fname(k))).collect();
                (vec![v], comps)
            }
            None => {
                let binds: Vec<String> = order.iter().map(|_| self.fresh()).collect();
                let mut comps = vec![E::Unit; self.n()];
                for (j, &k) in order.iter().enumerate() {
                    comps[k] = var(&binds[j]);
                }
                (binds, comps)
            }
        }
    }
    fn other_arms(&mut self) -> Vec<Arm> {
        let Access::Variant { others, .. } = &self.d.access else { unreachable!() };
        let others = others.clone();
        others
            .iter()
            .enumerate()
            .map(|(i, o)| {
                let binds = o.args.iter().map(|_| self.fresh()).collect();
                arm(Some(&o.variant), binds, None, vec![emit_u8(240 + i as i128)])
            })
            .collect()
    }
    /// pass every component of `x` to the host
    fn emit(&mut self, x: E) -> Vec<S> {
        if self.d.is_record() {
            let mut out = vec![];
            for (k, f) in self.d.fields.clone().into_iter().enumerate() {
                out.extend(f.emit(fld(x.clone(), &fname(k)), &mut self.c));
            }
            out
        } else {
            let Access::Variant { variant, .. } = &self.d.access else { unreachable!() };
            let variant = variant.clone();
            let (binds, comps) = self.bind_main();
            let mut body = vec![];
            for (k, f) in self.d.fields.clone().into_iter().enumerate() {
                body.extend(f.emit(comps[k].clone(), &mut self.c));
            }
            let mut arms = vec![arm(Some(&variant), binds, None, body)];
            arms.extend(self.other_arms());
            vec![st(E::Match(Box::new(x), arms))]
        }
    }
    fn base(path: &[&str]) -> Vec<String> {
        path.iter().map(|s| s.to_string()).collect()
    }
    /// change component k through the name `base` (a variable or field path)
    fn mutate(&mut self, base: &[&str], k: usize, m: Mut) -> Vec<S> {
        let mut path = Self::base(base);
        if !self.d.is_record() {
            return vec![st(E::Assign(path, Box::new(self.cons_mask(1 << k, 0))))];
        }
        path.push(fname(k));
        match m {
            Mut::Assign => vec![st(E::Assign(path, Box::new(self.val(k, true))))],
            Mut::NestA | Mut::NestB => {
                let w = (m == Mut::NestB) as usize;
                path.push(if w == 0 { "a".into() } else { "b".into() });
                vec![st(E::Assign(path, Box::new(ife(p(), F::nest_part(k, 1, w), F::nest_part(k, 0, w)))))]
            }
            Mut::Push => vec![st(meth(path_expr(&path), "push", vec![u8l(77)]))],
            Mut::Swap => vec![st(meth(path_expr(&path), "swap", vec![il(IntTy::U64, 0), il(IntTy::U64, 1)]))],
        }
    }
    /// change every component through `base`, one after the other
    fn mutate_all(&mut self, base: &[&str]) -> Vec<S> {
        let mut out = vec![];
        if !self.d.is_record() {
            out.extend(self.mutate(base, 0, Mut::Assign));
            if self.n() > 1 {
                let full = self.full_mask();
                out.push(st(E::Assign(Self::base(base), Box::new(self.cons_mask(full, 0)))));
            }
            return out;
        }
        for k in 0..self.n() {
            if self.d.fields[k] == F::ListU8 {
                // shared effect first, then the handle is replaced
                out.extend(self.mutate(base, k, Mut::Push));
            }
        }
        for k in 0..self.n() {
            out.extend(self.mutate(base, k, Mut::Assign));
        }
        out
    }
}

pub(crate) fn func(name: String, params: Vec<(&str, Ty)>, ret: Ty, stmts: Vec<S>, tail: Option<E>) -> Func {
    Func {
        name,
        params: params.into_iter().map(|(n, t)| (n.to_string(), t)).collect(),
        ret,
        body: blk(stmts, tail),
        filtermap: false,
    }
}

pub(crate) fn u32t() -> Ty {
    Ty::Int(IntTy::U32)
}

/// The fixed program family of one type. `first` is the index of the first
/// program inside its batch (function names are `q<idx>_f`, `q<idx>_h`).
pub fn programs(d: &TypeDesc, first: usize) -> Vec<Prog> {
    let mut out: Vec<Prog> = vec![];
    let n = d.fields.len();
    let full = d.shape.full_family();
    let t = d.ty.clone();
    macro_rules! add {
        ($kind:expr, $wac:expr, $ret:expr, $solo:expr, |$b:ident, $pre:ident| $build:block) => {{
            let idx = first + out.len();
            let $pre = format!("q{idx}_");
            #[allow(unused_mut)]
            let mut $b = B { d, c: 0 };
            let (helpers, stmts, tail): (Vec<Func>, Vec<S>, E) = $build;
            let ret_ty = match $ret {
                Ret::U32 => u32t(),
                Ret::OptU32 => Ty::Opt(Box::new(u32t())),
            };
            let entry = format!("{}f", $pre);
            let mut funcs = helpers;
            funcs.push(func(entry.clone(), vec![("p", Ty::Bool)], ret_ty, stmts, Some(tail)));
            out.push(Prog { kind: $kind, funcs, entry, ret: $ret, solo: $solo, writes_after_copy: $wac });
        }};
    }
    let code = |c: i128| il(IntTy::U32, c);

    // construct: every component is where the constructor put it
    add!("construct".into(), false, Ret::U32, false, |b, _pre| {
        let mut s = vec![b.let_cons("a", 0)];
        s.extend(b.emit(var("a")));
        (vec![], s, code(1))
    });
    let has_rec_literal = match &d.access {
        Access::Record { .. } => true,
        Access::Variant { rec_payload, .. } => rec_payload.is_some(),
    };
    if full && n > 1 && has_rec_literal {
        // record literals written in other orders than declared
        add!("construct-rotated".into(), false, Ret::U32, false, |b, _pre| {
            let mut s = vec![S::Let("a".into(), if d.annotate { Some(t.clone()) } else { None }, b.cons_mask(0, 1))];
            s.extend(b.emit(var("a")));
            // assignment from a literal in yet another written order
            s.push(st(E::Assign(vec!["a".into()], Box::new(b.cons_mask(b.full_mask(), n - 1)))));
            s.extend(b.emit(var("a")));
            (vec![], s, code(2))
        });
    }
    // copy by let, then one component written through one name
    for k in 0..n {
        let ms = if d.is_record() { d.fields[k].muts() } else { vec![Mut::Assign] };
        for m in ms {
            for dir in 0..2 {
                if !full && dir == 1 {
                    continue;
                }
                let through = if dir == 0 { "b" } else { "a" };
                add!(format!("let-copy write f{k} {m:?} through {}", if dir == 0 { "copy" } else { "original" }), true, Ret::U32, false, |b, _pre| {
                    let mut s = vec![b.let_cons("a", 0), S::Let("b".into(), None, var("a"))];
                    s.extend(b.mutate(&[through], k, m));
                    s.extend(b.emit(var("a")));
                    s.extend(b.emit(var("b")));
                    (vec![], s, code(3))
                });
            }
        }
    }
    // copy by assignment over an existing value
    add!("assign-copy".into(), true, Ret::U32, false, |b, _pre| {
        let fm = b.full_mask();
        let mut s = vec![b.let_cons("a", 0), b.let_cons("b", fm)];
        s.push(st(E::Assign(vec!["b".into()], Box::new(var("a")))));
        s.extend(b.mutate_all(&["b"]));
        s.extend(b.emit(var("a")));
        s.extend(b.emit(var("b")));
        s.push(st(E::Assign(vec!["a".into()], Box::new(var("b")))));
        s.extend(b.mutate(&["b"], 0, Mut::Assign));
        s.extend(b.emit(var("a")));
        (vec![], s, code(4))
    });
    // copy by argument
    add!("argument".into(), true, Ret::U32, false, |b, pre| {
        let h = format!("{pre}h");
        let mut hs = b.mutate_all(&["x"]);
        hs.extend(b.emit(var("x")));
        let helper = func(h.clone(), vec![("x", t.clone()), ("p", Ty::Bool)], u32t(), hs, Some(code(50)));
        let mut s = vec![b.let_cons("a", 0)];
        s.push(S::Let("r".into(), None, E::Call(h, vec![var("a"), p()])));
        s.extend(b.emit(var("a")));
        (vec![helper], s, var("r"))
    });
    // copy by return
    add!("return".into(), true, Ret::U32, false, |b, pre| {
        let h = format!("{pre}h");
        let helper = func(h.clone(), vec![("p", Ty::Bool)], t.clone(), vec![b.let_cons("a", 0)], Some(var("a")));
        let mut s = vec![S::Let("b".into(), None, E::Call(h, vec![p()])), S::Let("c".into(), None, var("b"))];
        s.extend(b.mutate_all(&["c"]));
        s.extend(b.emit(var("b")));
        s.extend(b.emit(var("c")));
        (vec![helper], s, code(5))
    });
    if full {
        // through a function and back (for an anonymous record the same type
        // is written twice; that was rejected before fix 3dec341 in /repo)
        add!("identity".into(), true, Ret::U32, false, |b, pre| {
            let h = format!("{pre}h");
            let helper = func(h.clone(), vec![("x", t.clone())], t.clone(), vec![], Some(var("x")));
            let mut s = vec![b.let_cons("a", 0), S::Let("b".into(), None, E::Call(h, vec![var("a")]))];
            s.extend(b.mutate_all(&["b"]));
            s.extend(b.emit(var("a")));
            s.extend(b.emit(var("b")));
            (vec![helper], s, code(6))
        });
    }
    // stored into an outer record, written through the outer path
    add!("outer-record".into(), true, Ret::U32, false, |b, _pre| {
        let outer = E::Rec(None, vec![("pre".into(), u8l(0xEE)), ("inner".into(), var("a")), ("post".into(), u8l(0xDD))]);
        let mut s = vec![b.let_cons("a", 0), S::Let("o".into(), None, outer)];
        s.extend(b.mutate_all(&["o", "inner"]));
        s.extend(b.emit(var("a")));
        s.extend(b.emit(fld(var("o"), "inner")));
        s.push(st(host("emit_u8", vec![fld(var("o"), "pre")])));
        s.push(st(host("emit_u8", vec![fld(var("o"), "post")])));
        // and the other way round
        s.push(st(E::Assign(vec!["a".into()], Box::new(b.cons_mask(0, 0)))));
        s.push(st(E::Assign(vec!["o".into(), "inner".into()], Box::new(var("a")))));
        s.extend(b.mutate(&["a"], n - 1, Mut::Assign));
        s.extend(b.emit(var("a")));
        s.extend(b.emit(fld(var("o"), "inner")));
        (vec![], s, code(7))
    });
    if full {
        // two levels: a.b.c = ..
        add!("nested-outer".into(), true, Ret::U32, false, |b, _pre| {
            let mid = E::Rec(None, vec![("pre".into(), u8l(0xC1)), ("inner".into(), var("a")), ("post".into(), il(IntTy::U64, 0xC2C2_C2C2_C2C2))]);
            let outer = E::Rec(None, vec![("pre".into(), u8l(0xB1)), ("mid".into(), mid), ("post".into(), u8l(0xB2))]);
            let mut s = vec![b.let_cons("a", 0), S::Let("o".into(), None, outer), S::Let("o2".into(), None, var("o"))];
            s.extend(b.mutate_all(&["o", "mid", "inner"]));
            s.extend(b.emit(var("a")));
            s.extend(b.emit(fld(fld(var("o"), "mid"), "inner")));
            s.extend(b.emit(fld(fld(var("o2"), "mid"), "inner")));
            for o in ["o", "o2"] {
                s.push(st(host("emit_u8", vec![fld(var(o), "pre")])));
                s.push(st(host("emit_u8", vec![fld(fld(var(o), "mid"), "pre")])));
                s.push(st(host("emit_u64", vec![fld(fld(var(o), "mid"), "post")])));
                s.push(st(host("emit_u8", vec![fld(var(o), "post")])));
            }
            (vec![], s, code(8))
        });
    }
    // stored into Some(..)
    add!("some".into(), true, Ret::U32, false, |b, _pre| {
        let mut s = vec![b.let_cons("a", 0), S::Let("s".into(), None, some(var("a")))];
        s.extend(b.mutate_all(&["a"]));
        let v = b.fresh();
        let body = b.emit(var(&v));
        s.push(st(E::Match(Box::new(var("s")), vec![arm(Some("Some"), vec![v], None, body), arm(Some("None"), vec![], None, vec![emit_u8(254)])])));
        s.extend(b.emit(var("a")));
        (vec![], s, code(9))
    });
    // stored into a list element
    add!("list-element".into(), true, Ret::U32, false, |b, _pre| {
        let mut s = vec![b.let_cons("a", 0), S::Let("l".into(), None, E::ListLit(vec![var("a"), var("a")]))];
        s.extend(b.mutate_all(&["a"]));
        let v = b.fresh();
        let mut body = b.mutate(&[v.as_str()], 0, Mut::Assign);
        body.extend(b.emit(var(&v)));
        s.push(st(E::Match(
            Box::new(meth(var("l"), "get", vec![il(IntTy::U64, 1)])),
            vec![arm(Some("Some"), vec![v], None, body), arm(Some("None"), vec![], None, vec![emit_u8(254)])],
        )));
        let e = b.fresh();
        let body = b.emit(var(&e));
        s.push(st(E::For(e, Box::new(var("l")), blk(body, None))));
        s.extend(b.emit(var("a")));
        (vec![], s, code(10))
    });
    // match binding: the bound name is a copy
    add!("match-binding".into(), true, Ret::U32, false, |b, _pre| {
        let mut s = vec![b.let_cons("a", 0), S::Let("s".into(), None, some(var("a")))];
        let v = b.fresh();
        let mut body = b.mutate_all(&[v.as_str()]);
        body.extend(b.emit(var(&v)));
        s.push(st(E::Match(Box::new(var("s")), vec![arm(Some("Some"), vec![v], None, body), arm(Some("None"), vec![], None, vec![emit_u8(254)])])));
        let v = b.fresh();
        let body = b.emit(var(&v));
        s.push(st(E::Match(Box::new(var("s")), vec![arm(Some("Some"), vec![v], None, body), arm(Some("None"), vec![], None, vec![emit_u8(254)])])));
        if !d.is_record() {
            // the payload binders of the type itself are copies too
            let Access::Variant { variant, .. } = &d.access else { unreachable!() };
            let (binds, comps) = b.bind_main();
            let mut body = vec![];
            for k in 0..n {
                match &comps[k] {
                    E::Var(x) => body.push(st(E::Assign(vec![x.clone()], Box::new(b.val(k, true))))),
                    E::Field(x, f) => {
                        let E::Var(x) = &**x else { unreachable!() };
                        body.push(st(E::Assign(vec![x.clone(), f.clone()], Box::new(b.val(k, true)))))
                    }
                    _ => unreachable!(),
                }
            }
            for k in 0..n {
                body.extend(d.fields[k].emit(comps[k].clone(), &mut b.c));
            }
            let mut arms = vec![arm(Some(variant), binds, None, body)];
            arms.extend(b.other_arms());
            s.push(st(E::Match(Box::new(var("a")), arms)));
        }
        s.extend(b.emit(var("a")));
        (vec![], s, code(11))
    });
    // the ? operator inside a helper
    add!("try-helper".into(), true, Ret::U32, false, |b, pre| {
        let h = format!("{pre}h");
        let mut hs = vec![S::Let("b".into(), None, E::Try(Box::new(var("o"))))];
        hs.extend(b.mutate_all(&["b"]));
        hs.extend(b.emit(var("b")));
        let helper = func(
            h.clone(),
            vec![("o", Ty::Opt(Box::new(t.clone()))), ("p", Ty::Bool)],
            Ty::Opt(Box::new(u32t())),
            hs,
            Some(some(code(77))),
        );
        let mut s = vec![b.let_cons("a", 0), S::Let("s".into(), None, ife(p(), some(var("a")), none()))];
        let v = b.fresh();
        s.push(st(E::Match(
            Box::new(E::Call(h, vec![var("s"), p()])),
            vec![
                arm(Some("Some"), vec![v.clone()], None, vec![st(host("emit_u32", vec![var(&v)]))]),
                arm(Some("None"), vec![], None, vec![emit_u8(253)]),
            ],
        )));
        let v = b.fresh();
        let body = b.emit(var(&v));
        s.push(st(E::Match(Box::new(var("s")), vec![arm(Some("Some"), vec![v], None, body), arm(Some("None"), vec![], None, vec![emit_u8(254)])])));
        s.extend(b.emit(var("a")));
        (vec![helper], s, code(12))
    });
    if full {
        // the ? operator in the entry function; the Option goes back to Rust
        add!("try-entry".into(), true, Ret::OptU32, false, |b, _pre| {
            let mut s = vec![b.let_cons("a", 0), S::Let("s".into(), None, ife(p(), none(), some(var("a"))))];
            s.extend(b.emit(var("a")));
            s.push(S::Let("b".into(), None, E::Try(Box::new(var("s")))));
            s.extend(b.mutate_all(&["b"]));
            s.extend(b.emit(var("b")));
            s.extend(b.emit(var("a")));
            (vec![], s, some(code(13)))
        });
    }
    // == and != : equal in every component / differing in exactly one
    add!("equality".into(), false, Ret::U32, false, |b, _pre| {
        let mut s = vec![b.let_cons("a", 0), b.let_cons("c", 0)];
        let eb = |op: BinOp, l: &str, r: &str| st(host("emit_bool", vec![bin(op, var(l), var(r))]));
        s.push(eb(BinOp::Eq, "a", "c"));
        s.push(eb(BinOp::Ne, "a", "c"));
        s.push(eb(BinOp::Eq, "a", "a"));
        for k in 0..n {
            let name = format!("b{k}");
            s.push(b.let_cons(&name, 1 << k));
            s.push(eb(BinOp::Eq, "a", &name));
            s.push(eb(BinOp::Ne, "a", &name));
            s.push(eb(BinOp::Eq, &name, "a"));
        }
        if let Access::Variant { path, others, .. } = &d.access {
            for (i, o) in others.iter().enumerate() {
                let name = format!("w{i}");
                s.push(S::Let(name.clone(), if d.annotate { Some(t.clone()) } else { None }, E::Ctor(path.clone(), o.variant.clone(), o.args.clone())));
                s.push(eb(BinOp::Eq, "a", &name));
                s.push(eb(BinOp::Ne, &name, "a"));
                s.push(eb(BinOp::Eq, &name, &name));
            }
        }
        (vec![], s, code(14))
    });
    // match with guards and `_` arms reading each payload position
    if let Access::Variant { path, variant, others, .. } = &d.access {
        add!("guards".into(), false, Ret::U32, false, |b, _pre| {
            let mut s = vec![b.let_cons("a", 0)];
            let mut scrutinees = vec!["a".to_string()];
            for k in 0..n {
                let name = format!("b{k}");
                s.push(b.let_cons(&name, 1 << k));
                scrutinees.push(name);
            }
            for (i, o) in others.iter().enumerate() {
                let name = format!("w{i}");
                s.push(S::Let(name.clone(), if d.annotate { Some(t.clone()) } else { None }, E::Ctor(path.clone(), o.variant.clone(), o.args.clone())));
                scrutinees.push(name);
            }
            for k in 0..n {
                for sc in &scrutinees {
                    let (binds1, comps1) = b.bind_main();
                    let guard = bin(BinOp::Eq, comps1[k].clone(), b.val(k, false));
                    let mut body1 = vec![emit_u8(1)];
                    body1.extend(d.fields[k].emit(comps1[k].clone(), &mut b.c));
                    let mut arms = vec![arm(Some(variant), binds1, Some(guard), body1)];
                    if let Some(o) = others.first() {
                        let binds = o.args.iter().map(|_| b.fresh()).collect();
                        arms.push(arm(Some(&o.variant), binds, None, vec![emit_u8(5)]));
                    }
                    arms.push(arm(None, vec![], Some(p()), vec![emit_u8(2)]));
                    let (binds3, comps3) = b.bind_main();
                    let mut body3 = vec![emit_u8(3)];
                    for j in 0..n {
                        body3.extend(d.fields[j].emit(comps3[j].clone(), &mut b.c));
                    }
                    arms.push(arm(Some(variant), binds3, None, body3));
                    arms.push(arm(None, vec![], None, vec![emit_u8(4)]));
                    s.push(st(E::Match(Box::new(var(sc)), arms)));
                }
            }
            (vec![], s, code(15))
        });
    }
    // the examinee of a match is evaluated ONCE: bindings of a later arm come from that value
    // even if the guard of an earlier arm (which fails) assigned to the matched variable
    // (seeded changes C02-6 / C03-7: the matched local used in place instead of a copy)
    if let Access::Variant { path, variant, others, .. } = &d.access {
        add!("examinee-reassigned-in-guard".into(), true, Ret::U32, false, |b, _pre| {
            let full = b.full_mask();
            let mut s = vec![b.let_cons("a", 0), b.let_cons("b0", full)];
            let reassign = |to: E| E::Block(blk(vec![st(E::Assign(vec!["a".into()], Box::new(to)))], Some(E::Bool(false))));
            let mut sources = vec![var("b0")];
            if let Some(o) = others.first() {
                sources.push(E::Ctor(path.clone(), o.variant.clone(), o.args.clone()));
            }
            for src in sources {
                // a failing guard on the same variant, then the variant again
                let (binds1, _) = b.bind_main();
                let (binds2, comps2) = b.bind_main();
                let mut body2 = vec![emit_u8(2)];
                for j in 0..n {
                    body2.extend(d.fields[j].emit(comps2[j].clone(), &mut b.c));
                }
                let mut arms = vec![arm(Some(variant), binds1, Some(reassign(src.clone())), vec![emit_u8(1)]), arm(Some(variant), binds2, None, body2)];
                arms.push(arm(None, vec![], None, vec![emit_u8(4)]));
                s.push(st(E::Match(Box::new(var("a")), arms)));
                // what `a` holds now is seen by the next match; then `a` is restored
                let (binds3, comps3) = b.bind_main();
                let mut body3 = vec![emit_u8(3)];
                for j in 0..n {
                    body3.extend(d.fields[j].emit(comps3[j].clone(), &mut b.c));
                }
                s.push(st(E::Match(Box::new(var("a")), vec![arm(Some(variant), binds3, None, body3), arm(None, vec![], None, vec![emit_u8(5)])])));
                s.push(st(E::Assign(vec!["a".into()], Box::new(b.cons_mask(0, 0)))));
                // a failing guard on a `_` arm, then the variant
                let (binds4, comps4) = b.bind_main();
                let mut body4 = vec![emit_u8(6)];
                for j in 0..n {
                    body4.extend(d.fields[j].emit(comps4[j].clone(), &mut b.c));
                }
                let arms = vec![
                    arm(None, vec![], Some(reassign(src.clone())), vec![emit_u8(7)]),
                    arm(Some(variant), binds4, None, body4),
                    arm(None, vec![], None, vec![emit_u8(8)]),
                ];
                s.push(st(E::Match(Box::new(var("a")), arms)));
                s.push(st(E::Assign(vec!["a".into()], Box::new(b.cons_mask(0, 0)))));
            }
            (vec![], s, code(19))
        });
    }
    // a payload position written as `_` (the language allows one `_` per pattern: it is
    // an ordinary binder name): each position in turn is the wildcard, the named ones
    // must still read their own component (also in a guard) - added after seeded change C02-4
    if let Access::Variant { variant, rec_payload: None, order, .. } = &d.access {
        if n >= 2 {
            let order = order.clone();
            add!("wildcards".into(), false, Ret::U32, false, |b, _pre| {
                let mut s = vec![b.let_cons("a", 0)];
                for j0 in 0..n {
                    let wild = |j: usize| j == j0;
                    let (mut binds, comps) = b.bind_main();
                    for j in 0..n {
                        if wild(j) {
                            binds[j] = "_".into();
                        }
                    }
                    let mut body = vec![emit_u8(1)];
                    for j in 0..n {
                        if !wild(j) {
                            body.extend(d.fields[order[j]].emit(comps[order[j]].clone(), &mut b.c));
                        }
                    }
                    let mut arms = vec![arm(Some(variant), binds, None, body)];
                    arms.extend(b.other_arms());
                    s.push(st(E::Match(Box::new(var("a")), arms)));
                    // a guard that reads the last named position; the arm after it names the others
                    let (mut binds2, comps2) = b.bind_main();
                    for j in 0..n {
                        if wild(j) {
                            binds2[j] = "_".into();
                        }
                    }
                    let last = (0..n).rev().find(|j| !wild(*j)).unwrap();
                    let guard = bin(BinOp::Ne, comps2[order[last]].clone(), b.val(order[last], false));
                    // the next arm puts the wildcard on the following position
                    let j1 = (j0 + 1) % n;
                    let (mut binds3, comps3) = b.bind_main();
                    binds3[j1] = "_".into();
                    let mut body3 = vec![emit_u8(3)];
                    for j in 0..n {
                        if j != j1 {
                            body3.extend(d.fields[order[j]].emit(comps3[order[j]].clone(), &mut b.c));
                        }
                    }
                    let mut arms = vec![
                        arm(Some(variant), binds2, Some(guard), vec![emit_u8(2)]),
                        arm(Some(variant), binds3, None, body3),
                    ];
                    arms.push(arm(None, vec![], None, vec![emit_u8(4)]));
                    s.push(st(E::Match(Box::new(var("a")), arms)));
                }
                (vec![], s, code(16))
            });
        }
    }
    // lists are shared: push / swap through one copy, read through the other
    add!("list-shared".into(), true, Ret::U32, false, |b, _pre| {
        let mut s = vec![b.let_cons("a", 0), b.let_cons("b", 1), S::Let("l".into(), None, E::ListLit(vec![var("a")])), S::Let("m".into(), None, var("l"))];
        s.push(st(meth(var("m"), "push", vec![var("b")])));
        s.push(st(meth(var("l"), "push", vec![var("a")])));
        s.push(st(meth(var("m"), "swap", vec![il(IntTy::U64, 0), il(IntTy::U64, 1)])));
        s.extend(b.mutate_all(&["a"]));
        s.push(st(host("emit_u64", vec![meth(var("l"), "len", vec![])])));
        s.push(st(host("emit_u64", vec![meth(var("m"), "len", vec![])])));
        let e = b.fresh();
        let body = b.emit(var(&e));
        s.push(st(E::For(e, Box::new(var("l")), blk(body, None))));
        (vec![], s, code(16))
    });
    // a list held in a record field is still shared between copies of the record
    add!("list-in-record".into(), true, Ret::U32, false, |b, _pre| {
        let outer = E::Rec(None, vec![("pre".into(), u8l(0x31)), ("l".into(), E::ListLit(vec![var("a")])), ("post".into(), u8l(0x32))]);
        let mut s = vec![b.let_cons("a", 0), b.let_cons("b", b.full_mask()), S::Let("o".into(), None, outer), S::Let("o2".into(), None, var("o"))];
        s.push(st(meth(fld(var("o2"), "l"), "push", vec![var("b")])));
        s.push(st(E::Assign(vec!["o2".into(), "pre".into()], Box::new(u8l(0x41)))));
        s.push(st(meth(fld(var("o"), "l"), "swap", vec![il(IntTy::U64, 1), il(IntTy::U64, 0)])));
        for o in ["o", "o2"] {
            s.push(st(host("emit_u8", vec![fld(var(o), "pre")])));
            s.push(st(host("emit_u64", vec![meth(fld(var(o), "l"), "len", vec![])])));
            let e = b.fresh();
            let body = b.emit(var(&e));
            s.push(st(E::For(e, Box::new(fld(var(o), "l")), blk(body, None))));
            s.push(st(host("emit_u8", vec![fld(var(o), "post")])));
        }
        (vec![], s, code(17))
    });
    // push inside a for over the same list (bounded by the length check)
    add!("push-in-for".into(), true, Ret::U32, false, |b, _pre| {
        let mut s = vec![b.let_cons("a", 0), b.let_cons("b", b.full_mask()), S::Let("l".into(), None, E::ListLit(vec![var("a"), var("b")])), S::Let("m".into(), None, var("l"))];
        let e = b.fresh();
        let mut body = vec![st(E::If(
            Box::new(bin(BinOp::Lt, meth(var("m"), "len", vec![]), il(IntTy::U64, 5))),
            blk(vec![st(meth(var("m"), "push", vec![var(&e)]))], None),
            None,
        ))];
        body.extend(b.emit(var(&e)));
        s.push(st(E::For(e, Box::new(var("l")), blk(body, None))));
        s.push(st(host("emit_u64", vec![meth(var("l"), "len", vec![])])));
        (vec![], s, code(18))
    });
    out
}

/// the declarations and functions of one program as a stand-alone script
pub fn standalone(d: &TypeDesc, pr: &Prog) -> Program {
    Program { records: d.records.clone(), enums: d.enums.clone(), funcs: pr.funcs.clone() }
}
