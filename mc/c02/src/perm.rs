//! Anonymous records in permuted field order.
//!
//! The type of an anonymous record literal `{ b: .., a: .. }` is a record
//! *variable* until it meets a written-out type `{ a: T, b: U }` (function
//! return type, parameter type, `let` annotation). The order of the fields
//! decides the memory layout, so after unification both sides must use ONE
//! order. This family writes the literal in every permutation of its fields
//! against every permutation of the written-out type, at every place where
//! the two meet (assignment after inference, `==` / `!=`, if/else join in both
//! branch orders, match arms in both orders, list elements in both orders,
//! argument, return, `let` annotation, literal directly under an annotation),
//! then reads EVERY field and compares whole values. Reference: fields are
//! addressed by name (c00ref).

use c00ref::gen_expr::{bin, blk, var};
use c00ref::*;

use crate::family::*;

/// field classes of this family: distinct sizes / alignments / ownership
#[derive(Clone, Copy, PartialEq, Eq, Debug, Hash)]
pub enum PF {
    U8,
    U16,
    U32,
    U64,
    Bool,
    Str,
    /// a nested anonymous record `{ x: u8, y: u32 }`
    NestAnon,
    Tr,
    ListU8,
    F32,
    Char,
}

pub const PERM_CLASSES: [PF; 11] =
    [PF::U8, PF::U16, PF::U32, PF::U64, PF::Bool, PF::Str, PF::NestAnon, PF::Tr, PF::ListU8, PF::F32, PF::Char];
/// the first seven are the quick alphabet
pub const PERM_QUICK: usize = 7;

const NAMES: [&str; 3] = ["a", "b", "c"];

impl PF {
    pub fn name(self) -> &'static str {
        match self {
            PF::NestAnon => "{ x: u8, y: u32 }",
            o => o.f().unwrap().name(),
        }
    }
    fn f(self) -> Option<F> {
        Some(match self {
            PF::U8 => F::U8,
            PF::U16 => F::U16,
            PF::U32 => F::U32,
            PF::U64 => F::U64,
            PF::Bool => F::Bool,
            PF::Str => F::Str,
            PF::Tr => F::Tr,
            PF::ListU8 => F::ListU8,
            PF::F32 => F::F32,
            PF::Char => F::Char,
            PF::NestAnon => return None,
        })
    }
    fn ty(self) -> Ty {
        match self.f() {
            Some(f) => f.ty(),
            None => Ty::Anon(vec![("x".into(), Ty::Int(IntTy::U8)), ("y".into(), Ty::Int(IntTy::U32))]),
        }
    }
    /// sentinel of field position k in set 0 / 1; the nested literal lists
    /// its own fields reversed when `rev`
    fn sent(self, k: usize, set: usize, rev: bool) -> E {
        match self.f() {
            Some(f) => f.sent(k, set),
            None => {
                let ki = k as i128;
                let x = ("x".to_string(), u8l(if set == 0 { 0x21 + ki } else { 0xA9 + ki }));
                let y = ("y".to_string(), il(IntTy::U32, if set == 0 { 0xC0DE_0000 + ki } else { 0x0BAD_F00D - ki }));
                E::Rec(None, if rev { vec![y, x] } else { vec![x, y] })
            }
        }
    }
    fn emit(self, x: E, c: &mut usize) -> Vec<S> {
        match self.f() {
            Some(f) => f.emit(x, c),
            None => vec![
                st(host("emit_u8", vec![fld(x.clone(), "x")])),
                st(host("emit_u32", vec![fld(x, "y")])),
            ],
        }
    }
}

/// all k-element subsets of 0..m, lexicographic
pub fn combinations(m: usize, k: usize) -> Vec<Vec<usize>> {
    fn go(start: usize, m: usize, k: usize, cur: &mut Vec<usize>, out: &mut Vec<Vec<usize>>) {
        if cur.len() == k {
            out.push(cur.clone());
            return;
        }
        for i in start..m {
            cur.push(i);
            go(i + 1, m, k, cur, out);
            cur.pop();
        }
    }
    let mut out = vec![];
    go(0, m, k, &mut vec![], &mut out);
    out
}

/// all permutations of 0..n, lexicographic (identity first)
pub fn permutations(n: usize) -> Vec<Vec<usize>> {
    fn go(n: usize, cur: &mut Vec<usize>, out: &mut Vec<Vec<usize>>) {
        if cur.len() == n {
            out.push(cur.clone());
            return;
        }
        for i in 0..n {
            if !cur.contains(&i) {
                cur.push(i);
                go(n, cur, out);
                cur.pop();
            }
        }
    }
    let mut out = vec![];
    go(n, &mut vec![], &mut out);
    out
}

/// the field sets of a tier: all 2- and 3-element subsets of the classes
pub fn field_sets(alpha: usize) -> Vec<Vec<PF>> {
    let mut v = vec![];
    for k in 2..=3 {
        for c in combinations(alpha, k) {
            v.push(c.into_iter().map(|i| PERM_CLASSES[i]).collect());
        }
    }
    v
}

fn order_name(o: &[usize]) -> String {
    o.iter().map(|&k| NAMES[k]).collect::<Vec<_>>().join(",")
}

struct P<'a> {
    cls: &'a [PF],
    /// order in which literals list the fields
    lit: &'a [usize],
    /// order in which the written-out type lists the fields
    typ: &'a [usize],
    c: usize,
}

impl P<'_> {
    fn n(&self) -> usize {
        self.cls.len()
    }
    fn rev_nested(&self) -> bool {
        self.lit.iter().enumerate().any(|(i, &k)| i != k)
    }
    /// the written-out type
    fn ty(&self) -> Ty {
        Ty::Anon(self.typ.iter().map(|&k| (NAMES[k].to_string(), self.cls[k].ty())).collect())
    }
    /// a literal listing the fields in `order`; field k holds the sentinel of
    /// set A if `cond` (xor `flip`) else of set B
    fn literal(&self, order: &[usize], cond: &E, flip: bool, rev_nested: bool) -> E {
        E::Rec(
            None,
            order
                .iter()
                .map(|&k| {
                    let a = self.cls[k].sent(k, flip as usize, rev_nested);
                    let b = self.cls[k].sent(k, 1 - flip as usize, rev_nested);
                    (NAMES[k].to_string(), ife(cond.clone(), a, b))
                })
                .collect(),
        )
    }
    /// the literal under test: fields in literal order, set chosen by `p`
    fn lit(&self, flip: bool) -> E {
        self.literal(self.lit, &p(), flip, self.rev_nested())
    }
    fn emit(&mut self, x: E) -> Vec<S> {
        let mut out = vec![];
        for k in 0..self.n() {
            out.extend(self.cls[k].emit(fld(x.clone(), NAMES[k]), &mut self.c));
        }
        out
    }
    /// `fn make(q: bool) -> TYPE { literal in type order }`
    fn make(&self, name: &str) -> Func {
        func(name.into(), vec![("q", Ty::Bool)], self.ty(), vec![], Some(self.literal(self.typ, &var("q"), false, false)))
    }
    /// the SECOND written-out type: the same fields listed in the literal's order
    fn ty2(&self) -> Ty {
        Ty::Anon(self.lit.iter().map(|&k| (NAMES[k].to_string(), self.cls[k].ty())).collect())
    }
    /// `fn make2(q: bool) -> TYPE2 { literal in that order }`
    fn make2(&self, name: &str) -> Func {
        func(name.into(), vec![("q", Ty::Bool)], self.ty2(), vec![], Some(self.literal(self.lit, &var("q"), false, false)))
    }
    fn fresh(&mut self) -> String {
        self.c += 1;
        format!("v{}", self.c)
    }
}

fn not_p() -> E {
    E::Not(Box::new(p()))
}

/// The programs of one field set: every literal order x every type order x
/// every site. Returns one type description per written-out order.
pub fn perm_programs(cls: &[PF]) -> (Vec<TypeDesc>, Vec<(usize, Prog)>) {
    let n = cls.len();
    let perms = permutations(n);
    let mut descs = vec![];
    let mut out: Vec<(usize, Prog)> = vec![];
    for typ in &perms {
        let di = descs.len();
        let ty = Ty::Anon(typ.iter().map(|&k| (NAMES[k].to_string(), cls[k].ty())).collect());
        descs.push(TypeDesc {
            shape: Shape::AnonPerm,
            fields: vec![],
            ty,
            records: vec![],
            enums: vec![],
            access: Access::Record { name: None },
            annotate: false,
        });
        for lit in &perms {
            macro_rules! add {
                ($site:expr, |$b:ident, $mk:ident, $pre:ident| $build:block) => {{
                    let idx = out.len();
                    let $pre = format!("q{idx}_");
                    let $mk = format!("{}make", $pre);
                    #[allow(unused_mut)]
                    let mut $b = P { cls, lit, typ, c: 0 };
                    let (mut helpers, stmts, tail): (Vec<Func>, Vec<S>, E) = $build;
                    helpers.insert(0, $b.make(&$mk));
                    let entry = format!("{}f", $pre);
                    helpers.push(func(entry.clone(), vec![("p", Ty::Bool)], u32t(), stmts, Some(tail)));
                    out.push((
                        di,
                        Prog {
                            kind: format!("{} literal-order={} type-order={}", $site, order_name(lit), order_name(typ)),
                            funcs: helpers,
                            entry,
                            ret: Ret::U32,
                            solo: false,
                            writes_after_copy: true,
                        },
                    ));
                }};
            }
            let code = |c: i128| il(IntTy::U32, c);
            let call = |f: &str, a: E| E::Call(f.into(), vec![a]);
            let eb = |e: E| st(host("emit_bool", vec![e]));

            // a variable inferred from the literal is later assigned a value
            // of the written-out type, then every field is written in turn
            add!("assign-after-inference", |b, mk, _pre| {
                let mut s = vec![S::Let("x".into(), None, b.lit(false))];
                s.extend(b.emit(var("x")));
                s.push(st(E::Assign(vec!["x".into()], Box::new(call(&mk, not_p())))));
                s.extend(b.emit(var("x")));
                // (whole values are compared with a literal, not with a second
                // value of the written-out type: x meets that type only once)
                s.push(eb(bin(BinOp::Eq, var("x"), b.lit(true))));
                s.push(eb(bin(BinOp::Ne, var("x"), b.lit(false))));
                s.push(S::Let("y".into(), None, call(&mk, p())));
                s.push(st(E::Assign(vec!["y".into()], Box::new(b.lit(true)))));
                s.extend(b.emit(var("y")));
                for k in 0..n {
                    let v = ife(p(), cls[k].sent(k, 0, false), cls[k].sent(k, 1, false));
                    s.push(st(E::Assign(vec!["x".into(), NAMES[k].into()], Box::new(v))));
                    s.extend(b.emit(var("x")));
                }
                s.push(eb(bin(BinOp::Eq, var("x"), b.lit(false))));
                (vec![], s, code(101))
            });
            // the literal is the left / right operand of == and !=
            add!("equality", |b, mk, _pre| {
                let mut s = vec![];
                for (op, other) in [(BinOp::Eq, p()), (BinOp::Ne, p()), (BinOp::Eq, not_p()), (BinOp::Ne, not_p())] {
                    s.push(eb(bin(op, b.lit(false), call(&mk, other.clone()))));
                    s.push(eb(bin(op, call(&mk, other), b.lit(false))));
                }
                // differing in exactly one field
                for k in 0..n {
                    let mut one = b.lit(false);
                    if let E::Rec(_, fs) = &mut one {
                        for (name, v) in fs.iter_mut() {
                            if name == NAMES[k] {
                                *v = ife(p(), cls[k].sent(k, 1, false), cls[k].sent(k, 0, false));
                            }
                        }
                    }
                    s.push(eb(bin(BinOp::Eq, one.clone(), call(&mk, p()))));
                    s.push(eb(bin(BinOp::Ne, one, call(&mk, p()))));
                }
                (vec![], s, code(102))
            });
            // if/else join, literal in the first / second branch
            for first in [true, false] {
                add!(if first { "if-join literal-first" } else { "if-join literal-second" }, |b, mk, _pre| {
                    let (t, f) = if first { (b.lit(false), call(&mk, p())) } else { (call(&mk, p()), b.lit(false)) };
                    let mut s = vec![S::Let("x".into(), None, ife(p(), t, f))];
                    s.extend(b.emit(var("x")));
                    s.push(eb(bin(BinOp::Eq, var("x"), b.lit(false))));
                    s.push(eb(bin(BinOp::Ne, b.lit(true), var("x"))));
                    (vec![], s, code(103))
                });
            }
            // match arms, literal in the first / second arm
            for first in [true, false] {
                add!(if first { "match-arms literal-first" } else { "match-arms literal-second" }, |b, mk, _pre| {
                    let v = b.fresh();
                    let o = S::Let("o".into(), None, ife(p(), some(u8l(1)), none()));
                    let (some_e, none_e) = if first { (b.lit(false), call(&mk, p())) } else { (call(&mk, p()), b.lit(false)) };
                    let arm_e = |variant: &str, binds: Vec<String>, e: E| Arm {
                        variant: Some(variant.into()),
                        binds,
                        guard: None,
                        body: blk(vec![], Some(e)),
                    };
                    let m = E::Match(Box::new(var("o")), vec![arm_e("Some", vec![v], some_e), arm_e("None", vec![], none_e)]);
                    let mut s = vec![o, S::Let("x".into(), None, m)];
                    s.extend(b.emit(var("x")));
                    s.push(eb(bin(BinOp::Eq, var("x"), b.lit(false))));
                    s.push(eb(bin(BinOp::Ne, b.lit(true), var("x"))));
                    (vec![], s, code(104))
                });
            }
            // list literal, literal as first / second element
            for first in [true, false] {
                add!(if first { "list-elements literal-first" } else { "list-elements literal-second" }, |b, mk, _pre| {
                    let els = if first { vec![b.lit(false), call(&mk, not_p())] } else { vec![call(&mk, not_p()), b.lit(false)] };
                    let mut s = vec![S::Let("l".into(), None, E::ListLit(els))];
                    let e = b.fresh();
                    let body = b.emit(var(&e));
                    s.push(st(E::For(e, Box::new(var("l")), blk(body, None))));
                    s.push(st(meth(var("l"), "push", vec![b.lit(true)])));
                    let v = b.fresh();
                    let body = b.emit(var(&v));
                    s.push(st(E::Match(
                        Box::new(meth(var("l"), "get", vec![il(IntTy::U64, 2)])),
                        vec![arm(Some("Some"), vec![v], None, body), arm(Some("None"), vec![], None, vec![emit_u8(254)])],
                    )));
                    (vec![], s, code(105))
                });
            }
            // a variable inferred from the literal is passed to a parameter of the written-out type
            add!("argument", |b, mk, pre| {
                let h = format!("{pre}take");
                let mut hs = b.emit(var("r"));
                hs.push(eb(bin(BinOp::Eq, var("r"), call(&mk, var("q")))));
                let helper = func(h.clone(), vec![("r", b.ty()), ("q", Ty::Bool)], u32t(), hs, Some(code(106)));
                let mut s = vec![S::Let("x".into(), None, b.lit(false))];
                s.extend(b.emit(var("x")));
                s.push(S::Let("k".into(), None, E::Call(h, vec![var("x"), p()])));
                s.extend(b.emit(var("x")));
                (vec![helper], s, var("k"))
            });
            // a variable inferred from the literal is returned as the written-out type
            add!("return", |b, mk, pre| {
                let h = format!("{pre}ret");
                let helper = func(h.clone(), vec![("p", Ty::Bool)], b.ty(), vec![S::Let("x".into(), None, b.lit(false))], Some(var("x")));
                let mut s = vec![S::Let("y".into(), None, call(&h, p()))];
                s.extend(b.emit(var("y")));
                s.push(eb(bin(BinOp::Eq, var("y"), call(&mk, p()))));
                (vec![helper], s, code(107))
            });
            // a variable inferred from the literal initialises an annotated let
            add!("let-annotation", |b, mk, _pre| {
                let mut s = vec![S::Let("x".into(), None, b.lit(false)), S::Let("y".into(), Some(b.ty()), var("x"))];
                s.extend(b.emit(var("y")));
                s.extend(b.emit(var("x")));
                s.push(eb(bin(BinOp::Eq, var("y"), call(&mk, p()))));
                (vec![], s, code(108))
            });
            // the literal directly under an annotation: let, argument, return
            add!("literal-under-annotation", |b, mk, pre| {
                let take = format!("{pre}take");
                let hs = b.emit(var("r"));
                let take_f = func(take.clone(), vec![("r", b.ty())], u32t(), hs, Some(code(109)));
                let ret = format!("{pre}ret");
                let ret_f = func(ret.clone(), vec![("p", Ty::Bool)], b.ty(), vec![], Some(b.lit(false)));
                let mut s = vec![S::Let("y".into(), Some(b.ty()), b.lit(false))];
                s.extend(b.emit(var("y")));
                s.push(S::Let("k".into(), None, call(&take, b.lit(true))));
                s.push(S::Let("z".into(), None, call(&ret, p())));
                s.extend(b.emit(var("z")));
                s.push(eb(bin(BinOp::Eq, var("z"), call(&mk, p()))));
                s.push(eb(bin(BinOp::Eq, var("y"), var("z"))));
                (vec![take_f, ret_f], s, var("k"))
            });

            // TWO written-out types listing the same fields in different orders
            // (seeded change C02-5). Whether they are one type the property does
            // not say (the pinned tree rejects the program: allowed); if the
            // program compiles, every field must still be addressed by name.
            // With equal orders the program must compile.
            let two = |site: &str| format!("{}{site}", if lit == typ { "one-written-type-twice " } else { "two-written-types " });
            macro_rules! add2 {
                ($site:expr, |$b:ident, $mk:ident, $mk2:ident, $pre:ident| $build:block) => {{
                    let idx = out.len();
                    let $pre = format!("q{idx}_");
                    let $mk = format!("{}make", $pre);
                    let $mk2 = format!("{}make2", $pre);
                    #[allow(unused_mut)]
                    let mut $b = P { cls, lit, typ, c: 0 };
                    let (mut helpers, stmts, tail): (Vec<Func>, Vec<S>, E) = $build;
                    helpers.insert(0, $b.make(&$mk));
                    helpers.insert(1, $b.make2(&$mk2));
                    let entry = format!("{}f", $pre);
                    helpers.push(func(entry.clone(), vec![("p", Ty::Bool)], u32t(), stmts, Some(tail)));
                    out.push((
                        di,
                        Prog {
                            kind: format!("{} type-order-1={} type-order-2={}", two($site), order_name(lit), order_name(typ)),
                            funcs: helpers,
                            entry,
                            ret: Ret::U32,
                            solo: lit != typ,
                            writes_after_copy: true,
                        },
                    ));
                }};
            }
            // a value of type 1 is passed to a parameter of type 2
            add2!("argument", |b, mk, mk2, pre| {
                let h = format!("{pre}take");
                let mut hs = b.emit(var("r"));
                hs.push(eb(bin(BinOp::Eq, var("r"), call(&mk, var("q")))));
                let helper = func(h.clone(), vec![("r", b.ty()), ("q", Ty::Bool)], u32t(), hs, Some(code(110)));
                let mut s = vec![S::Let("x".into(), None, call(&mk2, p()))];
                s.extend(b.emit(var("x")));
                s.push(S::Let("k".into(), None, E::Call(h, vec![var("x"), p()])));
                s.extend(b.emit(var("x")));
                (vec![helper], s, var("k"))
            });
            // a value of type 1 is returned as type 2
            add2!("return", |b, mk, mk2, pre| {
                let h = format!("{pre}ret");
                let helper = func(h.clone(), vec![("p", Ty::Bool)], b.ty(), vec![S::Let("x".into(), Some(b.ty2()), call(&mk2, p()))], Some(var("x")));
                let mut s = vec![S::Let("y".into(), None, call(&h, p()))];
                s.extend(b.emit(var("y")));
                s.push(eb(bin(BinOp::Eq, var("y"), call(&mk, p()))));
                (vec![helper], s, code(111))
            });
            // a variable annotated with type 1 initialises / is assigned to one annotated with type 2
            add2!("let-and-assign", |b, mk, mk2, _pre| {
                let mut s = vec![S::Let("x".into(), Some(b.ty2()), call(&mk2, p())), S::Let("y".into(), Some(b.ty()), var("x"))];
                s.extend(b.emit(var("y")));
                s.extend(b.emit(var("x")));
                s.push(eb(bin(BinOp::Eq, var("y"), call(&mk, p()))));
                s.push(st(E::Assign(vec!["y".into()], Box::new(call(&mk2, not_p())))));
                s.extend(b.emit(var("y")));
                for k in 0..n {
                    let v = ife(p(), cls[k].sent(k, 0, false), cls[k].sent(k, 1, false));
                    s.push(st(E::Assign(vec!["y".into(), NAMES[k].into()], Box::new(v))));
                    s.extend(b.emit(var("y")));
                    s.extend(b.emit(var("x")));
                }
                (vec![], s, code(112))
            });
            // == and != between the two types, both ways; if/else join, both branch orders
            add2!("equality-and-join", |b, mk, mk2, _pre| {
                let mut s = vec![];
                for (op, other) in [(BinOp::Eq, p()), (BinOp::Ne, p()), (BinOp::Eq, not_p()), (BinOp::Ne, not_p())] {
                    s.push(eb(bin(op, call(&mk2, p()), call(&mk, other.clone()))));
                    s.push(eb(bin(op, call(&mk, other), call(&mk2, p()))));
                }
                s.push(S::Let("x".into(), None, ife(p(), call(&mk2, p()), call(&mk, p()))));
                s.extend(b.emit(var("x")));
                s.push(S::Let("y".into(), None, ife(p(), call(&mk, p()), call(&mk2, p()))));
                s.extend(b.emit(var("y")));
                s.push(S::Let("l".into(), None, E::ListLit(vec![call(&mk2, p()), call(&mk, not_p())])));
                let e = b.fresh();
                let body = b.emit(var(&e));
                s.push(st(E::For(e, Box::new(var("l")), blk(body, None))));
                (vec![], s, code(113))
            });
        }
    }
    (descs, out)
}
