fn main() {
    c02::run()
}
