//! Operation-sequence family "repeated self-concatenation" for zero-sized
//! element types WITHOUT a clone function (`()`, `record U { u: () }` in
//! script-made lists): `concat` / `+` is O(1) there, so 64 doublings of a
//! one-element list reach length 2^64 in microseconds.
//!
//! Oracle: the length of a list is exact (u128 model), or the operation fails
//! loudly. A Rust-side panic is a loud failure (that is what `Vec<()>` does:
//! "capacity overflow"). A wrong length, or the death of the host process when
//! the operation was issued by a script, is a violation.
//!
//! A case is (sequence, step d): fresh lists are rebuilt by replaying steps
//! 1..d-1 (each compared with the model again), then step d is the transition.

use roto::{List, NoCtx, TypedFunc};
use vcore::{Cx, Finding, SUB_SETUP, Value, Violation, json};

use crate::model::Side;

type F<X> = TypedFunc<NoCtx, X>;
type LU = List<()>;

pub const MAX_DOUBLINGS: u64 = 65;

#[derive(Clone, Copy, Debug, PartialEq, Eq)]
pub enum Pattern {
    Rust,
    ScriptConcat,
    ScriptPlus,
    /// step 1 Rust `concat`, step 2 script `concat`, step 3 Rust, step 4 script `+`, ...
    Alternate,
}

#[derive(Clone, Copy, Debug, PartialEq, Eq)]
pub enum Kind {
    /// the list `List<()>` is held by Rust; every doubling is one call
    Handle(Pattern),
    /// the whole loop runs inside one script call; element type `()`
    InScriptUnit,
    /// the same with `record U { u: () }` (cannot be named from Rust)
    InScriptRecord,
    /// a list of exactly 2^64 - 1 units (sum of the doublings), then
    /// observers, `concat` with a one-element list and `push`
    Full(Side),
}

#[derive(Clone, Copy, Debug)]
pub struct DUnit {
    pub kind: Kind,
    /// length of the start list: 1 or 3
    pub k: u64,
}

pub fn units() -> Vec<DUnit> {
    let mut v = vec![];
    for k in [1, 3] {
        for p in [Pattern::Rust, Pattern::ScriptConcat, Pattern::ScriptPlus, Pattern::Alternate] {
            v.push(DUnit { kind: Kind::Handle(p), k });
        }
    }
    for k in [1, 3] {
        v.push(DUnit { kind: Kind::InScriptUnit, k });
        v.push(DUnit { kind: Kind::InScriptRecord, k });
    }
    v.push(DUnit { kind: Kind::Full(Side::Rust), k: 1 });
    v.push(DUnit { kind: Kind::Full(Side::Script), k: 1 });
    v
}

pub const SCRIPT: &str = "\
record U { u: () }
fn u_lit1() -> List[()] { [()] }
fn u_lit3() -> List[()] { [(), (), ()] }
fn u_concat(a: List[()], b: List[()]) -> List[()] { a.concat(b) }
fn u_plus(a: List[()], b: List[()]) -> List[()] { a + b }
fn u_len(l: List[()]) -> u64 { l.len() }
fn u_is_empty(l: List[()]) -> bool { l.is_empty() }
fn u_cap(l: List[()]) -> u64 { l.capacity() }
fn u_push(l: List[()], v: ()) { l.push(v) }
fn u_get(l: List[()], i: u64) -> Option[()] { l.get(i) }
fn u_contains(l: List[()], v: ()) -> bool { l.contains(v) }
fn u_index(l: List[()], v: ()) -> u64? { l.index(v) }
fn u_swap(l: List[()], i: u64, j: u64) { l.swap(i, j) }
fn u_dbl(k3: bool, d: u64) -> u64 { let l = [()]; if k3 { l = [(), (), ()]; } let i = 0; while i < d { l = l + l; i = i + 1; } l.len() }
fn r_dbl(k3: bool, d: u64) -> u64 { let l = [U { u: () }]; if k3 { l = [U { u: () }, U { u: () }, U { u: () }]; } let i = 0; while i < d { l = l.concat(l); i = i + 1; } l.len() }
";

struct S {
    lit1: F<fn() -> LU>,
    lit3: F<fn() -> LU>,
    concat: F<fn(LU, LU) -> LU>,
    plus: F<fn(LU, LU) -> LU>,
    len: F<fn(LU) -> u64>,
    is_empty: F<fn(LU) -> bool>,
    cap: F<fn(LU) -> u64>,
    push: F<fn(LU, ()) -> ()>,
    get: F<fn(LU, u64) -> Option<()>>,
    contains: F<fn(LU, ()) -> bool>,
    index: F<fn(LU, ()) -> Option<u64>>,
    swap: F<fn(LU, u64, u64) -> ()>,
    u_dbl: F<fn(bool, u64) -> u64>,
    r_dbl: F<fn(bool, u64) -> u64>,
}

const TWO64: u128 = 1u128 << 64;

#[derive(Clone, Copy, Debug, PartialEq, Eq)]
enum How {
    RustConcat,
    ScriptConcat,
    ScriptPlus,
}

impl How {
    fn side(self) -> Side {
        if self == How::RustConcat { Side::Rust } else { Side::Script }
    }
    fn kind(self) -> &'static str {
        if self == How::ScriptPlus { "plus" } else { "concat" }
    }
    fn text(self, a: &str, b: &str) -> String {
        match self {
            How::RustConcat => format!("{a}.concat(&{b})"),
            How::ScriptConcat => format!("script{{ {a}.concat({b}) }}"),
            How::ScriptPlus => format!("script{{ {a} + {b} }}"),
        }
    }
}

fn how(p: Pattern, step: u64) -> How {
    match p {
        Pattern::Rust => How::RustConcat,
        Pattern::ScriptConcat => How::ScriptConcat,
        Pattern::ScriptPlus => How::ScriptPlus,
        Pattern::Alternate => {
            if step % 2 == 1 {
                How::RustConcat
            } else if step % 4 == 0 {
                How::ScriptPlus
            } else {
                How::ScriptConcat
            }
        }
    }
}

fn pattern_name(p: Pattern) -> &'static str {
    match p {
        Pattern::Rust => "every step: Rust concat",
        Pattern::ScriptConcat => "every step: script concat",
        Pattern::ScriptPlus => "every step: script +",
        Pattern::Alternate => "alternating: Rust concat, script concat, Rust concat, script +",
    }
}

/// Outcome of one concatenation issued from `h`
enum Out {
    List(LU),
    /// the Rust-side call panicked (loud failure)
    Panic(String),
}

fn cat(s: &S, h: How, a: &LU, b: &LU) -> Out {
    match h {
        How::RustConcat => match vcore::util::catch(|| a.concat(b)) {
            Ok(l) => Out::List(l),
            Err(m) => Out::Panic(m),
        },
        How::ScriptConcat => Out::List(s.concat.call(a.clone(), b.clone())),
        How::ScriptPlus => Out::List(s.plus.call(a.clone(), b.clone())),
    }
}

fn base_case(u: &DUnit) -> Value {
    let elem = if u.kind == Kind::InScriptRecord { "record U { u: () }" } else { "()" };
    json!({
        "family": "zero-sized-doubling",
        "elem": elem,
        "elem_zero_sized_without_clone_fn": true,
        "start": format!("a script-made list of {} element(s) (script-made: its vtable has no clone function, so concat is O(1))", u.k),
        "script": SCRIPT,
    })
}

/// The case (unit, sub) written out; `None` when the index is out of range
pub fn describe(u: &DUnit, sub: u64) -> Value {
    let mut c = base_case(u);
    if sub == SUB_SETUP {
        c["setup"] = json!("compile the scripts");
        return c;
    }
    match u.kind {
        Kind::Handle(_) if sub == 0 || sub > MAX_DOUBLINGS => c["error"] = json!("case index out of range"),
        Kind::Handle(p) => {
            let d = sub;
            let before = (u.k as u128) << (d - 1).min(100);
            let h = how(p, d);
            c["sides"] = json!(pattern_name(p));
            c["doublings_before"] = json!(d - 1);
            c["op"] = json!(format!("l = {}", h.text("l", "l")));
            c["op_kind"] = json!(h.kind());
            c["op_side"] = json!(h.side().name());
            c["len_a"] = json!(before.to_string());
            c["len_b"] = json!(before.to_string());
            c["len_sum_overflows_u64"] = json!(before * 2 >= TWO64);
        }
        Kind::InScriptUnit | Kind::InScriptRecord => {
            let d = sub;
            let f = if u.kind == Kind::InScriptUnit { "u_dbl" } else { "r_dbl" };
            c["op"] = json!(format!("script{{ {f}({}, {d}) }}  (the list is doubled {d} times inside the script, then len())", u.k == 3));
            c["op_kind"] = json!(if u.kind == Kind::InScriptUnit { "plus" } else { "concat" });
            c["op_side"] = json!("script");
            c["doublings"] = json!(d);
            let fin = (u.k as u128) << d.min(100);
            c["len_sum_overflows_u64"] = json!(fin >= TWO64);
        }
        Kind::Full(side) => {
            c["sides"] = json!(format!("built by {}", side.name()));
            c["start"] = json!("p0 = script{ [()] }; p(i) = p(i-1) ++ p(i-1); acc = p0 ++ p1 ++ .. ++ p63: exactly 2^64 - 1 elements");
            match full_ops().get(sub as usize) {
                Some(op) => {
                    c["op"] = json!(op.text);
                    c["op_kind"] = json!(op.kind);
                    c["op_side"] = json!(op.side.name());
                    c["len_a"] = json!((TWO64 - 1).to_string());
                    c["len_b"] = json!(if op.overflows { "1" } else { "0" });
                    c["len_sum_overflows_u64"] = json!(op.overflows);
                }
                None => c["error"] = json!("case index out of range"),
            }
        }
    }
    c
}

struct FullOp {
    text: &'static str,
    kind: &'static str,
    side: Side,
    overflows: bool,
}

fn full_ops() -> Vec<FullOp> {
    let o = |text, kind, side, overflows| FullOp { text, kind, side, overflows };
    vec![
        o("acc.len()", "len", Side::Rust, false),
        o("script{ acc.len() }", "len", Side::Script, false),
        o("acc.is_empty()", "is_empty", Side::Rust, false),
        o("script{ acc.is_empty() }", "is_empty", Side::Script, false),
        o("acc.capacity() >= acc.len()", "capacity", Side::Rust, false),
        o("script{ acc.capacity() }", "capacity", Side::Script, false),
        o("acc.get(usize::MAX - 1)", "get", Side::Rust, false),
        o("script{ acc.get(u64::MAX - 1) }", "get", Side::Script, false),
        o("acc.get(usize::MAX)", "get", Side::Rust, false),
        o("script{ acc.get(u64::MAX) }", "get", Side::Script, false),
        o("acc.contains(&())", "contains", Side::Rust, false),
        o("script{ acc.contains(()) }", "contains", Side::Script, false),
        o("acc.index(&())", "index", Side::Rust, false),
        o("script{ acc.index(()) }", "index", Side::Script, false),
        o("acc.swap(0, usize::MAX - 1); acc.len()", "swap", Side::Rust, false),
        o("script{ acc.swap(0, u64::MAX - 1) }; acc.len()", "swap", Side::Script, false),
        o("acc.concat(&empty).len()", "concat", Side::Rust, false),
        o("script{ acc + empty }.len()", "plus", Side::Script, false),
        o("acc.concat(&p0)  (2^64 - 1 + 1 elements)", "concat", Side::Rust, true),
        o("script{ acc.concat(p0) }  (2^64 - 1 + 1 elements)", "concat", Side::Script, true),
        o("script{ acc + p0 }  (2^64 - 1 + 1 elements)", "plus", Side::Script, true),
        o("acc.push(())", "push", Side::Rust, true),
        o("script{ acc.push(()) }", "push", Side::Script, true),
    ]
}

fn load(cx: &mut Cx, u: &DUnit) -> Option<S> {
    let rt = host::runtime();
    let mut pkg = match host::compile(&rt, SCRIPT) {
        Ok(p) => p,
        Err(e) => {
            cx.violation("compile", SUB_SETUP, describe(u, SUB_SETUP), json!("compiles"), json!(format!("{e:?}")));
            return None;
        }
    };
    macro_rules! g {
        ($name:literal) => {
            match pkg.get_function($name) {
                Ok(f) => f,
                Err(e) => {
                    cx.violation("get_function", SUB_SETUP, describe(u, SUB_SETUP), json!("Ok"), json!(format!("{}: {e}", $name)));
                    return None;
                }
            }
        };
    }
    Some(S {
        lit1: g!("u_lit1"),
        lit3: g!("u_lit3"),
        concat: g!("u_concat"),
        plus: g!("u_plus"),
        len: g!("u_len"),
        is_empty: g!("u_is_empty"),
        cap: g!("u_cap"),
        push: g!("u_push"),
        get: g!("u_get"),
        contains: g!("u_contains"),
        index: g!("u_index"),
        swap: g!("u_swap"),
        u_dbl: g!("u_dbl"),
        r_dbl: g!("r_dbl"),
    })
}

fn state_hash(len: u128) -> u64 {
    vcore::util::mix(vcore::util::fnv_str("zero-sized-doubling"), vcore::util::mix(len as u64, (len >> 64) as u64))
}

/// both sides agree on the exact length, and the other observers fit
fn check_len(s: &S, l: &LU, want: u128) -> Result<(), Value> {
    let r = l.len() as u128;
    let sc = s.len.call(l.clone()) as u128;
    let e = l.is_empty();
    let cap_ok = l.capacity() >= l.len();
    if r == want && sc == want && !e && cap_ok {
        Ok(())
    } else {
        Err(json!({"len": r.to_string(), "script_len": sc.to_string(), "is_empty": e, "capacity>=len": cap_ok}))
    }
}

fn expected_len(want: u128) -> Value {
    json!({"len": want.to_string(), "script_len": want.to_string(), "is_empty": false, "capacity>=len": true})
}

pub fn run(u: &DUnit, cx: &mut Cx) {
    if !cx.case(SUB_SETUP) {
        return;
    }
    let Some(s) = load(cx, u) else { return };
    let mut transitions = 0u64;
    match u.kind {
        Kind::Handle(p) => {
            'cases: for d in 1..=MAX_DOUBLINGS {
                let before = (u.k as u128) << (d - 1);
                if before >= TWO64 {
                    // the replayed prefix itself would have to exceed 2^64 elements
                    cx.count("doubling_cases_unreachable_after_overflow", 1);
                    continue;
                }
                if !cx.case(d) {
                    continue;
                }
                // replay
                let mut l = if u.k == 1 { s.lit1.call() } else { s.lit3.call() };
                for i in 1..d {
                    match cat(&s, how(p, i), &l, &l) {
                        Out::List(n) => l = n,
                        Out::Panic(m) => {
                            cx.violation("panic", d, describe(u, d), json!("the replayed prefix does not overflow"), json!(m));
                            continue 'cases;
                        }
                    }
                }
                if let Err(obs) = check_len(&s, &l, before) {
                    cx.violation("wrong-length", d, describe(u, d), json!({"after_replayed_prefix": expected_len(before)}), json!({"after_replayed_prefix": obs}));
                    continue;
                }
                // the transition
                let want = before * 2;
                let h = how(p, d);
                transitions += 1;
                cx.set("states", state_hash(want.min(TWO64)));
                match cat(&s, h, &l, &l) {
                    Out::Panic(m) => {
                        if want >= TWO64 {
                            cx.count("loud_failures_rust_panic_on_length_overflow", 1);
                            cx.outcome(vcore::util::fnv_str("panic"));
                        } else {
                            cx.violation("panic", d, describe(u, d), expected_len(want), json!(m));
                        }
                    }
                    Out::List(n) => {
                        if want >= TWO64 {
                            cx.violation(
                                "wrong-length",
                                d,
                                describe(u, d),
                                json!(format!("a list of {want} elements cannot exist: the operation fails loudly (as Vec<()> does), it never reports a length that is not the number of elements")),
                                json!({"len": n.len().to_string(), "is_empty": n.is_empty()}),
                            );
                        } else {
                            match check_len(&s, &n, want) {
                                Ok(()) => {
                                    cx.outcome(vcore::util::mix(1, want as u64));
                                    // operands unchanged
                                    if let Err(obs) = check_len(&s, &l, before) {
                                        cx.violation("state-mismatch", d, describe(u, d), json!({"operand_after": expected_len(before)}), json!({"operand_after": obs}));
                                    }
                                }
                                Err(obs) => cx.violation("wrong-length", d, describe(u, d), expected_len(want), obs),
                            }
                        }
                    }
                }
            }
        }
        Kind::InScriptUnit | Kind::InScriptRecord => {
            for d in 0..=MAX_DOUBLINGS {
                if !cx.case(d) {
                    continue;
                }
                let want = (u.k as u128) << d;
                transitions += 1;
                cx.set("states", state_hash(want.min(TWO64)));
                let f = if u.kind == Kind::InScriptUnit { &s.u_dbl } else { &s.r_dbl };
                let got = f.call(u.k == 3, d) as u128;
                cx.outcome(vcore::util::mix(2, got as u64));
                if want >= TWO64 {
                    cx.violation(
                        "wrong-length",
                        d,
                        describe(u, d),
                        json!(format!("a list of {want} elements cannot exist: the script fails loudly without taking the host down, it never reports a wrong length")),
                        json!({"len": got.to_string()}),
                    );
                } else if got != want {
                    cx.violation("wrong-length", d, describe(u, d), json!({"len": want.to_string()}), json!({"len": got.to_string()}));
                }
            }
        }
        Kind::Full(build) => {
            let ops = full_ops();
            'ops: for (oi, op) in ops.iter().enumerate() {
                let sub = oi as u64;
                if !cx.case(sub) {
                    continue;
                }
                // rebuild acc = p0 ++ p1 ++ ... ++ p63
                let hb = if build == Side::Rust { How::RustConcat } else { How::ScriptPlus };
                let p0 = s.lit1.call();
                let mut p = p0.clone();
                let mut acc = p0.clone();
                for _ in 1..64 {
                    let Out::List(np) = cat(&s, hb, &p, &p) else {
                        cx.violation("panic", sub, describe(u, sub), json!("building the list does not overflow"), json!("panic while doubling"));
                        continue 'ops;
                    };
                    p = np;
                    let Out::List(na) = cat(&s, hb, &acc, &p) else {
                        cx.violation("panic", sub, describe(u, sub), json!("building the list does not overflow"), json!("panic while accumulating"));
                        continue 'ops;
                    };
                    acc = na;
                }
                let full = TWO64 - 1;
                if let Err(obs) = check_len(&s, &acc, full) {
                    cx.violation("wrong-length", sub, describe(u, sub), json!({"after_building": expected_len(full)}), json!({"after_building": obs}));
                    continue;
                }
                let empty: LU = List::new();
                transitions += 1;
                cx.set("states", state_hash(if op.overflows { TWO64 } else { full }));
                let m = u64::MAX;
                // (expected, observed) as text; a Rust panic is Err
                let rust = op.side == Side::Rust;
                let res: Result<(String, String), String> = vcore::util::catch(|| match (op.kind, rust) {
                    ("len", true) => (full.to_string(), acc.len().to_string()),
                    ("len", false) => (full.to_string(), s.len.call(acc.clone()).to_string()),
                    ("is_empty", true) => ("false".into(), acc.is_empty().to_string()),
                    ("is_empty", false) => ("false".into(), s.is_empty.call(acc.clone()).to_string()),
                    ("capacity", true) => ("true".into(), (acc.capacity() >= acc.len()).to_string()),
                    ("capacity", false) => ("true".into(), (s.cap.call(acc.clone()) as u128 >= full).to_string()),
                    ("get", true) => {
                        if op.text.contains("- 1") {
                            ("Some(())".into(), format!("{:?}", acc.get(usize::MAX - 1)))
                        } else {
                            ("None".into(), format!("{:?}", acc.get(usize::MAX)))
                        }
                    }
                    ("get", false) => {
                        if op.text.contains("- 1") {
                            ("Some(())".into(), format!("{:?}", s.get.call(acc.clone(), m - 1)))
                        } else {
                            ("None".into(), format!("{:?}", s.get.call(acc.clone(), m)))
                        }
                    }
                    ("contains", true) => ("true".into(), acc.contains(&()).to_string()),
                    ("contains", false) => ("true".into(), s.contains.call(acc.clone(), ()).to_string()),
                    ("index", true) => ("Some(0)".into(), format!("{:?}", acc.index(&()))),
                    ("index", false) => ("Some(0)".into(), format!("{:?}", s.index.call(acc.clone(), ()))),
                    ("swap", true) => {
                        acc.swap(0, usize::MAX - 1);
                        (full.to_string(), acc.len().to_string())
                    }
                    ("swap", false) => {
                        s.swap.call(acc.clone(), 0, m - 1);
                        (full.to_string(), acc.len().to_string())
                    }
                    ("concat", true) if !op.overflows => (full.to_string(), acc.concat(&empty).len().to_string()),
                    ("plus", false) if !op.overflows => (full.to_string(), s.plus.call(acc.clone(), empty.clone()).len().to_string()),
                    ("concat", true) => ("loud failure".into(), format!("a list with len() == {}", acc.concat(&p0).len())),
                    ("concat", false) => ("loud failure".into(), format!("a list with len() == {}", s.concat.call(acc.clone(), p0.clone()).len())),
                    ("plus", false) => ("loud failure".into(), format!("a list with len() == {}", s.plus.call(acc.clone(), p0.clone()).len())),
                    ("push", true) => {
                        acc.push(());
                        ("loud failure".into(), format!("len() == {} after the push", acc.len()))
                    }
                    ("push", false) => {
                        s.push.call(acc.clone(), ());
                        ("loud failure".into(), format!("len() == {} after the push", acc.len()))
                    }
                    _ => ("?".into(), "unknown operation".into()),
                });
                match res {
                    Err(panic) => {
                        if op.overflows {
                            cx.count("loud_failures_rust_panic_on_length_overflow", 1);
                            cx.outcome(vcore::util::fnv_str("panic"));
                        } else {
                            cx.violation("panic", sub, describe(u, sub), json!("no panic"), json!(panic));
                        }
                    }
                    Ok((exp, obs)) => {
                        cx.outcome(vcore::util::fnv_str(&obs));
                        if exp != obs {
                            let class = if op.overflows { "wrong-length" } else { "result-mismatch" };
                            cx.violation(class, sub, describe(u, sub), json!(exp), json!(obs));
                        }
                    }
                }
            }
        }
    }
    cx.transitions(transitions);
    cx.validated(transitions);
    cx.count("doubling_family_transitions", transitions);
    if cx.unit == 0 {
        cx.sample(json!({"family": "zero-sized-doubling", "elem": "()", "start": "script{ [()] }",
            "steps": "l = l.concat(&l), 64 times, every step compared with the u128 model; the 64th must fail loudly"}));
    }
}

/// V2: unchecked length arithmetic of zero-sized element types.
pub fn matches(f: &Finding, v: &Violation) -> bool {
    let c = &v.case;
    match f.matcher.as_str() {
        "zero_sized_len_overflow" => {
            c["family"] == "zero-sized-doubling"
                && c["elem_zero_sized_without_clone_fn"] == true
                && c["len_sum_overflows_u64"] == true
                && ["concat", "plus", "push"].contains(&c["op_kind"].as_str().unwrap_or(""))
                && (v.class == "signal:SIGABRT" || v.class == "wrong-length")
        }
        _ => false,
    }
}
