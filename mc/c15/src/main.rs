//! C15 — lists behave like one shared growable array (E-HIST).
//!
//! Explicit-state search over REAL `roto::List` objects. A state is the history
//! (operation sequence) that reaches it; a transition rebuilds fresh real lists
//! by replaying the history and applies one more operation, from Rust (public
//! `List` API) or from a compiled one-liner script working on the same
//! underlying list. States are deduplicated by a canonical key of the
//! REFERENCE MODEL (`Rc<RefCell<Vec<_>>>` per list): the breadth-first search
//! itself is model-only and deterministic, so every worker computes the same
//! tree of representative histories; the units shard its nodes.
//!
//! Oracle on every transition: the result equals the model's; the complete
//! observable state (contents, len, is_empty, capacity >= len, aliasing
//! partition of the handles) equals the model's — so `concat`/`+` leave their
//! operands unchanged; after dropping all handles the host ledger is balanced
//! (no live tracked element, no double drop / clone of dead / garbage), the H1
//! allocation events are consistent (no buffer leaked, moved or freed while
//! not live), the number of live heap blocks is what it was, no heap block was
//! written outside its bounds (guard zones of the harness allocator, which
//! also poisons fresh and freed memory); the operation completes (watchdog).

use std::collections::HashMap;
use std::sync::OnceLock;

use vcore::{Cfg, Check, Cx, Finding, Meta, SUB_SETUP, Tier, Value, Violation, json};

mod alloc;
mod doubling;
mod model;
mod real;

use model::{Alpha, Model, Op, Res, Root, SEED_LENS, Shape, Side, Step, Tree};
use real::{Elem, Real, Scripts};

#[global_allocator]
static ALLOC: alloc::Guarded = alloc::Guarded;

// ---------------------------------------------------------------- plan

#[derive(Clone, Copy, Debug)]
struct TypeSpec {
    name: &'static str,
    nvals: u8,
    join: bool,
    /// the element type is a list
    nested: bool,
}

const T_U8: TypeSpec = TypeSpec { name: "u8", nvals: 2, join: false, nested: false };
const T_U64: TypeSpec = TypeSpec { name: "u64", nvals: 2, join: false, nested: false };
const T_STR: TypeSpec = TypeSpec { name: "String", nvals: 2, join: true, nested: false };
const T_NESTED: TypeSpec = TypeSpec { name: "List<u8>", nvals: 2, join: false, nested: true };
const T_Z: TypeSpec = TypeSpec { name: "Val<Z>", nvals: 1, join: false, nested: false };
const T_TR: TypeSpec = TypeSpec { name: "Val<Tr>", nvals: 2, join: false, nested: false };
const T_OPT: TypeSpec = TypeSpec { name: "Option<u32>", nvals: 2, join: false, nested: false };
// element types whose equality is not reflexive (NaN) and not bitwise (0.0 == -0.0)
const T_F64: TypeSpec = TypeSpec { name: "f64", nvals: 3, join: false, nested: false };
const T_F32: TypeSpec = TypeSpec { name: "f32", nvals: 3, join: false, nested: false };
const T_NESTED_F: TypeSpec = TypeSpec { name: "List<f64>", nvals: 3, join: false, nested: true };

/// what mk(0) and mk(1) are, per element type (for the written-out cases)
const ELEMENTS: [(&str, &str); 10] = [
    ("f64", "mk(0) = f64::NAN, mk(1) = 0.0, mk(2) = -0.0"),
    ("f32", "mk(0) = f32::NAN, mk(1) = 0.0, mk(2) = -0.0"),
    ("List<f64>", "mk(0) = a fresh List::from(vec![f64::NAN]), mk(1) = a fresh [0.0], mk(2) = a fresh [-0.0]"),
    ("u8", "mk(0) = 0u8, mk(1) = 1u8"),
    ("u64", "mk(0) = 0u64, mk(1) = 1u64"),
    ("String", "mk(0) = \"\", mk(1) = \"ab\""),
    ("List<u8>", "mk(0) = a fresh List::from(vec![]), mk(1) = a fresh List::from(vec![1u8, 2])"),
    ("Val<Z>", "mk(_) = Val(host::Z::new()) (zero-sized, drop-tracked)"),
    ("Val<Tr>", "mk(v) = Val(host::Tr::new(v)) (24 bytes, drop-tracked, compared by payload)"),
    ("Option<u32>", "mk(0) = None, mk(1) = Some(7)"),
];

/// one search: a root, a depth, the element types it is run for
#[derive(Clone, Debug)]
struct Search {
    root: Root,
    depth: usize,
    types: Vec<TypeSpec>,
}

#[derive(Clone, Copy, Debug)]
struct Bounds {
    depth_empty: usize,
    depth_seed: usize,
    /// depth from the one-handle seeds whose buffer is exactly full (length 4, 8, 16)
    depth_seed_full: usize,
    /// depth of the search from the empty state for `Option<u32>`
    depth_opt: usize,
    /// depth of the search from the empty state for f64, f32, List<f64> (three element values)
    depth_float: usize,
    swap_all_pairs: bool,
    chunk: usize,
}

fn bounds(tier: Tier) -> Bounds {
    match tier {
        Tier::Quick => Bounds { depth_empty: 4, depth_seed: 2, depth_seed_full: 3, depth_opt: 3, depth_float: 3, swap_all_pairs: true, chunk: 12 },
        Tier::Thorough => Bounds { depth_empty: 6, depth_seed: 3, depth_seed_full: 4, depth_opt: 5, depth_float: 4, swap_all_pairs: true, chunk: 12 },
    }
}

/// seed lengths at which the buffer is exactly full (the next push relocates it)
const FULL_LENS: [usize; 3] = [4, 8, 16];

fn searches(tier: Tier) -> Vec<Search> {
    let b = bounds(tier);
    let main = vec![T_U8, T_U64, T_STR, T_NESTED, T_Z, T_TR];
    let mut seed_types = main.clone();
    seed_types.push(T_F64);
    if tier == Tier::Thorough {
        seed_types.push(T_OPT);
    }
    let empty = Root { shape: Shape::Empty, len: 0, origin: Side::Rust };
    let mut v = vec![
        Search { root: empty, depth: b.depth_empty, types: main },
        Search { root: empty, depth: b.depth_opt, types: vec![T_OPT] },
        Search { root: empty, depth: b.depth_float, types: vec![T_F64, T_F32, T_NESTED_F] },
    ];
    for len in SEED_LENS {
        for shape in [Shape::One, Shape::Aliased, Shape::Distinct] {
            for origin in [Side::Rust, Side::Script] {
                let full = shape == Shape::One && FULL_LENS.contains(&len);
                let root = Root { shape, len, origin };
                if full && tier == Tier::Quick {
                    // quick: the deeper search from a full buffer only for one
                    // element type per buffer discipline (1 byte, 8 bytes,
                    // tracked 24 bytes, zero-sized)
                    let deep = [T_U8, T_U64, T_TR, T_Z];
                    let rest: Vec<TypeSpec> = seed_types.iter().copied().filter(|t| !deep.iter().any(|d| d.name == t.name)).collect();
                    v.push(Search { root, depth: b.depth_seed_full, types: deep.to_vec() });
                    v.push(Search { root, depth: b.depth_seed, types: rest });
                } else {
                    let depth = if full { b.depth_seed_full } else { b.depth_seed };
                    v.push(Search { root, depth, types: seed_types.clone() });
                }
            }
        }
    }
    v
}

#[derive(Clone, Copy, Debug)]
struct UnitSpec {
    search: usize,
    ty: TypeSpec,
    tree: usize,
    first: usize,
    n: usize,
}

struct Plan {
    searches: Vec<Search>,
    trees: Vec<Tree>,
    units: Vec<UnitSpec>,
    swap_all_pairs: bool,
}

fn alpha(ty: &TypeSpec, swap_all_pairs: bool) -> Alpha {
    Alpha { nvals: ty.nvals, join: ty.join, nested: ty.nested, swap_all_pairs }
}

fn build_plan(tier: Tier) -> Plan {
    let b = bounds(tier);
    let searches = searches(tier);
    let mut trees: Vec<Tree> = vec![];
    // (search, nvals) -> tree
    let mut index: HashMap<(usize, u8), usize> = HashMap::new();
    let mut units = vec![];
    for (si, s) in searches.iter().enumerate() {
        for ty in &s.types {
            index.entry((si, ty.nvals)).or_insert_with(|| {
                trees.push(model::bfs(&s.root, s.depth, &alpha(ty, b.swap_all_pairs)));
                trees.len() - 1
            });
        }
        let max_inner = s.types.iter().map(|ty| trees[index[&(si, ty.nvals)]].inner).max().unwrap_or(0);
        let mut first = 0;
        while first < max_inner {
            for ty in &s.types {
                let ti = index[&(si, ty.nvals)];
                let inner = trees[ti].inner;
                if first < inner {
                    units.push(UnitSpec { search: si, ty: *ty, tree: ti, first, n: b.chunk.min(inner - first) });
                }
            }
            first += b.chunk;
        }
    }
    Plan { searches, trees, units, swap_all_pairs: b.swap_all_pairs }
}

fn plan(tier: Tier) -> &'static Plan {
    static Q: OnceLock<Plan> = OnceLock::new();
    static T: OnceLock<Plan> = OnceLock::new();
    match tier {
        Tier::Quick => Q.get_or_init(|| build_plan(Tier::Quick)),
        Tier::Thorough => T.get_or_init(|| build_plan(Tier::Thorough)),
    }
}

// ---------------------------------------------------------------- one transition

struct Fail {
    class: &'static str,
    /// index of the failing step in history + [op]
    at: usize,
    expected: Value,
    observed: Value,
}

fn res_json(r: &Res) -> Value {
    json!(format!("{r:?}"))
}

fn state_json(s: &real::StateObs) -> Value {
    json!(s.iter().map(|x| match x {
        None => json!(null),
        Some(o) => json!({"items": o.items, "len": o.len, "is_empty": o.is_empty,
                           "capacity>=len": o.cap_ok, "same_list_as_slot": o.alias}),
    }).collect::<Vec<_>>())
}

/// Rebuild the root on fresh real lists, replay `hist`, apply `step`; compare
/// everything with the model. Returns the first disagreement.
fn execute<E: Elem>(scripts: &Scripts<E>, root: &Root, hist: &[Step], step: Step, outcome: &mut u64, replayed: &mut u64) -> Option<Box<Fail>> {
    if E::TRACKED {
        host::ledger_reset();
    }
    real::buffers_reset();
    let mut m = Model::from_root(root, E::NVALS);
    let mut r: Real<E> = Real::from_root(root, scripts);
    let mut fail: Option<Box<Fail>> = None;
    for (k, s) in hist.iter().chain(std::iter::once(&step)).enumerate() {
        let exp = real::adapt::<E>(*s, m.apply(*s));
        let obs = r.apply(scripts, *s);
        *replayed += 1;
        if k == hist.len() {
            *outcome = vcore::util::fnv_str(&format!("{}{:?}", s.op.kind(), obs));
        }
        if exp != obs {
            fail = Some(Box::new(Fail { class: "result-mismatch", at: k, expected: res_json(&exp), observed: res_json(&obs) }));
            break;
        }
    }
    if fail.is_none() {
        let exp = real::expected_state(&m);
        let obs = r.observe();
        if exp != obs {
            fail = Some(Box::new(Fail { class: "state-mismatch", at: hist.len(), expected: state_json(&exp), observed: state_json(&obs) }));
        }
    }
    drop(r);
    drop(m);
    let (bufs, banom) = real::buffers_snapshot();
    if fail.is_none() && (bufs != 0 || !banom.is_empty()) {
        fail = Some(Box::new(Fail {
            class: "buffer-events",
            at: hist.len(),
            expected: json!({"live_list_buffers_after_dropping_all_handles": 0, "anomalies": []}),
            observed: json!({"live_list_buffers_after_dropping_all_handles": bufs, "anomalies": banom}),
        }));
    }
    if E::TRACKED {
        let (live, z, anom) = host::ledger_snapshot();
        host::ledger_reset();
        if fail.is_none() && (!live.is_empty() || z != 0 || !anom.is_empty()) {
            let kinds: Vec<String> = anom
                .iter()
                .map(|a| match a {
                    host::Anomaly::DoubleDrop(_) => "double-drop".to_string(),
                    host::Anomaly::CloneOfDead(_) => "clone-of-dead".to_string(),
                    host::Anomaly::Garbage { op, .. } => format!("garbage-{op}"),
                    host::Anomaly::ZUnderflow => "zero-sized-underflow".to_string(),
                    host::Anomaly::ReadOfDead(_) => "read-of-dead".to_string(),
                })
                .collect();
            fail = Some(Box::new(Fail {
                class: "ledger",
                at: hist.len(),
                expected: json!({"live_tracked": 0, "z_live": 0, "anomalies": []}),
                observed: json!({"live_tracked_payloads": live.iter().map(|x| x.1).collect::<Vec<_>>(), "z_live": z, "anomalies": kinds}),
            }));
        }
    }
    fail
}

fn case_json(ty: &TypeSpec, root: &Root, hist: &[Step], step: Step, fail_at: Option<usize>, m_before: Option<&Model>) -> Value {
    let all: Vec<Step> = hist.iter().copied().chain(std::iter::once(step)).collect();
    let failed = fail_at.map(|k| all[k.min(all.len() - 1)]);
    let mut c = json!({
        "elem": ty.name,
        "mk": ELEMENTS.iter().find(|e| e.0 == ty.name).map(|e| e.1),
        "root": root.text(ty.nvals),
        "history": hist.iter().map(|s| s.text()).collect::<Vec<_>>().join("; "),
        "op": step.text(),
    });
    if let Some(f) = failed {
        // the step whose result (or the state after it) disagreed: `op` unless
        // index < number of history steps (then a step of the replayed prefix)
        c["failed_step"] = json!({"kind": f.op.kind(), "side": f.side.name(), "index": fail_at});
        if fail_at != Some(hist.len()) {
            c["failed_step"]["text"] = json!(f.text());
        }
        if let (Some(m), true) = (m_before, fail_at == Some(hist.len())) {
            match f.op {
                Op::Contains { h, v } | Op::Index { h, v } => {
                    c["failed_step"]["list_items"] = json!(m.items(h));
                    c["failed_step"]["v"] = json!(v);
                }
                Op::ToVec { h } | Op::Iter { h } => {
                    c["failed_step"]["list_items"] = json!(m.items(h));
                }
                _ => {}
            }
        }
    }
    c
}

// ---------------------------------------------------------------- units

fn run_typed<E: Elem>(u: &UnitSpec, p: &Plan, cx: &mut Cx) {
    let search = &p.searches[u.search];
    let tree = &p.trees[u.tree];
    let root = &search.root;
    let al = alpha(&u.ty, p.swap_all_pairs);
    if !cx.case(SUB_SETUP) {
        return;
    }
    let src = real::script_text::<E>();
    let rt = host::runtime();
    let mut pkg = match host::compile(&rt, &src) {
        Ok(p) => p,
        Err(e) => {
            cx.violation("compile", SUB_SETUP, json!({"elem": E::NAME, "script": src}), json!("compiles"), json!(format!("{e:?}")));
            return;
        }
    };
    let scripts: Scripts<E> = match real::load::<E>(&mut pkg) {
        Ok(s) => s,
        Err(e) => {
            cx.violation("get_function", SUB_SETUP, json!({"elem": E::NAME, "script": src}), json!("Ok"), json!(e));
            return;
        }
    };
    real::install_sink();

    let mut transitions = 0u64;
    let mut replayed = 0u64;
    let mut leak_reruns = 0u64;
    for off in 0..u.n {
        let node = u.first + off;
        let hist = tree.history(node);
        let depth = hist.len();
        let m = model::replay_model(root, &hist, E::NVALS);
        let key = m.key();
        let state_hash = vcore::util::mix(vcore::util::fnv_str(E::NAME), vcore::util::fnv(&key));
        let steps = model::alphabet(&m, depth, &al);
        for (oi, step) in steps.iter().enumerate() {
            let sub = ((off as u64) << 16) | oi as u64;
            if !cx.case(sub) {
                continue;
            }
            let mut outcome = 0u64;
            let mut attempt = 0;
            let fail = loop {
                let before = alloc::live_blocks();
                let guards = alloc::guard_hits();
                let res = vcore::util::catch(|| execute::<E>(&scripts, root, &hist, *step, &mut outcome, &mut replayed));
                let fail = match res {
                    Ok(f) => f,
                    Err(msg) => Some(Box::new(Fail { class: "panic", at: hist.len(), expected: json!("no panic"), observed: json!(msg) })),
                };
                let delta = alloc::live_blocks() - before;
                let hits = alloc::guard_hits();
                if fail.is_none() && hits != guards {
                    break Some(Box::new(Fail {
                        class: "heap-overrun",
                        at: hist.len(),
                        expected: json!("the guard zones around every heap block are intact when it is freed"),
                        observed: json!({"blocks_written_before_start": hits.0 - guards.0, "blocks_written_past_end": hits.1 - guards.1}),
                    }));
                }
                if fail.is_some() || delta == 0 {
                    break fail;
                }
                // a heap block more (or less) than before: lazily initialised
                // state somewhere, or a leak. A leak repeats.
                attempt += 1;
                leak_reruns += 1;
                if attempt >= 3 {
                    break Some(Box::new(Fail {
                        class: "heap-imbalance",
                        at: hist.len(),
                        expected: json!({"live_heap_blocks_delta": 0}),
                        observed: json!({"live_heap_blocks_delta": delta, "repeated": attempt}),
                    }));
                }
            };
            transitions += 1;
            cx.outcome(outcome);
            // the state this transition leads to
            let mut m2 = m.deep_clone();
            m2.apply(*step);
            let k2 = m2.key();
            cx.set("states", vcore::util::mix(vcore::util::fnv_str(E::NAME), vcore::util::fnv(&k2)));
            if step.op.mutates() && m2.live().iter().any(|h| m2.len(*h) > 0) && {
                let p = m2.partition();
                (0..model::SLOTS).any(|i| p[i] != 255 && p[i] as usize != i)
            } {
                cx.nontrivial(vcore::util::mix(vcore::util::fnv_str(E::NAME), vcore::util::fnv(&k2)));
            }
            if let Some(f) = fail {
                let case = case_json(&u.ty, root, &hist, *step, Some(f.at), Some(&m));
                cx.count(&format!("fail:{}:{}:{}:{}", f.class, E::NAME, case["failed_step"]["kind"].as_str().unwrap_or("?"), case["failed_step"]["side"].as_str().unwrap_or("?")), 1);
                cx.violation(f.class, sub, case, f.expected, f.observed);
            }
        }
        cx.set("states", state_hash);
        if off == 0 {
            if let Some(s) = steps.iter().rev().find(|s| matches!(s.op, Op::Concat { .. })) {
                cx.sample(json!({"elem": E::NAME, "root": root.text(E::NVALS),
                    "history": hist.iter().map(|s| s.text()).collect::<Vec<_>>().join("; "),
                    "then_every_enabled_operation_eg": s.text(), "enabled_operations": steps.len()}));
            }
        }
    }
    cx.transitions(transitions);
    cx.validated(transitions);
    cx.count("operations_applied_including_replayed_prefixes", replayed);
    cx.count("expanded_states", u.n as u64);
    if leak_reruns > 0 {
        cx.count("heap_delta_reruns", leak_reruns);
    }
    roto::verif::set_sink(None);
}

fn dispatch(u: &UnitSpec, p: &Plan, cx: &mut Cx) {
    match u.ty.name {
        "u8" => run_typed::<real::EU8>(u, p, cx),
        "u64" => run_typed::<real::EU64>(u, p, cx),
        "String" => run_typed::<real::EStr>(u, p, cx),
        "List<u8>" => run_typed::<real::ENested>(u, p, cx),
        "Val<Z>" => run_typed::<real::EZ>(u, p, cx),
        "Val<Tr>" => run_typed::<real::ETr>(u, p, cx),
        "Option<u32>" => run_typed::<real::EOpt>(u, p, cx),
        "f64" => run_typed::<real::EF64>(u, p, cx),
        "f32" => run_typed::<real::EF32>(u, p, cx),
        "List<f64>" => run_typed::<real::ENestedF>(u, p, cx),
        _ => unreachable!(),
    }
}

struct C15;

impl Check for C15 {
    fn id(&self) -> &'static str {
        "C15"
    }
    fn units(&self, cfg: &Cfg) -> usize {
        doubling::units().len() + plan(cfg.tier).units.len()
    }
    fn run_unit(&self, unit: usize, cx: &mut Cx) {
        // the (cheap) doubling family comes first and does not need the plan
        let du = doubling::units();
        if unit < du.len() {
            return doubling::run(&du[unit], cx);
        }
        let p = plan(cx.cfg.tier);
        let u = p.units[unit - du.len()];
        dispatch(&u, p, cx);
    }
    fn describe(&self, cfg: &Cfg, unit: usize, sub: u64) -> Value {
        let du = doubling::units();
        if unit < du.len() {
            return doubling::describe(&du[unit], sub);
        }
        let unit = unit - du.len();
        let p = plan(cfg.tier);
        let u = p.units[unit];
        let root = &p.searches[u.search].root;
        if sub == SUB_SETUP {
            return json!({"setup": "compile the one-liner scripts", "elem": u.ty.name});
        }
        let off = (sub >> 16) as usize;
        let oi = (sub & 0xffff) as usize;
        let tree = &p.trees[u.tree];
        if u.first + off >= tree.nodes.len() {
            return json!({"elem": u.ty.name, "error": "case index out of range"});
        }
        let hist = tree.history(u.first + off);
        let m = model::replay_model(root, &hist, u.ty.nvals);
        let steps = model::alphabet(&m, hist.len(), &alpha(&u.ty, p.swap_all_pairs));
        match steps.get(oi) {
            Some(s) => case_json(&u.ty, root, &hist, *s, Some(hist.len()), Some(&m)),
            None => json!({"elem": u.ty.name, "error": "case index out of range"}),
        }
    }
    fn matches(&self, f: &Finding, v: &Violation) -> bool {
        let c = &v.case;
        if doubling::matches(f, v) {
            return true;
        }
        match f.matcher.as_str() {
            // N2: Rust-side contains/index on List<Option<u32>> compares the
            // caller's `&Option<u32>` as if it were a `&RotoOption<u32>`. In that
            // reading `&Some(_)` is `RotoOption::None`, and `&None` is
            // `RotoOption::Some(<uninitialised payload>)`.
            "rust_contains_index_untransformed_option" => {
                let fs = &c["failed_step"];
                let kind = fs["kind"].as_str().unwrap_or("");
                if !(v.class == "result-mismatch"
                    && c["elem"] == "Option<u32>"
                    && fs["side"] == "rust"
                    && (kind == "contains" || kind == "index"))
                {
                    return false;
                }
                let items: Vec<u64> = fs["list_items"].as_array().map(|a| a.iter().filter_map(|x| x.as_u64()).collect()).unwrap_or_default();
                match fs["v"].as_u64() {
                    // searching Some(7): the defect finds the first None instead
                    Some(1) => {
                        let pos = items.iter().position(|x| *x == 0);
                        let predicted = if kind == "contains" {
                            format!("{:?}", Res::Bool(pos.is_some()))
                        } else {
                            format!("{:?}", Res::OptNum(pos.map(|i| i as u64)))
                        };
                        v.observed.as_str() == Some(predicted.as_str())
                    }
                    // searching None: the defect searches Some(garbage); it can
                    // never find a None, which is what was asked for
                    Some(0) => {
                        let not_found = if kind == "contains" { format!("{:?}", Res::Bool(false)) } else { format!("{:?}", Res::OptNum(None)) };
                        let some_pos = items.iter().position(|x| *x == 1);
                        let found_some = if kind == "contains" {
                            format!("{:?}", Res::Bool(some_pos.is_some()))
                        } else {
                            format!("{:?}", Res::OptNum(some_pos.map(|i| i as u64)))
                        };
                        let o = v.observed.as_str().unwrap_or("");
                        o == not_found || o == found_some
                    }
                    _ => false,
                }
            }
            // N8: a script that uses a zero-sized registered (clone) value
            // more than once omits the clone but not the drop. The script-side
            // copy loop `for x in l { r.push(x); }` therefore builds a list of
            // len elements that were never counted: exactly len drops too many.
            "script_copy_loop_zero_sized_clone_skipped" => {
                let fs = &c["failed_step"];
                let n = fs["list_items"].as_array().map_or(0, |a| a.len()) as i64;
                let o = &v.observed;
                v.class == "ledger"
                    && c["elem"] == "Val<Z>"
                    && fs["side"] == "script"
                    && fs["kind"] == "to_vec"
                    && n > 0
                    && o["z_live"].as_i64() == Some(-n)
                    && o["live_tracked_payloads"].as_array().is_some_and(|a| a.is_empty())
                    && o["anomalies"].as_array().is_some_and(|a| a.len() as i64 == n && a.iter().all(|x| x == "zero-sized-underflow"))
            }
            _ => false,
        }
    }
    fn meta(&self, cfg: &Cfg) -> Meta {
        let p = plan(cfg.tier);
        let b = bounds(cfg.tier);
        let mut per_search = vec![];
        for (si, s) in p.searches.iter().enumerate() {
            if si < 2 || si + 1 == p.searches.len() {
                let t: Vec<Value> = p
                    .units
                    .iter()
                    .filter(|u| u.search == si)
                    .map(|u| u.tree)
                    .collect::<std::collections::BTreeSet<_>>()
                    .iter()
                    .map(|ti| json!({"canonical_states": p.trees[*ti].nodes.len(), "expanded": p.trees[*ti].inner}))
                    .collect();
                per_search.push(json!({"root": s.root.text(2), "depth": s.depth,
                    "types": s.types.iter().map(|t| t.name).collect::<Vec<_>>(), "trees": t}));
            }
        }
        Meta {
            rule: "breadth-first search over histories: a state is a canonical key of the reference model = multiset over the distinct lists of (contents, side that created the list, number of handles on it) [capacity >= len is a model invariant]; handle names are factored out because the alphabet is closed under renaming of slots; the creating side is part of the key because it decides the list's vtable (script-made lists of Copy elements take the memcpy paths). From the representative (first-found) history of every state at depth < bound EVERY enabled operation is issued from EVERY side that has it (Rust API / compiled one-liner script); the alphabet lists Rust first at even depth and the script first at odd depth, so representative histories alternate between the sides. A transition is non-trivial when it mutates and leads to a state with a non-empty list shared by two handles.".into(),
            assumptions: vec![
                "64-bit target: usize::MAX == u64::MAX".into(),
                "equal model keys have equal futures under the model; the implementation's extra state (capacity, buffer address) is not in the key and is covered by the pre-filled seed roots around the growth boundaries".into(),
                "single thread (C16 owns concurrency)".into(),
                "script-side `to_vec` is a script copying the list with for+push; script-side `from(Vec)` is a list literal; `join` exists in scripts only; `Debug` in Rust only".into(),
            ],
            bounds: json!({
                "handles": model::SLOTS,
                "element_values": ["mk(0)", "mk(1)"],
                "indices": "{0, 1, len-1, len, len+1, MAX}",
                "depth_from_empty_state": b.depth_empty,
                "depth_from_empty_state_option_u32": b.depth_opt,
                "depth_from_empty_state_f64_f32_list_f64": b.depth_float,
                "depth_from_seed_states": b.depth_seed,
                "depth_from_one_handle_seeds_of_length_4_8_16": b.depth_seed_full,
                "seed_lengths": SEED_LENS,
                "seed_shapes": ["one handle", "two handles on the list", "two handles on two lists (second = [mk(1)] made by the other side)"],
                "seed_made_by": ["rust", "script"],
                "swap_index_pairs": if b.swap_all_pairs { "all (i, j) of the index set" } else { "i in the index set, j in {0, len-1, len, MAX}" },
                "cut_vs_design": if cfg.tier == Tier::Quick {
                    "seeds searched to depth 2 (one-handle seeds of length 4, 8, 16: depth 3 for u8, u64, Val<Tr>, Val<Z>), not 4; f64 from the empty state to depth 3 and in every seed, f32 and List<f64> from the empty state to depth 3 only; Option<u32> only from the empty state to depth 3; a new list always goes to the lowest free slot and is only compared when no slot is free; literals are [] [a] [0,1] [1,0]"
                } else {
                    "seeds searched to depth 3 (one-handle seeds of length 4, 8, 16: depth 4), not 6; f64, f32, List<f64> (three element values) from the empty state to depth 4, f64 also in every seed; Option<u32> from the empty state to depth 5, not 6; a new list always goes to the lowest free slot and is only compared when no slot is free; literals are [] [a] [0,1] [1,0]"
                },
                "zero_sized_doubling_family": {
                    "element_types": ["() held by Rust as List<()> (script-made list: no clone function)", "() inside one script", "record U { u: () } inside one script"],
                    "start_lengths": [1, 3],
                    "doublings": doubling::MAX_DOUBLINGS,
                    "sides": ["Rust concat", "script concat", "script +", "alternating"],
                    "also": "a list of exactly 2^64 - 1 units (built by Rust / by script): len, is_empty, capacity, get(MAX-1), get(MAX), contains, index, swap, concat with [], concat/+ with [()], push",
                    "oracle": "exact length (u128 model) or a loud failure; a Rust-side panic is loud; a wrong length or the death of the host on a script-issued operation is a violation",
                    "sequences": doubling::units().len(),
                },
                "searches": p.searches.len(),
                "examples": per_search,
            }),
            states_are: "distinct (element type, canonical model key) reached".into(),
            transitions_are: "operations applied to a freshly rebuilt real state and compared with the model (replayed prefix operations are counted separately)".into(),
        }
    }
    fn case_timeout_s(&self, cfg: &Cfg) -> f64 {
        cfg.tier.pick(10.0, 120.0)
    }
}

fn main() {
    if std::env::var("C15_STATS").is_ok() {
        for tier in [Tier::Quick, Tier::Thorough] {
            let t0 = std::time::Instant::now();
            let p = build_plan(tier);
            let mut trans = 0u64;
            for u in &p.units {
                let tree = &p.trees[u.tree];
                let root = &p.searches[u.search].root;
                for node in u.first..u.first + u.n {
                    let hist = tree.history(node);
                    let m = model::replay_model(root, &hist, u.ty.nvals);
                    trans += model::alphabet(&m, hist.len(), &alpha(&u.ty, p.swap_all_pairs)).len() as u64;
                }
            }
            let states: usize = p.units.iter().map(|u| u.n).sum();
            println!(
                "{}: searches={} trees={} units={} expanded(type x state)={} transitions={} tree0={}/{} in {:.2}s",
                tier.name(),
                p.searches.len(),
                p.trees.len(),
                p.units.len(),
                states,
                trans,
                p.trees[0].inner,
                p.trees[0].nodes.len(),
                t0.elapsed().as_secs_f64()
            );
        }
        return;
    }
    vcore::main(&C15)
}
