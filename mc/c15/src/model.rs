//! Reference model of C15: every list is an `Rc<RefCell<Vec<_>>>`, a handle
//! is a clone of the `Rc`. Also: the operation alphabet, the canonical state
//! key and the (model-only) breadth-first search that selects the
//! representative histories which are then replayed on the real lists.

use std::cell::RefCell;
use std::collections::HashSet;
use std::rc::Rc;

pub const SLOTS: usize = 3;
/// `usize::MAX` on the Rust side, `u64::MAX` on the script side
pub const MAXI: u64 = u64::MAX;

/// separator used by `join`
pub const SEP: &str = "-";
/// the two String elements (abstract values 0 and 1)
pub const STR: [&str; 2] = ["", "ab"];

#[derive(Clone, Copy, PartialEq, Eq, Debug, Hash, PartialOrd, Ord)]
pub enum Side {
    Rust,
    Script,
}

impl Side {
    pub fn name(self) -> &'static str {
        match self {
            Side::Rust => "rust",
            Side::Script => "script",
        }
    }
    pub fn other(self) -> Side {
        match self {
            Side::Rust => Side::Script,
            Side::Script => Side::Rust,
        }
    }
}

/// One operation on the handle slots `h0..h2`. Element values are abstract
/// (0 or 1), indices are concrete (`MAXI` = the maximal index of the side).
#[derive(Clone, Copy, PartialEq, Eq, Debug, Hash)]
pub enum Op {
    /// `h[d] = List::new()` / `List.new()`
    New { d: u8 },
    /// `h[d] = List::from(..n elements..)` / list literal `[]`, `[a]`, `[a, b]`
    Lit { d: u8, n: u8, a: u8, b: u8 },
    /// `h[d] = h[src].clone()` / a script returning its argument
    Clone { src: u8, d: u8 },
    /// drop the handle / pass it by value to a script that lets it go
    Drop { h: u8 },
    Push { h: u8, v: u8 },
    Get { h: u8, i: u64 },
    Len { h: u8 },
    IsEmpty { h: u8 },
    Cap { h: u8 },
    Swap { h: u8, i: u64, j: u64 },
    /// `a.concat(&b)` / `a.concat(b)` / `a + b` (plus: script only); the new
    /// list goes to slot `d` when there is a free one, else it is only compared
    Concat { a: u8, b: u8, plus: bool, d: Option<u8> },
    Contains { h: u8, v: u8 },
    Index { h: u8, v: u8 },
    Eq { a: u8, b: u8 },
    /// `to_vec()` / script: copy into a fresh list with `for` + `push`
    ToVec { h: u8 },
    /// `clone().into_iter()` / script: `for x in l { emit(x) }`
    Iter { h: u8 },
    /// script only, `List[String]` only
    Join { h: u8 },
    /// Rust only: `format!("{:?}")`
    Dbg { h: u8 },
    /// (nested element types only) compare the list with a fresh copy of
    /// itself whose elements are the SAME inner lists (clones of the handles):
    /// `let c = List::from(h.to_vec()); (h == c, c == h)` /
    /// `let r = []; for x in l { r.push(x); } l == r` and `r == l`
    EqCopy { h: u8 },
    /// (nested element types only) `h.contains(&h.get(0)?)`: search the list
    /// for a handle of its own first element
    ContainsOwn { h: u8 },
    /// (nested element types only) `h.index(&h.get(len - 1)?)`
    IndexOwn { h: u8 },
}

impl Op {
    /// can this operation change the model state?
    pub fn mutates(&self) -> bool {
        match self {
            Op::New { .. } | Op::Lit { .. } | Op::Clone { .. } | Op::Drop { .. } | Op::Push { .. } | Op::Swap { .. } => true,
            Op::Concat { d, .. } => d.is_some(),
            _ => false,
        }
    }
    pub fn kind(&self) -> &'static str {
        match self {
            Op::New { .. } => "new",
            Op::Lit { .. } => "from",
            Op::Clone { .. } => "clone",
            Op::Drop { .. } => "drop",
            Op::Push { .. } => "push",
            Op::Get { .. } => "get",
            Op::Len { .. } => "len",
            Op::IsEmpty { .. } => "is_empty",
            Op::Cap { .. } => "capacity",
            Op::Swap { .. } => "swap",
            Op::Concat { plus: false, .. } => "concat",
            Op::Concat { plus: true, .. } => "plus",
            Op::Contains { .. } => "contains",
            Op::Index { .. } => "index",
            Op::Eq { .. } => "eq",
            Op::ToVec { .. } => "to_vec",
            Op::Iter { .. } => "iter",
            Op::Join { .. } => "join",
            Op::Dbg { .. } => "debug",
            Op::EqCopy { .. } => "eq_copy",
            Op::ContainsOwn { .. } => "contains_own",
            Op::IndexOwn { .. } => "index_own",
        }
    }
}

#[derive(Clone, Copy, PartialEq, Eq, Debug, Hash)]
pub struct Step {
    pub op: Op,
    pub side: Side,
}

fn idx_name(i: u64) -> String {
    if i == MAXI { "MAX".into() } else { i.to_string() }
}

impl Step {
    /// the operation as source text of the side that issues it
    pub fn text(&self) -> String {
        let r = self.side == Side::Rust;
        match self.op {
            Op::New { d } => {
                if r { format!("h{d} = List::new()") } else { format!("h{d} = script{{ List.new() }}") }
            }
            Op::Lit { d, n, a, b } => {
                let items = match n {
                    0 => String::new(),
                    1 => format!("mk({a})"),
                    _ => format!("mk({a}), mk({b})"),
                };
                if !r {
                    format!("h{d} = script{{ [{items}] }}")
                } else if n == 1 {
                    format!("h{d} = List::from([{items}])")
                } else if n == 2 && a != 0 {
                    format!("h{d} = List::from(&[{items}][..])")
                } else {
                    format!("h{d} = List::from(vec![{items}])")
                }
            }
            Op::Clone { src, d } => {
                if r { format!("h{d} = h{src}.clone()") } else { format!("h{d} = script{{ fn(l) {{ l }} }}(h{src})") }
            }
            Op::Drop { h } => {
                if r { format!("drop(h{h})") } else { format!("script{{ fn(l) {{ }} }}(h{h})") }
            }
            Op::Push { h, v } => {
                if r { format!("h{h}.push(mk({v}))") } else { format!("script{{ h{h}.push(mk({v})) }}") }
            }
            Op::Get { h, i } => self.wrap(format!("h{h}.get({})", idx_name(i))),
            Op::Len { h } => self.wrap(format!("h{h}.len()")),
            Op::IsEmpty { h } => self.wrap(format!("h{h}.is_empty()")),
            Op::Cap { h } => self.wrap(format!("h{h}.capacity()")),
            Op::Swap { h, i, j } => self.wrap(format!("h{h}.swap({}, {})", idx_name(i), idx_name(j))),
            Op::Concat { a, b, plus, d } => {
                let e = if plus {
                    format!("h{a} + h{b}")
                } else if r {
                    format!("h{a}.concat(&h{b})")
                } else {
                    format!("h{a}.concat(h{b})")
                };
                let e = self.wrap(e);
                match d {
                    Some(d) => format!("h{d} = {e}"),
                    None => e,
                }
            }
            Op::Contains { h, v } => self.wrap(format!("h{h}.contains(mk({v}))")),
            Op::Index { h, v } => self.wrap(format!("h{h}.index(mk({v}))")),
            Op::Eq { a, b } => self.wrap(format!("h{a} == h{b}")),
            Op::ToVec { h } => {
                if r { format!("h{h}.to_vec()") } else { format!("script{{ let r = []; for x in h{h} {{ r.push(x); }} r }}") }
            }
            Op::Iter { h } => {
                if r { format!("h{h}.clone().into_iter().collect()") } else { format!("script{{ for x in h{h} {{ emit(x); }} }}") }
            }
            Op::Join { h } => self.wrap(format!("h{h}.join(\"{SEP}\")")),
            Op::Dbg { h } => format!("format!(\"{{:?}}\", h{h})"),
            Op::EqCopy { h } => {
                if r {
                    format!("{{ let c = List::from(h{h}.to_vec()); (h{h} == c, c == h{h}) }}")
                } else {
                    format!("script{{ let r = []; for x in h{h} {{ r.push(x); }} (h{h} == r, r == h{h}) }}")
                }
            }
            Op::ContainsOwn { h } => {
                if r {
                    format!("match h{h}.get(0) {{ Some(x) => h{h}.contains(&x), None => false }}")
                } else {
                    format!("script{{ match h{h}.get(0) {{ Some(x) => h{h}.contains(x), None => false }} }}")
                }
            }
            Op::IndexOwn { h } => {
                if r {
                    format!("match h{h}.get(h{h}.len() - 1) {{ Some(x) => h{h}.index(&x), None => None }}  (None when empty)")
                } else {
                    format!("script{{ match h{h}.get(h{h}.len() - 1) {{ Some(x) => h{h}.index(x), None => None }} }}  (None when empty)")
                }
            }
        }
    }
    fn wrap(&self, e: String) -> String {
        if self.side == Side::Rust { e } else { format!("script{{ {e} }}") }
    }
}

/// Result of an operation, in abstract terms
#[derive(Clone, Debug, PartialEq, Eq, Hash)]
pub enum Res {
    Unit,
    Bool(bool),
    Num(u64),
    OptNum(Option<u64>),
    OptElem(Option<u8>),
    Seq(Vec<u8>),
    Text(String),
    /// capacity >= len (the exact capacity is unspecified)
    CapOk(bool),
}

// ---------------------------------------------------------------- roots

#[derive(Clone, Copy, Debug, PartialEq, Eq)]
pub enum Shape {
    /// no handle at all (the initial state)
    Empty,
    /// h0 = pre-filled list
    One,
    /// h0 = pre-filled list, h1 = h0.clone()
    Aliased,
    /// h0 = pre-filled list, h1 = [1] made by the other side
    Distinct,
}

/// A start state of a search: the empty state or a pre-filled seed
#[derive(Clone, Copy, Debug, PartialEq, Eq)]
pub struct Root {
    pub shape: Shape,
    pub len: usize,
    /// which side creates and fills the pre-filled list
    pub origin: Side,
}

/// contents of a pre-filled list of length n: the first n of these
pub const PATTERN: [u8; 17] = [1, 0, 1, 1, 0, 0, 1, 0, 1, 1, 1, 0, 0, 1, 0, 1, 1];
/// contents of a pre-filled list of `len` elements for an element type with
/// `nvals` values; with three values (floats) every fifth element is value 2
pub fn pattern(len: usize, nvals: u8) -> Vec<u8> {
    (0..len).map(|i| if nvals == 3 && i % 5 == 4 { 2 } else { PATTERN[i] }).collect()
}
pub const SEED_LENS: [usize; 9] = [0, 3, 4, 5, 7, 8, 9, 16, 17];

impl Root {
    pub fn text(&self, nvals: u8) -> String {
        match self.shape {
            Shape::Empty => "no handles".into(),
            _ => {
                let fill = format!(
                    "h0 = new list made and filled by {} with {:?}",
                    self.origin.name(),
                    pattern(self.len, nvals)
                );
                match self.shape {
                    Shape::One => fill,
                    Shape::Aliased => format!("{fill}; h1 = h0.clone()"),
                    _ => format!("{fill}; h1 = [1] made by {}", self.origin.other().name()),
                }
            }
        }
    }
}

// ---------------------------------------------------------------- model

pub struct MList {
    pub items: Vec<u8>,
    /// which side created the list (decides the vtable of the real list)
    pub origin: Side,
}

pub type H = Rc<RefCell<MList>>;

fn mlist(items: Vec<u8>, origin: Side) -> H {
    Rc::new(RefCell::new(MList { items, origin }))
}

pub struct Model {
    pub h: [Option<H>; SLOTS],
    /// number of element values, which also fixes the element equality:
    /// 1 = zero-sized type (all elements are equal), 2 = two elements with
    /// reflexive equality (equal iff same value), 3 = floats: 0 = NaN,
    /// 1 = 0.0, 2 = -0.0 (NaN equals nothing, the two zeros equal each other)
    pub nvals: u8,
}

impl Model {
    pub fn from_root(r: &Root, nvals: u8) -> Model {
        let mut m = Model { h: [None, None, None], nvals };
        if r.shape == Shape::Empty {
            return m;
        }
        let items: Vec<u8> = pattern(r.len, nvals).iter().map(|v| m.nv(*v)).collect();
        let l = mlist(items, r.origin);
        match r.shape {
            Shape::Aliased => m.h[1] = Some(l.clone()),
            Shape::Distinct => m.h[1] = Some(mlist(vec![m.nv(1)], r.origin.other())),
            _ => {}
        }
        m.h[0] = Some(l);
        m
    }

    fn nv(&self, v: u8) -> u8 {
        if self.nvals > 1 { v } else { 0 }
    }

    /// element equality of the element type
    pub fn veq(&self, a: u8, b: u8) -> bool {
        match self.nvals {
            1 => true,
            3 => a != 0 && b != 0,
            _ => a == b,
        }
    }

    fn seq_eq(&self, a: &[u8], b: &[u8]) -> bool {
        a.len() == b.len() && a.iter().zip(b).all(|(x, y)| self.veq(*x, *y))
    }

    /// copy that preserves the aliasing
    pub fn deep_clone(&self) -> Model {
        let mut out = Model { h: [None, None, None], nvals: self.nvals };
        for i in 0..SLOTS {
            let Some(l) = &self.h[i] else { continue };
            if let Some(j) = (0..i).find(|j| self.h[*j].as_ref().is_some_and(|o| Rc::ptr_eq(o, l))) {
                out.h[i] = out.h[j].clone();
            } else {
                let b = l.borrow();
                out.h[i] = Some(mlist(b.items.clone(), b.origin));
            }
        }
        out
    }

    /// for each slot: 255 = dead, else the lowest slot holding the same list
    pub fn partition(&self) -> [u8; SLOTS] {
        let mut p = [255u8; SLOTS];
        for i in 0..SLOTS {
            let Some(l) = &self.h[i] else { continue };
            p[i] = (0..=i).find(|j| self.h[*j].as_ref().is_some_and(|o| Rc::ptr_eq(o, l))).unwrap() as u8;
        }
        p
    }

    pub fn items(&self, h: u8) -> Vec<u8> {
        self.h[h as usize].as_ref().expect("live handle").borrow().items.clone()
    }

    pub fn len(&self, h: u8) -> usize {
        self.h[h as usize].as_ref().expect("live handle").borrow().items.len()
    }

    pub fn live(&self) -> Vec<u8> {
        (0..SLOTS as u8).filter(|i| self.h[*i as usize].is_some()).collect()
    }

    pub fn first_dead(&self) -> Option<u8> {
        (0..SLOTS as u8).find(|i| self.h[*i as usize].is_none())
    }

    /// Canonical key: the multiset of (contents, creating side, number of
    /// handles) of the distinct lists. Handle names are irrelevant because the
    /// alphabet is closed under renaming of the slots. The flag
    /// `capacity >= len` is an invariant of the model (always true) and so
    /// contributes a constant.
    pub fn key(&self) -> Vec<u8> {
        let p = self.partition();
        let mut classes: Vec<Vec<u8>> = vec![];
        for i in 0..SLOTS {
            if p[i] as usize != i {
                continue;
            }
            let l = self.h[i].as_ref().unwrap().borrow();
            let n = p.iter().filter(|x| **x as usize == i).count() as u8;
            let mut c = vec![l.items.len() as u8, (l.items.len() >> 8) as u8];
            c.extend(&l.items);
            c.push(l.origin as u8);
            c.push(n);
            classes.push(c);
        }
        classes.sort();
        let mut k = vec![1u8]; // capacity >= len
        for c in classes {
            k.extend(c);
            k.push(0xfe);
        }
        k
    }

    pub fn apply(&mut self, s: Step) -> Res {
        match s.op {
            Op::New { d } => {
                self.h[d as usize] = Some(mlist(vec![], s.side));
                Res::Unit
            }
            Op::Lit { d, n, a, b } => {
                let items: Vec<u8> = [a, b][..n as usize].iter().map(|v| self.nv(*v)).collect();
                self.h[d as usize] = Some(mlist(items, s.side));
                Res::Unit
            }
            Op::Clone { src, d } => {
                self.h[d as usize] = self.h[src as usize].clone();
                Res::Unit
            }
            Op::Drop { h } => {
                self.h[h as usize] = None;
                Res::Unit
            }
            Op::Push { h, v } => {
                let v = self.nv(v);
                self.h[h as usize].as_ref().unwrap().borrow_mut().items.push(v);
                Res::Unit
            }
            Op::Get { h, i } => {
                let l = self.h[h as usize].as_ref().unwrap().borrow();
                Res::OptElem(usize::try_from(i).ok().and_then(|i| l.items.get(i).copied()))
            }
            Op::Len { h } => Res::Num(self.len(h) as u64),
            Op::IsEmpty { h } => Res::Bool(self.len(h) == 0),
            Op::Cap { .. } => Res::CapOk(true),
            Op::Swap { h, i, j } => {
                let mut l = self.h[h as usize].as_ref().unwrap().borrow_mut();
                let n = l.items.len() as u64;
                if i < n && j < n {
                    l.items.swap(i as usize, j as usize);
                }
                Res::Unit
            }
            Op::Concat { a, b, d, .. } => {
                let mut items = self.items(a);
                items.extend(self.items(b));
                // the new list inherits the vtable of the left operand
                let origin = self.h[a as usize].as_ref().unwrap().borrow().origin;
                if let Some(d) = d {
                    self.h[d as usize] = Some(mlist(items.clone(), origin));
                }
                Res::Seq(items)
            }
            Op::Contains { h, v } => {
                let v = self.nv(v);
                Res::Bool(self.items(h).iter().any(|x| self.veq(*x, v)))
            }
            Op::Index { h, v } => {
                let v = self.nv(v);
                Res::OptNum(self.items(h).iter().position(|x| self.veq(*x, v)).map(|i| i as u64))
            }
            // element-wise comparison of the two vectors, also when both
            // handles are the same vector (as `Vec<f64> == Vec<f64>` does)
            Op::Eq { a, b } => Res::Bool(self.seq_eq(&self.items(a), &self.items(b))),
            Op::ToVec { h } | Op::Iter { h } | Op::Dbg { h } => Res::Seq(self.items(h)),
            Op::EqCopy { h } => {
                let it = self.items(h);
                let e = self.seq_eq(&it, &it) as u8;
                Res::Seq(vec![e, e])
            }
            Op::ContainsOwn { h } => {
                let it = self.items(h);
                Res::Bool(it.first().is_some_and(|x| it.iter().any(|y| self.veq(*y, *x))))
            }
            Op::IndexOwn { h } => {
                let it = self.items(h);
                Res::OptNum(it.last().and_then(|x| it.iter().position(|y| self.veq(*y, *x))).map(|i| i as u64))
            }
            Op::Join { h } => {
                let v: Vec<&str> = self.items(h).iter().map(|v| STR[*v as usize]).collect();
                Res::Text(v.join(SEP))
            }
        }
    }
}

// ---------------------------------------------------------------- alphabet

/// what the alphabet depends on besides the state
#[derive(Clone, Copy, Debug, PartialEq, Eq)]
pub struct Alpha {
    /// number of element values: 2, 1 for the zero-sized type, 3 for floats
    pub nvals: u8,
    pub join: bool,
    /// the elements are lists themselves: also enumerate the operations that
    /// compare an element with a handle of the same inner list
    pub nested: bool,
    /// false: `swap` uses j in {0, len-1, len, MAX} only
    pub swap_all_pairs: bool,
}

/// indices {0, 1, len-1, len, len+1, MAX}, duplicates removed
pub fn indices(len: usize) -> Vec<u64> {
    let n = len as u64;
    let mut v = vec![0u64, 1];
    if n > 0 {
        v.push(n - 1);
    }
    v.extend([n, n + 1, MAXI]);
    let mut out = vec![];
    for x in v {
        if !out.contains(&x) {
            out.push(x);
        }
    }
    out
}

/// All operations enabled in a state, simplest first. Every operation
/// appears once per side that can issue it; which side comes first
/// alternates with the depth, so that the representative history of a state
/// (the first one that reaches its key) alternates between the two sides.
pub fn alphabet(m: &Model, depth: usize, al: &Alpha) -> Vec<Step> {
    let sides = if depth % 2 == 0 { [Side::Rust, Side::Script] } else { [Side::Script, Side::Rust] };
    let live = m.live();
    let dead = m.first_dead();
    let vals: Vec<u8> = (0..al.nvals).collect();
    let mut out = vec![];
    let both = |out: &mut Vec<Step>, op: Op| {
        for side in sides {
            out.push(Step { op, side });
        }
    };
    if let Some(d) = dead {
        both(&mut out, Op::New { d });
        both(&mut out, Op::Lit { d, n: 0, a: 0, b: 0 });
        for a in &vals {
            both(&mut out, Op::Lit { d, n: 1, a: *a, b: 0 });
        }
        if al.nvals > 1 {
            both(&mut out, Op::Lit { d, n: 2, a: 0, b: 1 });
            both(&mut out, Op::Lit { d, n: 2, a: 1, b: 0 });
        } else {
            both(&mut out, Op::Lit { d, n: 2, a: 0, b: 0 });
        }
        for src in &live {
            both(&mut out, Op::Clone { src: *src, d });
        }
    }
    for h in &live {
        let h = *h;
        for v in &vals {
            both(&mut out, Op::Push { h, v: *v });
        }
    }
    for h in &live {
        let h = *h;
        both(&mut out, Op::Len { h });
        both(&mut out, Op::IsEmpty { h });
        both(&mut out, Op::Cap { h });
        for i in indices(m.len(h)) {
            both(&mut out, Op::Get { h, i });
        }
        for v in &vals {
            both(&mut out, Op::Contains { h, v: *v });
            both(&mut out, Op::Index { h, v: *v });
        }
        both(&mut out, Op::ToVec { h });
        both(&mut out, Op::Iter { h });
        out.push(Step { op: Op::Dbg { h }, side: Side::Rust });
        if al.join {
            out.push(Step { op: Op::Join { h }, side: Side::Script });
        }
        if al.nested {
            both(&mut out, Op::EqCopy { h });
            both(&mut out, Op::ContainsOwn { h });
            both(&mut out, Op::IndexOwn { h });
        }
    }
    for a in &live {
        for b in &live {
            both(&mut out, Op::Eq { a: *a, b: *b });
        }
    }
    for h in &live {
        let h = *h;
        let n = m.len(h);
        let idx = indices(n);
        let js: Vec<u64> = if al.swap_all_pairs {
            idx.clone()
        } else {
            idx.iter().copied().filter(|j| *j == 0 || *j == (n as u64).wrapping_sub(1) || *j == n as u64 || *j == MAXI).collect()
        };
        for i in &idx {
            for j in &js {
                both(&mut out, Op::Swap { h, i: *i, j: *j });
            }
        }
    }
    for a in &live {
        for b in &live {
            for side in sides {
                out.push(Step { op: Op::Concat { a: *a, b: *b, plus: false, d: dead }, side });
            }
            out.push(Step { op: Op::Concat { a: *a, b: *b, plus: true, d: dead }, side: Side::Script });
        }
    }
    for h in &live {
        both(&mut out, Op::Drop { h: *h });
    }
    out
}

// ---------------------------------------------------------------- search

pub struct Node {
    pub parent: u32,
    pub step: Option<Step>,
    pub depth: u8,
}

/// The BFS tree of one root: node 0 is the root; every node is the
/// representative (first-found) history of one canonical key.
pub struct Tree {
    pub root: Root,
    pub nodes: Vec<Node>,
    /// number of nodes with depth < max depth (these are expanded)
    pub inner: usize,
    pub keys: Vec<u64>,
}

impl Tree {
    pub fn history(&self, mut i: usize) -> Vec<Step> {
        let mut v = vec![];
        while let Some(s) = self.nodes[i].step {
            v.push(s);
            i = self.nodes[i].parent as usize;
        }
        v.reverse();
        v
    }
}

pub fn replay_model(root: &Root, hist: &[Step], nvals: u8) -> Model {
    let mut m = Model::from_root(root, nvals);
    for s in hist {
        m.apply(*s);
    }
    m
}

/// Model-only breadth-first search to `max_depth`. Deterministic: the same in
/// every worker and in the parent.
pub fn bfs(root: &Root, max_depth: usize, al: &Alpha) -> Tree {
    let distinct = al.nvals;
    let mut t = Tree { root: *root, nodes: vec![Node { parent: u32::MAX, step: None, depth: 0 }], inner: 0, keys: vec![] };
    let mut seen: HashSet<Vec<u8>> = HashSet::new();
    let k0 = Model::from_root(root, distinct).key();
    t.keys.push(vcore::util::fnv(&k0));
    seen.insert(k0);
    let mut i = 0;
    while i < t.nodes.len() {
        let depth = t.nodes[i].depth as usize;
        if depth >= max_depth {
            break; // BFS order: all following nodes are at max depth too
        }
        let hist = t.history(i);
        let m = replay_model(root, &hist, distinct);
        for s in alphabet(&m, depth, al) {
            if !s.op.mutates() {
                continue;
            }
            // a swap that does nothing under the model leads back to this state
            if let Op::Swap { h, i, j } = s.op {
                let l = m.h[h as usize].as_ref().unwrap().borrow();
                let n = l.items.len() as u64;
                if i >= n || j >= n || l.items[i as usize] == l.items[j as usize] {
                    continue;
                }
            }
            let mut m2 = m.deep_clone();
            m2.apply(s);
            let k = m2.key();
            if !seen.contains(&k) {
                t.keys.push(vcore::util::fnv(&k));
                seen.insert(k);
                t.nodes.push(Node { parent: i as u32, step: Some(s), depth: depth as u8 + 1 });
            }
        }
        i += 1;
    }
    t.inner = t.nodes.iter().filter(|n| (n.depth as usize) < max_depth).count();
    t
}
