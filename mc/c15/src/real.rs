//! The implementation side: real `roto::List<T>` handles, operated from Rust
//! through the public API and from compiled one-liner scripts.

use std::sync::Mutex;

use host::Ev;
use roto::{List, NoCtx, Package, RotoString, TypedFunc, Val, Value};

use crate::model::{Op, Res, Root, SEP, SLOTS, Shape, Side, Step};

// ---------------------------------------------------------------- elements

/// An element type of the lists under test. Abstract values 0 and 1 are
/// mapped to two different elements by `mk`, and back by `abs` (255 = an
/// element that is neither).
pub trait Elem: 'static + Sized {
    type T: Value<Transformed: PartialEq> + Clone + std::fmt::Debug;
    /// name used in evidence and findings
    const NAME: &'static str;
    /// the element type in Roto source
    const ROTO: &'static str;
    /// number of element values (see `Model::nvals`): 1 = zero-sized, all
    /// equal; 2 = two elements, reflexive equality; 3 = NaN, 0.0, -0.0
    const NVALS: u8 = 2;
    const JOIN: bool = false;
    /// elements are registered in the host ledger
    const TRACKED: bool = false;
    /// statement(s) inside `for x in l { .. }` that show `x` to the host
    const EMIT: &'static str;
    fn mk(v: u8) -> Self::T;
    fn abs(t: &Self::T) -> u8;
    /// abstract elements from what the `for` loop logged
    fn decode(log: Vec<Ev>) -> Vec<u8>;
}

fn small(n: i128) -> u8 {
    if (0..=1).contains(&n) { n as u8 } else { 255 }
}

pub struct EU8;
impl Elem for EU8 {
    type T = u8;
    const NAME: &'static str = "u8";
    const ROTO: &'static str = "u8";
    const EMIT: &'static str = "emit_u8(x);";
    fn mk(v: u8) -> u8 {
        v
    }
    fn abs(t: &u8) -> u8 {
        small(*t as i128)
    }
    fn decode(log: Vec<Ev>) -> Vec<u8> {
        log.iter().map(|e| if let Ev::Int("u8", n) = e { small(*n) } else { 254 }).collect()
    }
}

pub struct EU64;
impl Elem for EU64 {
    type T = u64;
    const NAME: &'static str = "u64";
    const ROTO: &'static str = "u64";
    const EMIT: &'static str = "emit_u64(x);";
    fn mk(v: u8) -> u64 {
        v as u64
    }
    fn abs(t: &u64) -> u8 {
        small(*t as i128)
    }
    fn decode(log: Vec<Ev>) -> Vec<u8> {
        log.iter().map(|e| if let Ev::Int("u64", n) = e { small(*n) } else { 254 }).collect()
    }
}

fn str_abs(s: &str) -> u8 {
    crate::model::STR.iter().position(|x| *x == s).map_or(255, |i| i as u8)
}

pub struct EStr;
impl Elem for EStr {
    type T = RotoString;
    const NAME: &'static str = "String";
    const ROTO: &'static str = "String";
    const JOIN: bool = true;
    const EMIT: &'static str = "emit_str(x);";
    fn mk(v: u8) -> RotoString {
        RotoString::from(crate::model::STR[v as usize])
    }
    fn abs(t: &RotoString) -> u8 {
        str_abs(&t.to_string())
    }
    fn decode(log: Vec<Ev>) -> Vec<u8> {
        log.iter().map(|e| if let Ev::Str(s) = e { str_abs(s) } else { 254 }).collect()
    }
}

/// nested lists: 0 = `[]`, 1 = `[1, 2]` (a fresh inner list per `mk`)
pub struct ENested;
const INNER: [&[u8]; 2] = [&[], &[1, 2]];
impl Elem for ENested {
    type T = List<u8>;
    const NAME: &'static str = "List<u8>";
    const ROTO: &'static str = "List[u8]";
    const EMIT: &'static str = "emit_u64(x.len()); for y in x { emit_u8(y); }";
    fn mk(v: u8) -> List<u8> {
        List::from(INNER[v as usize].to_vec())
    }
    fn abs(t: &List<u8>) -> u8 {
        let v = t.to_vec();
        INNER.iter().position(|x| **x == v[..]).map_or(255, |i| i as u8)
    }
    fn decode(log: Vec<Ev>) -> Vec<u8> {
        let mut out = vec![];
        let mut i = 0;
        while i < log.len() {
            let Ev::Int("u64", n) = log[i] else {
                out.push(254);
                break;
            };
            let n = n as usize;
            i += 1;
            let mut inner = vec![];
            for _ in 0..n {
                match log.get(i) {
                    Some(Ev::Int("u8", x)) => inner.push(*x as u8),
                    _ => inner.push(254),
                }
                i += 1;
            }
            out.push(INNER.iter().position(|x| **x == inner[..]).map_or(255, |i| i as u8));
        }
        out
    }
}

pub struct EZ;
impl Elem for EZ {
    type T = Val<host::Z>;
    const NAME: &'static str = "Val<Z>";
    const ROTO: &'static str = "Z";
    const NVALS: u8 = 1;
    const TRACKED: bool = true;
    // `x` is deliberately not consumed here: using a zero-sized registered
    // value twice in a script drops it once too often (finding N8, not a list
    // defect); the script-side `to_vec` (for + push) is the variant that
    // shows it, this is the variant without it.
    const EMIT: &'static str = "e(0);";
    fn mk(_: u8) -> Val<host::Z> {
        Val(host::Z::new())
    }
    fn abs(_: &Val<host::Z>) -> u8 {
        0
    }
    fn decode(log: Vec<Ev>) -> Vec<u8> {
        log.iter().map(|e| if let Ev::Mark(0) = e { 0 } else { 254 }).collect()
    }
}

pub struct ETr;
impl Elem for ETr {
    type T = Val<host::Tr>;
    const NAME: &'static str = "Val<Tr>";
    const ROTO: &'static str = "Tr";
    const TRACKED: bool = true;
    const EMIT: &'static str = "emit_tr(x);";
    fn mk(v: u8) -> Val<host::Tr> {
        Val(host::Tr::new(v as u64))
    }
    fn abs(t: &Val<host::Tr>) -> u8 {
        small(t.0.payload as i128)
    }
    fn decode(log: Vec<Ev>) -> Vec<u8> {
        log.iter().map(|e| if let Ev::Tr(n) = e { small(*n as i128) } else { 254 }).collect()
    }
}

/// `Option<u32>`: its `Transformed` (`RotoOption<u32>`) has another layout.
/// 0 = `None`, 1 = `Some(7)`.
pub struct EOpt;
impl Elem for EOpt {
    type T = Option<u32>;
    const NAME: &'static str = "Option<u32>";
    const ROTO: &'static str = "u32?";
    const EMIT: &'static str = "match x { Some(v) => emit_u32(v), None => emit_bool(false), }";
    fn mk(v: u8) -> Option<u32> {
        if v == 0 { None } else { Some(7) }
    }
    fn abs(t: &Option<u32>) -> u8 {
        match t {
            None => 0,
            Some(7) => 1,
            _ => 255,
        }
    }
    fn decode(log: Vec<Ev>) -> Vec<u8> {
        log.iter()
            .map(|e| match e {
                Ev::Bool(false) => 0,
                Ev::Int("u32", 7) => 1,
                Ev::Int("u32", _) => 255,
                _ => 254,
            })
            .collect()
    }
}

/// floats: 0 = NaN, 1 = 0.0, 2 = -0.0 (equality is not reflexive, and not
/// bitwise: NaN != NaN, 0.0 == -0.0)
fn f64_mk(v: u8) -> f64 {
    [f64::NAN, 0.0, -0.0][v as usize]
}
fn f64_abs(x: f64) -> u8 {
    if x.is_nan() {
        0
    } else if x.to_bits() == 0 {
        1
    } else if x.to_bits() == (-0.0f64).to_bits() {
        2
    } else {
        255
    }
}

pub struct EF64;
impl Elem for EF64 {
    type T = f64;
    const NAME: &'static str = "f64";
    const ROTO: &'static str = "f64";
    const NVALS: u8 = 3;
    const EMIT: &'static str = "emit_f64(x);";
    fn mk(v: u8) -> f64 {
        f64_mk(v)
    }
    fn abs(t: &f64) -> u8 {
        f64_abs(*t)
    }
    fn decode(log: Vec<Ev>) -> Vec<u8> {
        log.iter().map(|e| if let Ev::F64(b) = e { f64_abs(f64::from_bits(*b)) } else { 254 }).collect()
    }
}

pub struct EF32;
impl Elem for EF32 {
    type T = f32;
    const NAME: &'static str = "f32";
    const ROTO: &'static str = "f32";
    const NVALS: u8 = 3;
    const EMIT: &'static str = "emit_f32(x);";
    fn mk(v: u8) -> f32 {
        [f32::NAN, 0.0, -0.0][v as usize]
    }
    fn abs(t: &f32) -> u8 {
        f64_abs(*t as f64)
    }
    fn decode(log: Vec<Ev>) -> Vec<u8> {
        log.iter().map(|e| if let Ev::F32(b) = e { f64_abs(f32::from_bits(*b) as f64) } else { 254 }).collect()
    }
}

/// nested lists of floats: 0 = `[NaN]`, 1 = `[0.0]`, 2 = `[-0.0]` (a fresh
/// inner list per `mk`); inner lists compare element-wise, so the equality of
/// these elements is the float equality
pub struct ENestedF;
impl ENestedF {
    fn inner_abs(v: &[f64]) -> u8 {
        if v.len() == 1 { f64_abs(v[0]) } else { 255 }
    }
}
impl Elem for ENestedF {
    type T = List<f64>;
    const NAME: &'static str = "List<f64>";
    const ROTO: &'static str = "List[f64]";
    const NVALS: u8 = 3;
    const EMIT: &'static str = "emit_u64(x.len()); for y in x { emit_f64(y); }";
    fn mk(v: u8) -> List<f64> {
        List::from(vec![f64_mk(v)])
    }
    fn abs(t: &List<f64>) -> u8 {
        Self::inner_abs(&t.to_vec())
    }
    fn decode(log: Vec<Ev>) -> Vec<u8> {
        let mut out = vec![];
        let mut i = 0;
        while i < log.len() {
            let Ev::Int("u64", n) = log[i] else {
                out.push(254);
                break;
            };
            i += 1;
            let mut inner = vec![];
            for _ in 0..n as usize {
                match log.get(i) {
                    Some(Ev::F64(b)) => inner.push(f64::from_bits(*b)),
                    _ => inner.push(1.5),
                }
                i += 1;
            }
            out.push(Self::inner_abs(&inner));
        }
        out
    }
}

// ---------------------------------------------------------------- scripts

pub type L<E> = List<<E as Elem>::T>;
type F<X> = TypedFunc<NoCtx, X>;

/// One compiled one-liner per operation
pub struct Scripts<E: Elem> {
    pub new: F<fn() -> L<E>>,
    pub lit0: F<fn() -> L<E>>,
    pub lit1: F<fn(E::T) -> L<E>>,
    pub lit2: F<fn(E::T, E::T) -> L<E>>,
    pub id: F<fn(L<E>) -> L<E>>,
    pub eat: F<fn(L<E>) -> ()>,
    pub push: F<fn(L<E>, E::T) -> ()>,
    pub get: F<fn(L<E>, u64) -> Option<E::T>>,
    pub len: F<fn(L<E>) -> u64>,
    pub is_empty: F<fn(L<E>) -> bool>,
    pub cap: F<fn(L<E>) -> u64>,
    pub swap: F<fn(L<E>, u64, u64) -> ()>,
    pub concat: F<fn(L<E>, L<E>) -> L<E>>,
    pub plus: F<fn(L<E>, L<E>) -> L<E>>,
    pub contains: F<fn(L<E>, E::T) -> bool>,
    pub index: F<fn(L<E>, E::T) -> Option<u64>>,
    pub eq: F<fn(L<E>, L<E>) -> bool>,
    pub copy: F<fn(L<E>) -> L<E>>,
    pub iter: F<fn(L<E>) -> ()>,
    pub join: Option<F<fn(L<E>, RotoString) -> RotoString>>,
    pub eq_copy: F<fn(L<E>) -> bool>,
    pub copy_eq: F<fn(L<E>) -> bool>,
    pub contains_own: F<fn(L<E>) -> bool>,
    pub index_own: F<fn(L<E>) -> Option<u64>>,
}

pub fn script_text<E: Elem>() -> String {
    let t = E::ROTO;
    let emit = E::EMIT;
    let mut s = format!(
        "\
fn s_new() -> List[{t}] {{ List.new() }}
fn s_lit0() -> List[{t}] {{ [] }}
fn s_lit1(a: {t}) -> List[{t}] {{ [a] }}
fn s_lit2(a: {t}, b: {t}) -> List[{t}] {{ [a, b] }}
fn s_id(l: List[{t}]) -> List[{t}] {{ l }}
fn s_eat(l: List[{t}]) {{ }}
fn s_push(l: List[{t}], v: {t}) {{ l.push(v) }}
fn s_get(l: List[{t}], i: u64) -> Option[{t}] {{ l.get(i) }}
fn s_len(l: List[{t}]) -> u64 {{ l.len() }}
fn s_is_empty(l: List[{t}]) -> bool {{ l.is_empty() }}
fn s_cap(l: List[{t}]) -> u64 {{ l.capacity() }}
fn s_swap(l: List[{t}], i: u64, j: u64) {{ l.swap(i, j) }}
fn s_concat(a: List[{t}], b: List[{t}]) -> List[{t}] {{ a.concat(b) }}
fn s_plus(a: List[{t}], b: List[{t}]) -> List[{t}] {{ a + b }}
fn s_contains(l: List[{t}], v: {t}) -> bool {{ l.contains(v) }}
fn s_index(l: List[{t}], v: {t}) -> u64? {{ l.index(v) }}
fn s_eq(a: List[{t}], b: List[{t}]) -> bool {{ a == b }}
fn s_copy(l: List[{t}]) -> List[{t}] {{ let r = []; for x in l {{ r.push(x); }} r }}
fn s_iter(l: List[{t}]) {{ for x in l {{ {emit} }} }}
fn s_eq_copy(l: List[{t}]) -> bool {{ let r = []; for x in l {{ r.push(x); }} l == r }}
fn s_copy_eq(l: List[{t}]) -> bool {{ let r = []; for x in l {{ r.push(x); }} r == l }}
fn s_contains_own(l: List[{t}]) -> bool {{ match l.get(0) {{ Some(x) => l.contains(x), None => false, }} }}
fn s_index_own(l: List[{t}]) -> u64? {{ if l.len() == 0 {{ None }} else {{ match l.get(l.len() - 1) {{ Some(x) => l.index(x), None => None, }} }} }}
"
    );
    if E::JOIN {
        s.push_str("fn s_join(l: List[String], sep: String) -> String { l.join(sep) }\n");
    }
    s
}

pub fn load<E: Elem>(pkg: &mut Package<NoCtx>) -> Result<Scripts<E>, String> {
    macro_rules! g {
        ($name:literal) => {
            pkg.get_function($name).map_err(|e| format!("get_function({}): {e}", $name))?
        };
    }
    Ok(Scripts {
        new: g!("s_new"),
        lit0: g!("s_lit0"),
        lit1: g!("s_lit1"),
        lit2: g!("s_lit2"),
        id: g!("s_id"),
        eat: g!("s_eat"),
        push: g!("s_push"),
        get: g!("s_get"),
        len: g!("s_len"),
        is_empty: g!("s_is_empty"),
        cap: g!("s_cap"),
        swap: g!("s_swap"),
        concat: g!("s_concat"),
        plus: g!("s_plus"),
        contains: g!("s_contains"),
        index: g!("s_index"),
        eq: g!("s_eq"),
        copy: g!("s_copy"),
        iter: g!("s_iter"),
        join: if E::JOIN { Some(g!("s_join")) } else { None },
        eq_copy: g!("s_eq_copy"),
        copy_eq: g!("s_copy_eq"),
        contains_own: g!("s_contains_own"),
        index_own: g!("s_index_own"),
    })
}

// ---------------------------------------------------------------- real state

/// Address of the shared allocation behind a handle. `List<T>` is
/// `repr(transparent)` over a struct holding a single `Arc`, so its first word
/// is that pointer. Only compared for equality (aliasing partition).
fn list_addr<T: Value>(l: &List<T>) -> usize {
    // SAFETY: reads one word of a live value that is exactly one word long
    assert_eq!(std::mem::size_of::<List<T>>(), std::mem::size_of::<usize>());
    unsafe { *(l as *const List<T> as *const usize) }
}

pub struct Real<E: Elem> {
    pub h: [Option<L<E>>; SLOTS],
}

/// What is observable of one slot
#[derive(Debug, PartialEq, Eq, Clone)]
pub struct SlotObs {
    pub items: Vec<u8>,
    pub len: u64,
    pub is_empty: bool,
    pub cap_ok: bool,
    /// lowest slot holding the same list
    pub alias: u8,
}

pub type StateObs = [Option<SlotObs>; SLOTS];

pub fn expected_state(m: &crate::model::Model) -> StateObs {
    let p = m.partition();
    std::array::from_fn(|i| {
        m.h[i].as_ref().map(|l| {
            let l = l.borrow();
            SlotObs {
                items: l.items.clone(),
                len: l.items.len() as u64,
                is_empty: l.items.is_empty(),
                cap_ok: true,
                alias: p[i],
            }
        })
    })
}

impl<E: Elem> Real<E> {
    pub fn from_root(root: &Root, s: &Scripts<E>) -> Real<E> {
        let mut r = Real { h: [None, None, None] };
        if root.shape == Shape::Empty {
            return r;
        }
        let fill = |side: Side, items: &[u8]| -> L<E> {
            match side {
                Side::Rust => {
                    let l = List::new();
                    for v in items {
                        l.push(E::mk(*v));
                    }
                    l
                }
                Side::Script => {
                    let l = s.new.call();
                    for v in items {
                        s.push.call(l.clone(), E::mk(*v));
                    }
                    l
                }
            }
        };
        let l = fill(root.origin, &crate::model::pattern(root.len, E::NVALS));
        match root.shape {
            Shape::Aliased => r.h[1] = Some(l.clone()),
            Shape::Distinct => r.h[1] = Some(fill(root.origin.other(), &[1])),
            _ => {}
        }
        r.h[0] = Some(l);
        r
    }

    fn l(&self, h: u8) -> &L<E> {
        self.h[h as usize].as_ref().expect("live handle")
    }

    fn seq(l: &L<E>) -> Vec<u8> {
        l.to_vec().iter().map(E::abs).collect()
    }

    pub fn observe(&self) -> StateObs {
        std::array::from_fn(|i| {
            self.h[i].as_ref().map(|l| {
                let len = l.len();
                let a = list_addr(l);
                SlotObs {
                    items: Self::seq(l),
                    len: len as u64,
                    is_empty: l.is_empty(),
                    cap_ok: l.capacity() >= len,
                    alias: (0..=i).find(|j| self.h[*j].as_ref().is_some_and(|o| list_addr(o) == a)).unwrap() as u8,
                }
            })
        })
    }

    /// Issue one operation from the given side
    pub fn apply(&mut self, s: &Scripts<E>, step: Step) -> Res {
        let rust = step.side == Side::Rust;
        match step.op {
            Op::New { d } => {
                let l = if rust { List::new() } else { s.new.call() };
                self.h[d as usize] = Some(l);
                Res::Unit
            }
            Op::Lit { d, n, a, b } => {
                let l: L<E> = match (rust, n) {
                    (true, 0) => List::from(Vec::new()),
                    (true, 1) => List::from([E::mk(a)]),
                    (true, _) if a == 0 => List::from(vec![E::mk(a), E::mk(b)]),
                    (true, _) => List::from(&[E::mk(a), E::mk(b)][..]),
                    (false, 0) => s.lit0.call(),
                    (false, 1) => s.lit1.call(E::mk(a)),
                    (false, _) => s.lit2.call(E::mk(a), E::mk(b)),
                };
                self.h[d as usize] = Some(l);
                Res::Unit
            }
            Op::Clone { src, d } => {
                let l = if rust { self.l(src).clone() } else { s.id.call(self.l(src).clone()) };
                self.h[d as usize] = Some(l);
                Res::Unit
            }
            Op::Drop { h } => {
                let l = self.h[h as usize].take().expect("live handle");
                if rust { drop(l) } else { s.eat.call(l) }
                Res::Unit
            }
            Op::Push { h, v } => {
                if rust { self.l(h).push(E::mk(v)) } else { s.push.call(self.l(h).clone(), E::mk(v)) }
                Res::Unit
            }
            Op::Get { h, i } => {
                let r = if rust { self.l(h).get(i as usize) } else { s.get.call(self.l(h).clone(), i) };
                Res::OptElem(r.as_ref().map(E::abs))
            }
            Op::Len { h } => Res::Num(if rust { self.l(h).len() as u64 } else { s.len.call(self.l(h).clone()) }),
            Op::IsEmpty { h } => {
                Res::Bool(if rust { self.l(h).is_empty() } else { s.is_empty.call(self.l(h).clone()) })
            }
            Op::Cap { h } => {
                let l = self.l(h);
                Res::CapOk(if rust {
                    l.capacity() >= l.len()
                } else {
                    s.cap.call(l.clone()) >= s.len.call(l.clone())
                })
            }
            Op::Swap { h, i, j } => {
                if rust { self.l(h).swap(i as usize, j as usize) } else { s.swap.call(self.l(h).clone(), i, j) }
                Res::Unit
            }
            Op::Concat { a, b, plus, d } => {
                let new = if rust {
                    self.l(a).concat(self.l(b))
                } else if plus {
                    s.plus.call(self.l(a).clone(), self.l(b).clone())
                } else {
                    s.concat.call(self.l(a).clone(), self.l(b).clone())
                };
                let r = Res::Seq(Self::seq(&new));
                if let Some(d) = d {
                    self.h[d as usize] = Some(new);
                }
                r
            }
            Op::Contains { h, v } => Res::Bool(if rust {
                self.l(h).contains(&E::mk(v))
            } else {
                s.contains.call(self.l(h).clone(), E::mk(v))
            }),
            Op::Index { h, v } => Res::OptNum(if rust {
                self.l(h).index(&E::mk(v)).map(|i| i as u64)
            } else {
                s.index.call(self.l(h).clone(), E::mk(v))
            }),
            Op::Eq { a, b } => Res::Bool(if rust {
                self.l(a) == self.l(b)
            } else {
                s.eq.call(self.l(a).clone(), self.l(b).clone())
            }),
            Op::ToVec { h } => {
                if rust {
                    Res::Seq(Self::seq(self.l(h)))
                } else {
                    let c = s.copy.call(self.l(h).clone());
                    Res::Seq(Self::seq(&c))
                }
            }
            Op::Iter { h } => {
                if rust {
                    Res::Seq(self.l(h).clone().into_iter().map(|t| E::abs(&t)).collect())
                } else {
                    host::clear_log();
                    s.iter.call(self.l(h).clone());
                    Res::Seq(E::decode(host::take_log()))
                }
            }
            Op::Join { h } => {
                let j = s.join.as_ref().expect("join is only enumerated for List[String]");
                Res::Text(j.call(self.l(h).clone(), RotoString::from(SEP)).to_string())
            }
            Op::Dbg { h } => Res::Text(format!("{:?}", self.l(h))),
            Op::EqCopy { h } => {
                let l = self.l(h);
                if rust {
                    let c: L<E> = List::from(l.to_vec());
                    Res::Seq(vec![(*l == c) as u8, (c == *l) as u8])
                } else {
                    Res::Seq(vec![s.eq_copy.call(l.clone()) as u8, s.copy_eq.call(l.clone()) as u8])
                }
            }
            Op::ContainsOwn { h } => {
                let l = self.l(h);
                Res::Bool(if rust {
                    match l.get(0) {
                        Some(x) => l.contains(&x),
                        None => false,
                    }
                } else {
                    s.contains_own.call(l.clone())
                })
            }
            Op::IndexOwn { h } => {
                let l = self.l(h);
                Res::OptNum(if rust {
                    let n = l.len();
                    if n == 0 { None } else { l.get(n - 1).and_then(|x| l.index(&x)).map(|i| i as u64) }
                } else {
                    s.index_own.call(l.clone())
                })
            }
        }
    }
}

/// the model's result in the form the real side reports it
pub fn adapt<E: Elem>(step: Step, r: Res) -> Res {
    match (step.op, r) {
        (Op::Dbg { .. }, Res::Seq(items)) => {
            let v: Vec<E::T> = items.iter().map(|v| E::mk(*v)).collect();
            Res::Text(format!("List({v:?})"))
        }
        (_, r) => r,
    }
}

// ---------------------------------------------------------------- buffers (H1)

/// List buffers that are live according to the H1 allocation events, and
/// inconsistencies seen in the event stream.
pub struct Buffers {
    pub live: Vec<(usize, usize)>,
    pub anomalies: Vec<String>,
}

static BUFFERS: Mutex<Buffers> = Mutex::new(Buffers { live: Vec::new(), anomalies: Vec::new() });

fn sink(ev: &roto::verif::Event) {
    use roto::verif::Event;
    match *ev {
        Event::BufAlloc { buf, bytes } => {
            let mut b = BUFFERS.lock().unwrap_or_else(|e| e.into_inner());
            if b.live.iter().any(|(p, _)| *p == buf) {
                b.anomalies.push("a list buffer was allocated at the address of a live one".into());
            }
            b.live.push((buf, bytes));
        }
        Event::BufMoved { old, new, bytes } => {
            let mut b = BUFFERS.lock().unwrap_or_else(|e| e.into_inner());
            match b.live.iter().position(|(p, _)| *p == old) {
                Some(i) => {
                    b.live.swap_remove(i);
                }
                None => b.anomalies.push("a list buffer that was not live was moved (realloc of a freed or unknown buffer)".into()),
            }
            if b.live.iter().any(|(p, _)| *p == new) {
                b.anomalies.push("a list buffer was moved onto a live one".into());
            }
            b.live.push((new, bytes));
        }
        Event::BufFreed { buf } => {
            let mut b = BUFFERS.lock().unwrap_or_else(|e| e.into_inner());
            match b.live.iter().position(|(p, _)| *p == buf) {
                Some(i) => {
                    b.live.swap_remove(i);
                }
                None => b.anomalies.push("a list buffer that was not live was freed (double free)".into()),
            }
        }
        _ => {}
    }
}

pub fn install_sink() {
    {
        let mut b = BUFFERS.lock().unwrap_or_else(|e| e.into_inner());
        b.live.reserve(256);
        b.anomalies.reserve(64);
    }
    roto::verif::set_sink(Some(sink));
}

pub fn buffers_reset() {
    let mut b = BUFFERS.lock().unwrap_or_else(|e| e.into_inner());
    b.live.clear();
    b.anomalies.clear();
}

/// (number of live buffers, anomalies)
pub fn buffers_snapshot() -> (usize, Vec<String>) {
    let b = BUFFERS.lock().unwrap_or_else(|e| e.into_inner());
    (b.live.len(), b.anomalies.clone())
}
