//! Checking global allocator of the C15 harness.
//!
//! * every block sits between two guard zones filled with a canary; the zones
//!   are verified when the block is freed or reallocated (a write past either
//!   end of a list buffer is seen deterministically, not only when it happens
//!   to corrupt the allocator);
//! * fresh memory is filled with a poison byte and freed memory with another,
//!   so an element read from never-written or freed memory is never one of the
//!   elements of the alphabet;
//! * `realloc` always moves the block;
//! * the number of live blocks is counted (leak oracle).

use std::alloc::{GlobalAlloc, Layout, System};
use std::sync::atomic::{AtomicI64, AtomicU64, Ordering};

pub struct Guarded;

const PAD: usize = 32;
const CANARY: u8 = 0xA5;
const FRESH: u8 = 0xDB;
const FREED: u8 = 0xDD;

static LIVE: AtomicI64 = AtomicI64::new(0);
static OVERRUN: AtomicU64 = AtomicU64::new(0);
static UNDERRUN: AtomicU64 = AtomicU64::new(0);

fn front(l: &Layout) -> usize {
    PAD.next_multiple_of(l.align())
}

fn outer(l: &Layout) -> Layout {
    // SAFETY (of the unwrap): sizes here are far from isize::MAX
    Layout::from_size_align(front(l) + l.size() + PAD, l.align()).unwrap()
}

unsafe impl GlobalAlloc for Guarded {
    unsafe fn alloc(&self, l: Layout) -> *mut u8 {
        let f = front(&l);
        // SAFETY: the outer layout has a non-zero size
        let base = unsafe { System.alloc(outer(&l)) };
        if base.is_null() {
            return base;
        }
        LIVE.fetch_add(1, Ordering::Relaxed);
        // SAFETY: all three ranges are inside the block just allocated
        unsafe {
            std::ptr::write_bytes(base, CANARY, f);
            std::ptr::write_bytes(base.add(f), FRESH, l.size());
            std::ptr::write_bytes(base.add(f + l.size()), CANARY, PAD);
            base.add(f)
        }
    }
    unsafe fn dealloc(&self, p: *mut u8, l: Layout) {
        let f = front(&l);
        LIVE.fetch_sub(1, Ordering::Relaxed);
        // SAFETY: `p` was returned by `alloc` with the same layout
        unsafe {
            let base = p.sub(f);
            if (0..f).any(|i| *base.add(i) != CANARY) {
                UNDERRUN.fetch_add(1, Ordering::Relaxed);
            }
            if (0..PAD).any(|i| *p.add(l.size() + i) != CANARY) {
                OVERRUN.fetch_add(1, Ordering::Relaxed);
            }
            std::ptr::write_bytes(p, FREED, l.size());
            System.dealloc(base, outer(&l));
        }
    }
    unsafe fn alloc_zeroed(&self, l: Layout) -> *mut u8 {
        // SAFETY: forwarded
        let p = unsafe { self.alloc(l) };
        if !p.is_null() {
            // SAFETY: `p` points to `l.size()` writable bytes
            unsafe { std::ptr::write_bytes(p, 0, l.size()) };
        }
        p
    }
    unsafe fn realloc(&self, p: *mut u8, l: Layout, n: usize) -> *mut u8 {
        // SAFETY: per the contract of realloc `n` is a valid size for `l.align()`
        let nl = unsafe { Layout::from_size_align_unchecked(n, l.align()) };
        // SAFETY: forwarded
        let q = unsafe { self.alloc(nl) };
        if !q.is_null() {
            // SAFETY: both blocks are live and distinct
            unsafe {
                std::ptr::copy_nonoverlapping(p, q, l.size().min(n));
                self.dealloc(p, l);
            }
        }
        q
    }
}

pub fn live_blocks() -> i64 {
    LIVE.load(Ordering::Relaxed)
}

/// (writes found before the start of a block, writes found past the end of a block)
pub fn guard_hits() -> (u64, u64) {
    (UNDERRUN.load(Ordering::Relaxed), OVERRUN.load(Ordering::Relaxed))
}
