use roto::List;
fn main() {
    let rt = host::runtime();
    let src = "
record U { u: () }
fn u_lit1() -> List[()] { [()] }
fn u_lit3() -> List[()] { [(), (), ()] }
fn u_concat(a: List[()], b: List[()]) -> List[()] { a.concat(b) }
fn u_plus(a: List[()], b: List[()]) -> List[()] { a + b }
fn u_len(l: List[()]) -> u64 { l.len() }
fn u_push(l: List[()], v: ()) { l.push(v) }
fn u_get(l: List[()], i: u64) -> Option[()] { l.get(i) }
fn u_contains(l: List[()], v: ()) -> bool { l.contains(v) }
fn u_index(l: List[()], v: ()) -> u64? { l.index(v) }
fn u_dbl(k3: bool, d: u64) -> u64 { let l = [()]; if k3 { l = [(), (), ()]; } let i = 0; while i < d { l = l + l; i = i + 1; } l.len() }
fn r_dbl(k3: bool, d: u64) -> u64 { let l = [U { u: () }]; if k3 { l = [U { u: () }, U { u: () }, U { u: () }]; } let i = 0; while i < d { l = l.concat(l); i = i + 1; } l.len() }
fn f_eq(a: List[f64], b: List[f64]) -> bool { a == b }
fn f_it(l: List[List[f64]]) { for x in l { emit_u64(x.len()); for y in x { emit_f64(y); } } }
fn f32_it(l: List[f32]) { for x in l { emit_f32(x); } }
";
    let mut pkg = match host::compile(&rt, src) { Ok(p) => p, Err(e) => { println!("{e:?}"); return; } };
    let lit1 = pkg.get_function::<fn() -> List<()>>("u_lit1").unwrap();
    let lit3 = pkg.get_function::<fn() -> List<()>>("u_lit3").unwrap();
    let plus = pkg.get_function::<fn(List<()>, List<()>) -> List<()>>("u_plus").unwrap();
    let len = pkg.get_function::<fn(List<()>) -> u64>("u_len").unwrap();
    let push = pkg.get_function::<fn(List<()>, ())>("u_push").unwrap();
    let get = pkg.get_function::<fn(List<()>, u64) -> Option<()>>("u_get").unwrap();
    let contains = pkg.get_function::<fn(List<()>, ()) -> bool>("u_contains").unwrap();
    let index = pkg.get_function::<fn(List<()>, ()) -> Option<u64>>("u_index").unwrap();
    let dbl = pkg.get_function::<fn(bool, u64) -> u64>("u_dbl").unwrap();
    let rdbl = pkg.get_function::<fn(bool, u64) -> u64>("r_dbl").unwrap();
    let feq = pkg.get_function::<fn(List<f64>, List<f64>) -> bool>("f_eq").unwrap();
    let mut l = lit3.call();
    for _ in 0..62 { l = l.concat(&l); }
    println!("rust concat x62 of 3: {} cap {}", l.len(), l.capacity());
    let mut m = lit1.call();
    for _ in 0..63 { m = plus.call(m.clone(), m.clone()); }
    println!("script + x63 of 1: {} {}", m.len(), len.call(m.clone()));
    println!("get {:?} {:?} contains {} index {:?}", get.call(m.clone(), 5), get.call(m.clone(), u64::MAX), contains.call(m.clone(), ()), index.call(m.clone(), ()));
    push.call(m.clone(), ());
    println!("after push {}", m.len());
    println!("dbl {} {} rdbl {} {}", dbl.call(false, 10), dbl.call(true, 62), rdbl.call(false, 63), rdbl.call(true, 3));
    let a = List::from(vec![f64::NAN]);
    println!("feq alias {} rust alias {} distinct {}", feq.call(a.clone(), a.clone()), a == a.clone(), a == List::from(vec![f64::NAN]));
    let r = vcore::util::catch(|| l.concat(&l).len());
    println!("rust overflow concat: {r:?}");
}
