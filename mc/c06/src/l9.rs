//! L9 — values that can never exist, in every constructor; and constant
//! initialisers that run code.
//!
//! (a) A binding `a` whose type is uninhabited or never constrained — the
//! element of `[]`, the payload of an untyped `None`, a value of a declared
//! empty enum `enum E {}`, of a record with such a field, of an enum with such
//! a payload — is used in every constructor and consumer: anonymous / generic
//! record literal, `Option.Some`, list literal, `push`, `contains`, `==`,
//! `match`, field access, a call. None of that code can run, but all of it is
//! lowered. Each program is enumerated with and without ordinary list
//! operations next to it (the import signature of a generic runtime function
//! is shared between call sites).
//!
//! (b) `const C: T = INIT;` where INIT loops, recurses, calls host functions or
//! aborting built-ins: constant initialisers are executed while the package is
//! compiled.
//!
//! Every input of this layer is compiled in a forked copy of the worker first
//! (CPU-time cap), so a hang or a stack overflow costs no worker.

use crate::oracle::Input;
use vcore::{Cfg, Value, json};

#[derive(Clone, Copy, PartialEq, Eq, Debug)]
enum K {
    /// never constrained inference variable
    Open,
    /// declared empty enum
    Empty,
    /// record with a field of the empty enum
    Rec,
    /// inhabited enum with a variant whose payload is the empty enum
    Fen,
}

const D_E: &str = "enum E {}\n";
const D_R: &str = "enum E {}\nrecord Rr { a: i32, e: E }\n";
const D_F: &str = "enum E {}\nenum F { A(E), B }\n";

/// (name, kind of `a`, declarations, parameters of main, statements with USE, is `a` a parameter of its own function)
const SOURCES: [(&str, K, &str, &str, &str); 11] = [
    ("element-of-empty-list-literal", K::Open, "", "", "for a in [] { USE }"),
    ("payload-of-untyped-none", K::Open, "", "", "let x = None; match x { Some(a) => { USE } None => {} }"),
    ("get-of-empty-list", K::Open, "", "", "let y = []; match y.get(0) { Some(a) => { USE } None => {} }"),
    ("empty-enum-option", K::Empty, D_E, "", "let x: E? = None; match x { Some(a) => { USE } None => {} }"),
    ("empty-enum-list-element", K::Empty, D_E, "le: List[E]", "for a in le { USE }"),
    ("empty-enum-parameter", K::Empty, D_E, "a: E", "USE"),
    ("record-with-empty-field-option", K::Rec, D_R, "", "let x: Rr? = None; match x { Some(a) => { USE } None => {} }"),
    ("record-with-empty-field-list-element", K::Rec, D_R, "lr: List[Rr]", "for a in lr { USE }"),
    ("record-with-empty-field-parameter", K::Rec, D_R, "a: Rr", "USE"),
    ("enum-with-empty-payload-option", K::Fen, D_F, "", "let x: F? = None; match x { Some(a) => { USE } None => {} }"),
    ("enum-with-empty-payload-parameter", K::Fen, D_F, "a: F", "USE"),
];

const ALL: &[K] = &[K::Open, K::Empty, K::Rec, K::Fen];

/// (name, kinds it applies to, extra declarations, statements)
const USES: [(&str, &[K], &str, &str); 27] = [
    ("nothing", ALL, "", ""),
    ("record-literal", ALL, "", "let r = { f: a };"),
    ("record-literal-read-other-field", ALL, "", "let r = { f: a, g: 1 }; let v = r.g;"),
    ("record-literal-field-first-read-later", ALL, "", "let r = { g: 1, f: a }; let v = r.g;"),
    ("generic-record", ALL, "record Rg[T] { a: T, b: i32 }\n", "let r = Rg { a: a, b: 2 }; let v = r.b;"),
    ("some-of-record", ALL, "", "let s = Option.Some({ f: a });"),
    ("some", ALL, "", "let s = Option.Some(a);"),
    ("list-literal", ALL, "", "let m = [a];"),
    ("list-of-list", ALL, "", "let m = [[a]];"),
    ("list-of-record", ALL, "", "let m = [{ f: a }];"),
    ("push", ALL, "", "let m = []; m.push(a);"),
    ("contains", ALL, "", "let m = [a]; let v = m.contains(a);"),
    ("eq", ALL, "", "let v = a == a;"),
    ("copy-then-list", ALL, "", "let c = a; let d = [c];"),
    ("if-arms", ALL, "", "let v = if true { a } else { a };"),
    ("match-wildcard", ALL, "", "let v = match a { _ => 1 };"),
    ("assign", ALL, "", "let c = a; c = a;"),
    ("match-no-arms", &[K::Empty], "", "match a {};"),
    ("match-no-arms-value", &[K::Empty], "", "let v: i32 = match a {};"),
    ("call-function-taking-it", &[K::Empty], "fn ke(x: E) -> i32 { 1 }\n", "let v = ke(a);"),
    ("field-read", &[K::Rec], "", "let v = a.a;"),
    ("field-read-in-sum", &[K::Rec], "", "let v = a.a + 1;"),
    ("empty-field-read", &[K::Rec], "", "let v = a.e;"),
    ("call-function-reading-field", &[K::Rec], "fn kr(x: Rr) -> i32 { x.a }\n", "let v = kr(a);"),
    ("match-payload", &[K::Fen], "", "let v = match a { A(e) => 1, B => 2 };"),
    ("match-payload-used", &[K::Fen], "", "let v = match a { A(e) => { let m = [e]; 1 } B => 2 };"),
    ("match-payload-in-record", &[K::Fen], "", "let v = match a { A(e) => { let r = { g: 1, f: e }; r.g } B => 2 };"),
];

/// ordinary list operations elsewhere in the same function (they import the
/// same generic runtime functions with an inhabited element type)
const CONTEXTS: [(&str, &str); 2] = [("alone", ""), ("next-to-list-operations", "let l = [1]; l.push(2); let cc = l.contains(1); ")];

/// (name, text with PARAMS and BODY)
const POSITIONS: [(&str, &str); 2] =
    [("fn", "fn main(PARAMS) -> i32 { BODY 0 }\n"), ("filtermap", "filtermap main(PARAMS) { BODY accept }\n")];

/// Fixed programs of the same family that do not fit the grid
const EXTRAS: [(&str, &str); 8] = [
    ("question-mark-on-untyped-none-in-list", "fn main() -> i32? { let l = [1]; let m = [Option.None?]; Option.Some(0) }\n"),
    ("question-mark-on-untyped-none-in-list-alone", "fn main() -> i32? { let m = [Option.None?]; Option.Some(0) }\n"),
    ("get-of-empty-list-and-return-in-list", "fn main() -> i32? { let l = [1]; let m = [[].get(0)?, return Option.Some(1)]; Option.Some(0) }\n"),
    ("accept-empty-list-iterated", "filtermap m() { accept [] }\nfn main() -> i32 { 0 }\n"),
    ("empty-enum-alone", "enum E {}\n"),
    ("empty-enum-generic", "enum E[T] {}\nfn main(x: E[i32]?) -> i32 { match x { Some(e) => match e {}, None => 0 } }\n"),
    ("empty-enum-in-test", "enum E {}\ntest t { let x: E? = None; match x { Some(e) => { let r = { a: 1, e: e }; } None => {} } accept }\n"),
    ("empty-enum-eq-and-clone", "enum E {}\nfn main(l: List[E]) -> bool { let m = l; m == l }\n"),
];

/// Constant initialisers that run code: (name, declarations, type, initialiser)
const CONST_INITS: [(&str, &str, &str, &str); 18] = [
    ("literal", "", "i32", "1"),
    ("loop-forever", "", "i32", "{ while true { } 1 }"),
    ("loop-never-entered", "", "i32", "{ while false { } 1 }"),
    ("loop-counted", "", "i32", "{ let i = 0; while i < 10 { i = i + 1; } i }"),
    ("for-over-list", "", "i32", "{ let s = 0; for x in [1, 2] { s = s + x; } s }"),
    ("recursion-forever", "fn f(n: i32) -> i32 { f(n + 1) + 1 }\n", "i32", "f(0)"),
    ("recursion-bounded", "fn f(n: i32) -> i32 { if n == 0 { 0 } else { f(n - 1) + 1 } }\n", "i32", "f(50)"),
    ("mutual-recursion-forever", "fn f(n: i32) -> i32 { g(n) }\nfn g(n: i32) -> i32 { f(n) + 1 }\n", "i32", "f(0)"),
    ("prefix-length-out-of-range", "", "Prefix", "1.1.1.1 / 40"),
    ("prefix-in-range", "", "Prefix", "1.1.1.0 / 24"),
    ("division-by-zero", "", "i32", "1 / 0"),
    ("remainder-by-zero", "", "i32", "1 % 0"),
    ("min-divided-by-minus-one", "", "i32", "(0 - 2147483647 - 1) / (0 - 1)"),
    ("host-function-with-effect", "", "i32", "e(1)"),
    ("tracked-host-value", "", "Tr", "mk(1)"),
    ("list-built-by-loop", "", "List[i32]", "{ let l = []; let i = 0; while i < 3 { l.push(i); i = i + 1; } l }"),
    ("function-returning-empty-enum", "enum E {}\nfn f() -> E { f() }\n", "E", "f()"),
    ("match-on-computed-option", "", "i32", "match [1].get(5) { Some(x) => x, None => 0 }"),
];

/// (name, program with DECLS, T, INIT)
const CONST_POSITIONS: [(&str, &str); 4] = [
    ("alone", "DECLSconst C: T = INIT;\n"),
    ("used-by-function", "DECLSconst C: T = INIT;\nfn main() -> T { C }\n"),
    ("declared-after-use", "DECLSfn main() -> T { C }\nconst C: T = INIT;\n"),
    ("read-by-another-constant", "DECLSconst C: T = INIT;\nconst D: T = C;\n"),
];

fn grid() -> Vec<(usize, usize)> {
    let mut t = vec![];
    for (s, src) in SOURCES.iter().enumerate() {
        for (u, us) in USES.iter().enumerate() {
            if us.1.contains(&src.1) {
                t.push((s, u));
            }
        }
    }
    t
}

fn n_grid() -> u64 {
    (grid().len() * CONTEXTS.len() * POSITIONS.len()) as u64
}
fn n_const() -> u64 {
    (CONST_INITS.len() * CONST_POSITIONS.len()) as u64
}

pub fn count(_cfg: &Cfg) -> u64 {
    n_grid() + EXTRAS.len() as u64 + n_const()
}

pub fn bounds(cfg: &Cfg) -> Value {
    json!({"sources": SOURCES.iter().map(|s| s.0).collect::<Vec<_>>(), "uses": USES.iter().map(|u| u.0).collect::<Vec<_>>(),
           "contexts": CONTEXTS.iter().map(|c| c.0).collect::<Vec<_>>(), "positions": POSITIONS.iter().map(|p| p.0).collect::<Vec<_>>(),
           "grid_cases": n_grid(), "extra_programs": EXTRAS.len(),
           "constant_initialisers": CONST_INITS.iter().map(|c| c.0).collect::<Vec<_>>(),
           "constant_positions": CONST_POSITIONS.iter().map(|c| c.0).collect::<Vec<_>>(), "constant_cases": n_const(),
           "cases": count(cfg)})
}

/// order: constant initialisers, extras, then the grid (source slowest)
pub fn case(_cfg: &Cfg, idx: u64) -> (Input, Value) {
    if idx < n_const() {
        let d = vcore::util::decode(idx, &[CONST_INITS.len() as u64, CONST_POSITIONS.len() as u64]);
        let (iname, decls, ty, init) = CONST_INITS[d[0] as usize];
        let (pname, tpl) = CONST_POSITIONS[d[1] as usize];
        let src = tpl.replace("DECLS", decls).replace("INIT", init).replace(": T", &format!(": {ty}")).replace("-> T", &format!("-> {ty}"));
        return (Input::Single(src), json!({"family": "constant-initialiser", "initialiser": iname, "position": pname}));
    }
    let idx = idx - n_const();
    if idx < EXTRAS.len() as u64 {
        let (n, s) = EXTRAS[idx as usize];
        return (Input::Single(s.to_string()), json!({"family": "extra", "program": n}));
    }
    let idx = idx - EXTRAS.len() as u64;
    let g = grid();
    let d = vcore::util::decode(idx, &[g.len() as u64, CONTEXTS.len() as u64, POSITIONS.len() as u64]);
    let (s, u) = g[d[0] as usize];
    let (sname, _, sdecl, params, stmts) = SOURCES[s];
    let (uname, _, udecl, use_) = USES[u];
    let (cname, ctx) = CONTEXTS[d[1] as usize];
    let (pname, tpl) = POSITIONS[d[2] as usize];
    let body = format!("{ctx}{} ", stmts.replace("USE", use_));
    let src = format!("{sdecl}{udecl}{}", tpl.replace("PARAMS", params).replace("BODY", &body));
    (
        Input::Single(src),
        json!({"family": "uninhabited-or-unconstrained-binding", "source": sname, "use": uname, "context": cname, "position": pname}),
    )
}
