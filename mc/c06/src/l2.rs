//! L2 — all *untyped* expressions of depth <= 2 over every syntactic form of
//! `ast::Expr`, in function / filtermap / test / const position, and (L2t) all
//! type declarations whose field type is a type expression of depth <= 2.
//!
//! An expression of depth 0 is an atom; depth n+1 is a one-hole template whose
//! hole is filled by an expression of depth n (a hole written twice is filled
//! with the same expression twice). Nothing here is well-typed on purpose:
//! every type-checker arm sees every kind of wrong child.

use crate::oracle::Input;
use vcore::{Cfg, Tier, Value, json};

/// Declarations every L2 program starts with
pub const PRELUDE: &str = "record R { a: i32, b: bool }\nenum E { A, B(i32) }\nconst K: i32 = 7;\nfn g(a: i32) -> i32 { a }\n";

const PARAMS: &str = "x: i32, l: List[i32], o: i32?, r: R, e: E, s: String";
const LETS: &str = "let x: i32 = 1; let l = [1]; let o = Option.Some(1); let r = R { a: 1, b: true }; let e = E.A; let s = \"s\"; ";

/// (name, text before the expression, text after it)
pub const POSITIONS: [(&str, &str, &str); 6] = [
    ("fn-stmt", "fn f(PARAMS) { ", "; }"),
    ("fn-tail-i32", "fn f(PARAMS) -> i32 { ", " }"),
    ("fn-let", "fn f(PARAMS) -> bool { let v = ", "; true }"),
    ("filtermap-tail", "filtermap f(PARAMS) { ", " }"),
    ("test-tail", "test t { LETS", " }"),
    ("const", "const C: i32 = ", ";"),
];

/// Atoms: every literal kind, every kind of path, the bare diverging forms,
/// and a few closed calls whose types are interesting (zero-sized, tracked).
pub const ATOMS: [&str; 49] = [
    // the first 5 (quick) / 8 (thorough, minor positions) are the reduced sets used below depth-2 expressions
    "1", "x", "l", "return", "None", "()", "o", "[]",
    //
    "true", "\"s\"", "r", "e", "u", "Option.None", "{}", "E.A", "mkz()",
    "1u8", "1.5", "'c'", "AS1", "1.1.1.1", "::1", "0x1f", "f\"t\"", "[1]", "{ a: 1 }", "s", "K", "g", "R", "E", "E.B",
    "r.a", "x.a", "l.len", "E.A.x", "std", "pkg", "super", "String", "return 1", "accept", "reject",
    "g(1)", "Option.Some(())", "mk(1)", "9223372036854775808", "0",
];
pub const ATOMS_REDUCED: usize = 8;
pub const ATOMS_QUICK: usize = 5;

/// One-hole templates. `□`: the hole is delimited, the child is inserted as
/// is; `■`: the child is parenthesised unless it is an atom, so that the
/// parser builds exactly form(child).
pub const TEMPLATES: [&str; 140] = [
    // Return
    "return □", "accept □", "reject □",
    // parentheses, Block
    "(□)", "{ □ }", "{ □; }", "{ let y = □; y }", "{ let y: i32 = □; y }", "{ □; 1 }", "{ import □; 1 }",
    // Block with a binding used twice (the child decides the binding's type)
    "{ let w = □; w.push(w); }", "{ let w = □; w = [w]; }", "{ let w = □; w == [w] }", "{ let w = □; let w = w; w }",
    // Match
    "match ■ { A => 1, B(z) => z }", "match ■ { Some(z) => z, None => 0 }", "match ■ { _ => 1 }", "match ■ { }",
    "match e { A => □, B(z) => 2 }", "match o { Some(z) if □ => 1, _ => 2 }", "match e { A => 1, _ => 2, B(z) => □ }",
    "match e { A => 1, A => □, B(z) => 3 }", "match e { B(z, q) => □, A => 1 }", "match e { B => □, A => 1 }",
    "match e { A(z) => □, _ => 1 }", "match e { A => □ }", "match e { C => □, _ => 1 }", "match o { Some(z) => □ }",
    // FunctionCall
    "g(□)", "g(□, □)", "■(1)", "■()", "Option.Some(□)", "E.B(□)", "E.A(□)", "■.len()", "■.push(1)", "l.push(□)",
    "■.push(□)", "■.nope()", "x.m(□)", "l.contains(□)", "s.append(□)", "mk(□)", "emit_unit(□)", "u(□)", "R(□)",
    "K(□)", "r.a(□)", "■.a()", "l.len(□)", "String.from(□)", "■.to_string()",
    // Access
    "■.a", "■.zz", "■.a.b", "■.0",
    // Assign, CompoundAssign
    "x = □", "l = □", "r = □", "K = □", "u = □", "r.a = □", "g = □", "E.A = □", "x += □", "x -= □", "x *= □",
    "x /= □", "x %= □", "s += □", "l += □", "r.a += □", "K += □", "u += □",
    // Record, TypedRecord
    "{ a: □ }", "{ a: □, a: □ }", "{ a: □, b: true }", "R { a: □, b: true }", "R { a: □ }",
    "R { a: 1, b: true, c: □ }", "E { a: □ }", "Nope { a: □ }", "x { a: □ }", "K { a: □ }", "g { a: □ }",
    "List { a: □ }", "E.A { a: □ }",
    // List
    "[□]", "[□, □]", "[□, 1]", "[1, □]", "[[□]]",
    // Not, Negate
    "!■", "-■",
    // BinOp: all 13 operators with the child on both sides, and mixed with a literal
    "■ && ■", "■ || ■", "■ == ■", "■ != ■", "■ < ■", "■ <= ■", "■ > ■", "■ >= ■", "■ + ■", "■ - ■", "■ * ■",
    "■ / ■", "■ % ■", "■ == 1", "■ + 1", "■ / 1", "■ % 1", "■ < 1", "■ && true", "1 + ■", "1 / ■", "1 == ■",
    "1.1.1.1 / ■", "\"s\" + ■", "l + ■", "■ + l",
    // IfElse
    "if ■ { 1 } else { 2 }", "if true { □ } else { 2 }", "if true { 1 } else { □ }", "if ■ { }", "if true { □ }",
    "if true { □; }", "if true { 1 } else if ■ { 2 } else { 3 }",
    // While, For
    "while ■ { }", "while false { □ }", "while false { □; }", "for i in ■ { }", "for i in l { □; }",
    "for i in l { □ }", "for x in ■ { x; }", "{ while false { □ }; }", "{ for i in l { □ }; }",
    // QuestionMark, FString
    "■?", "f\"a{□}b\"", "f\"{□}{□}\"",
];

fn fill(t: &str, child: &str, child_is_atom: bool) -> String {
    let par = if child_is_atom { child.to_string() } else { format!("({child})") };
    t.replace('□', child).replace('■', &par)
}

/// Number of atoms used below a depth-2 expression, per position
fn d2_atoms(cfg: &Cfg, pos: usize) -> usize {
    match cfg.tier {
        // quick: depth <= 1 everywhere with every atom; depth 2 with the reduced
        // atom set in statement position of a function only
        Tier::Quick => {
            if pos == 0 {
                ATOMS_QUICK
            } else {
                0
            }
        }
        // thorough: every atom in function-statement, function-tail and filtermap
        // position, the reduced atom set in let / test / const position
        Tier::Thorough => match POSITIONS[pos].0 {
            "fn-stmt" | "fn-tail-i32" | "filtermap-tail" => ATOMS.len(),
            _ => ATOMS_REDUCED,
        },
    }
}

pub fn bounds(cfg: &Cfg) -> Value {
    json!({"atoms": ATOMS.len(), "templates": TEMPLATES.len(), "positions": POSITIONS.len(),
           "depth0_and_1": "every atom, every template x every atom, in every position",
           "depth2_atoms_per_position": POSITIONS.iter().enumerate()
               .map(|(i, p)| json!({"position": p.0, "atoms": d2_atoms(cfg, i)})).collect::<Vec<_>>(),
           "type_decl_cases": count_t(cfg)})
}

fn n_d0() -> u64 {
    ATOMS.len() as u64
}
fn n_d1() -> u64 {
    (TEMPLATES.len() * ATOMS.len()) as u64
}
fn n_d2(cfg: &Cfg, pos: usize) -> u64 {
    (TEMPLATES.len() * TEMPLATES.len() * d2_atoms(cfg, pos)) as u64
}

pub fn count(cfg: &Cfg) -> u64 {
    (n_d0() + n_d1()) * POSITIONS.len() as u64 + (0..POSITIONS.len()).map(|p| n_d2(cfg, p)).sum::<u64>()
}

fn wrap(pos: usize, expr: &str) -> String {
    let (_, pre, post) = POSITIONS[pos];
    let pre = pre.replace("PARAMS", PARAMS).replace("LETS", LETS);
    format!("{PRELUDE}{pre}{expr}{post}\n")
}

/// order: depth 0, depth 1 (position varies fastest), then depth 2 position by position
pub fn case(cfg: &Cfg, mut idx: u64) -> (Input, Value) {
    let (a, t) = (ATOMS.len() as u64, TEMPLATES.len() as u64);
    let d1p = POSITIONS.len() as u64;
    if idx < n_d0() * d1p {
        let (ai, pos) = (idx / d1p, (idx % d1p) as usize);
        let e = ATOMS[ai as usize];
        return (Input::Single(wrap(pos, e)), json!({"depth": 0, "expr": e, "position": POSITIONS[pos].0}));
    }
    idx -= n_d0() * d1p;
    if idx < n_d1() * d1p {
        let pos = (idx % d1p) as usize;
        let d = vcore::util::decode(idx / d1p, &[t, a]);
        let e = fill(TEMPLATES[d[0] as usize], ATOMS[d[1] as usize], true);
        return (
            Input::Single(wrap(pos, &e)),
            json!({"depth": 1, "expr": e, "template": TEMPLATES[d[0] as usize], "position": POSITIONS[pos].0}),
        );
    }
    idx -= n_d1() * d1p;
    for pos in 0..POSITIONS.len() {
        let n = n_d2(cfg, pos);
        if idx < n {
            let d = vcore::util::decode(idx, &[t, t, d2_atoms(cfg, pos) as u64]);
            let inner = fill(TEMPLATES[d[1] as usize], ATOMS[d[2] as usize], true);
            let e = fill(TEMPLATES[d[0] as usize], &inner, false);
            return (
                Input::Single(wrap(pos, &e)),
                json!({"depth": 2, "expr": e, "template": TEMPLATES[d[0] as usize],
                       "inner_template": TEMPLATES[d[1] as usize], "position": POSITIONS[pos].0}),
            );
        }
        idx -= n;
    }
    unreachable!("L2 index out of range")
}

// ------------------------------------------------------------------ L2t

/// Type-expression atoms and one-hole type templates (every form of
/// `ast::TypeExpr`: Option, Path with and without arguments, Never, Unit, Record)
const T_ATOMS: [&str; 10] = ["i32", "A", "B", "T", "!", "()", "String", "Nope", "E", "A[i32]"];
const T_TEMPLATES: [&str; 9] = ["□?", "List[□]", "Option[□]", "{ f: □ }", "G[□]", "A[□]", "B[□]", "□[i32]", "G[□, □]"];

/// Plain annotations: `□` is the written type
const T_ANNOT: [&str; 7] = [
    "fn h(p: □) {}",
    "fn h() -> □ { 1 }",
    "fn h() -> □ { return }",
    "const C: □ = 1;",
    "fn h() { let v: □ = 1; }",
    "filtermap h(p: □) { accept }",
    "fn h(p: □) -> □ { p }",
];
/// Declarations of the type under test; `□` is the field type
const T_DECLS: [&str; 5] = [
    "record A { x: □ }",
    "record A[T] { x: □ }",
    "enum A { V(□), W }",
    "enum A[T] { V(□), W }",
    "record A { x: i32, y: □, x: □ }",
];
/// A second declaration (for mutual references) and how `A` is used
const T_OTHERS: [&str; 4] = ["", "record B { y: A }", "record B { y: A? }", "enum B[U] { P(U), Q(A) }"];
const T_USES: [&str; 5] = [
    "",
    "fn f(a: A) {}",
    "fn f() -> A? { Option.None }",
    "fn f() { let v: A? = Option.None; }",
    "fn f(a: A[i32]) {}",
];
const T_FIXED: &str = "enum G[X] { N, S(X) }\nenum E { A, B(i32) }\n";

fn n_texpr(cfg: &Cfg) -> u64 {
    let (a, t) = (T_ATOMS.len() as u64, T_TEMPLATES.len() as u64);
    match cfg.tier {
        Tier::Quick => a + t * a,
        Tier::Thorough => a + t * a + t * t * a,
    }
}

fn texpr(mut i: u64) -> String {
    let (a, t) = (T_ATOMS.len() as u64, T_TEMPLATES.len() as u64);
    if i < a {
        return T_ATOMS[i as usize].to_string();
    }
    i -= a;
    if i < t * a {
        return T_TEMPLATES[(i / a) as usize].replace('□', T_ATOMS[(i % a) as usize]);
    }
    i -= t * a;
    let d = vcore::util::decode(i, &[t, t, a]);
    let inner = T_TEMPLATES[d[1] as usize].replace('□', T_ATOMS[d[2] as usize]);
    T_TEMPLATES[d[0] as usize].replace('□', &inner)
}

pub fn count_t(cfg: &Cfg) -> u64 {
    n_texpr(cfg) * (T_ANNOT.len() + T_DECLS.len() * T_OTHERS.len() * T_USES.len()) as u64
}

/// order: annotations first, then declarations
pub fn case_t(cfg: &Cfg, idx: u64) -> (Input, Value) {
    let n = n_texpr(cfg);
    if idx < n * T_ANNOT.len() as u64 {
        let d = vcore::util::decode(idx, &[n, T_ANNOT.len() as u64]);
        let te = texpr(d[0]);
        let decl = T_ANNOT[d[1] as usize].replace('□', &te);
        let src = format!("{T_FIXED}record A[T] {{ x: T }}\nrecord B[T] {{ y: T }}\n{decl}\n");
        return (Input::Single(src), json!({"type_expr": te, "annotation": decl}));
    }
    let d = vcore::util::decode(
        idx - n * T_ANNOT.len() as u64,
        &[n, T_DECLS.len() as u64, T_OTHERS.len() as u64, T_USES.len() as u64],
    );
    let te = texpr(d[0]);
    let decl = T_DECLS[d[1] as usize].replace('□', &te);
    let src = format!("{T_FIXED}{decl}\n{}\n{}\n", T_OTHERS[d[2] as usize], T_USES[d[3] as usize]);
    (Input::Single(src), json!({"type_expr": te, "decl": decl}))
}
