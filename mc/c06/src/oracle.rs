//! Running one input through the real compiler and judging the outcome.

use std::path::PathBuf;

use roto::{FileSpec, FileTree, NoCtx, Runtime, SourceFile};
use vcore::util::{catch, fnv_str, mix};
use vcore::{Value, json};

/// One node of an in-memory module tree (built with `FileSpec`)
#[derive(Clone, Debug)]
pub struct MemNode {
    pub name: String,
    pub module: String,
    pub contents: String,
    pub offset: usize,
    pub dir: bool,
    pub children: Vec<MemNode>,
}

#[derive(Clone, Debug)]
pub enum Input {
    /// `FileTree::test_file("script.roto", src, 0)`
    Single(String),
    /// `FileTree::file_spec(...)`
    Mem(MemNode),
    /// files written below a fresh directory, then `FileTree::read(dir/entry)`
    Disk { files: Vec<(String, Vec<u8>)>, entry: String },
}

impl Input {
    pub fn to_json(&self) -> Value {
        fn node(n: &MemNode) -> Value {
            json!({"name": n.name, "module": n.module, "contents": n.contents, "location_offset": n.offset,
                   "kind": if n.dir { "FileSpec::Directory" } else { "FileSpec::File" },
                   "children": n.children.iter().map(node).collect::<Vec<_>>()})
        }
        match self {
            Input::Single(s) => json!({"api": "FileTree::test_file(\"script.roto\", src, 0).compile(&rt)", "src": s}),
            Input::Mem(n) => json!({"api": "FileTree::file_spec(spec).compile(&rt)", "spec": node(n)}),
            Input::Disk { files, entry } => json!({
                "api": "FileTree::read(dir.join(entry)) then .compile(&rt)", "entry": entry,
                "files": files.iter().map(|(p, c)| json!({"path": p, "contents": String::from_utf8_lossy(c),
                    "bytes_hex_if_not_utf8": if std::str::from_utf8(c).is_ok() { Value::Null } else {
                        json!(c.iter().map(|b| format!("{b:02x}")).collect::<String>()) }})).collect::<Vec<_>>()}),
        }
    }
    /// all source texts of this input, concatenated (for the feature predicates)
    pub fn all_text(&self) -> String {
        fn walk(n: &MemNode, out: &mut String) {
            out.push_str(&n.contents);
            out.push('\n');
            for c in &n.children {
                walk(c, out);
            }
        }
        match self {
            Input::Single(s) => s.clone(),
            Input::Mem(n) => {
                let mut s = String::new();
                walk(n, &mut s);
                s
            }
            Input::Disk { files, .. } => {
                files.iter().map(|(_, c)| String::from_utf8_lossy(c).into_owned()).collect::<Vec<_>>().join("\n")
            }
        }
    }
    pub fn hash(&self) -> u64 {
        fn walk(n: &MemNode, h: &mut u64) {
            *h = mix(*h, fnv_str(&n.name));
            *h = mix(*h, fnv_str(&n.module));
            *h = mix(*h, fnv_str(&n.contents));
            *h = mix(*h, n.dir as u64 + 2 * n.offset as u64);
            for c in &n.children {
                walk(c, h);
            }
            *h = mix(*h, 0x77);
        }
        match self {
            Input::Single(s) => fnv_str(s),
            Input::Mem(n) => {
                let mut h = 1;
                walk(n, &mut h);
                h
            }
            Input::Disk { files, entry } => {
                let mut h = mix(2, fnv_str(entry));
                for (p, c) in files {
                    h = mix(h, fnv_str(p));
                    h = mix(h, vcore::util::fnv(c));
                }
                h
            }
        }
    }
}

fn mem_spec(n: &MemNode) -> FileSpec {
    let f = SourceFile {
        name: n.name.clone(),
        module_name: n.module.clone(),
        contents: n.contents.clone(),
        location_offset: n.offset,
        children: Vec::new(),
    };
    if n.dir { FileSpec::Directory(f, n.children.iter().map(mem_spec).collect()) } else { FileSpec::File(f) }
}

/// What was wrong, if anything
#[derive(Clone, Debug)]
pub struct Viol {
    /// e.g. `panic:src/parser/lexer.rs:476`
    pub class: String,
    /// compile | read | render-colour | render-plain | locations
    pub phase: &'static str,
    pub panic_loc: String,
    pub panic_msg: String,
    pub observed: Value,
    /// extra fields merged into the case description (looked at by matchers)
    pub detail: Value,
}

#[derive(Clone, Debug)]
pub struct Obs {
    /// bucketed observation (status, error kinds, headline)
    pub outcome: u64,
    /// the input got past the parser (type checker or later stages ran)
    pub past_parser: bool,
    pub compiled: bool,
    pub viol: Option<Viol>,
}

/// `msg @ /abs/path/file.rs:123` -> (msg, normalised location)
pub fn split_panic(p: &str) -> (String, String) {
    let (msg, loc) = match p.rfind(" @ ") {
        Some(i) => (&p[..i], &p[i + 3..]),
        None => (p, ""),
    };
    (msg.to_string(), norm_loc(loc))
}

/// Make panic locations independent of where the sources live.
pub fn norm_loc(loc: &str) -> String {
    if let Some(i) = loc.find("/registry/src/") {
        // ~/.cargo/registry/src/<index>/<crate>-<ver>/src/x.rs:1
        let rest = &loc[i + "/registry/src/".len()..];
        return rest.split_once('/').map_or(rest, |x| x.1).to_string();
    }
    if let Some(rest) = loc.strip_prefix("/rustc/") {
        return format!("rust:{}", rest.split_once('/').map_or(rest, |x| x.1));
    }
    if let Some(i) = loc.rfind("/repo/") {
        return loc[i + "/repo/".len()..].to_string();
    }
    loc.to_string()
}

fn headline_bucket(plain: &str) -> u64 {
    // first line that carries the message, cut at the first quoted fragment so that
    // identifiers and literals do not multiply the buckets
    let line = plain.lines().find(|l| !l.trim().is_empty()).unwrap_or("");
    let cut = line.find(['`', '\'', '"']).unwrap_or(line.len());
    let head: String = line[..cut].chars().filter(|c| !c.is_ascii_digit()).take(60).collect();
    fnv_str(&head)
}

/// Where L5 writes its module trees
pub fn work_root() -> PathBuf {
    vcore::out_root().join("work").join("c06")
}

pub struct Runner {
    pub rt: Runtime<NoCtx>,
    pub disk_root: PathBuf,
    disk_ready: bool,
}

impl Runner {
    pub fn new() -> Runner {
        // <out>/work/c06/run<parent pid>/w<worker pid>: concurrent runs do not touch each other
        let ppid = unsafe { libc::getppid() };
        let disk_root = work_root().join(format!("run{ppid}")).join(format!("w{}", std::process::id()));
        Runner { rt: host::runtime(), disk_root, disk_ready: false }
    }

    /// Write the files of a disk case; returns the path to hand to `FileTree::read`.
    fn materialise(&mut self, files: &[(String, Vec<u8>)], entry: &str) -> std::io::Result<PathBuf> {
        let dir = self.disk_root.join("t");
        if self.disk_ready || dir.exists() {
            let _ = std::fs::remove_dir_all(&dir);
        }
        std::fs::create_dir_all(&dir)?;
        self.disk_ready = true;
        for (p, c) in files {
            let path = dir.join(p);
            if let Some(parent) = path.parent() {
                std::fs::create_dir_all(parent)?;
            }
            if p.ends_with('/') {
                std::fs::create_dir_all(&path)?;
            } else {
                std::fs::write(&path, c)?;
            }
        }
        Ok(if entry.is_empty() { dir } else { dir.join(entry) })
    }

    pub fn cleanup(&mut self) {
        let _ = std::fs::remove_dir_all(&self.disk_root);
    }

    /// Compile `input` with the real pipeline and apply the C06 oracle.
    pub fn run(&mut self, input: &Input) -> Obs {
        // ---- build the tree (reading from disk is part of the property: "every file tree")
        let tree: Result<FileTree, roto::RotoReport> = match input {
            Input::Single(s) => Ok(FileTree::test_file("script.roto", s, 0)),
            Input::Mem(n) => Ok(FileTree::file_spec(mem_spec(n))),
            Input::Disk { files, entry } => {
                let path = match self.materialise(files, entry) {
                    Ok(p) => p,
                    Err(e) => {
                        return Obs {
                            outcome: 0,
                            past_parser: false,
                            compiled: false,
                            viol: Some(Viol {
                                class: "machinery:disk".into(),
                                phase: "read",
                                panic_loc: String::new(),
                                panic_msg: e.to_string(),
                                observed: json!(e.to_string()),
                                detail: Value::Null,
                            }),
                        };
                    }
                };
                match catch(|| FileTree::read(&path)) {
                    Ok(r) => r,
                    Err(p) => return panic_obs("read", &p),
                }
            }
        };
        let rt = &self.rt;
        let rt = match tree {
            Ok(tree) => match catch(|| tree.compile(rt).map(drop)) {
                Ok(Ok(())) => {
                    return Obs { outcome: 0xC0, past_parser: true, compiled: true, viol: None };
                }
                Ok(Err(report)) => report,
                Err(p) => return panic_obs("compile", &p),
            },
            Err(report) => report,
        };
        judge_report(&rt)
    }
}

fn panic_obs(phase: &'static str, p: &str) -> Obs {
    let (msg, loc) = split_panic(p);
    let class = if phase == "compile" { format!("panic:{loc}") } else { format!("panic-{phase}:{loc}") };
    Obs {
        outcome: mix(0xDEAD, fnv_str(&loc)),
        past_parser: false,
        compiled: false,
        viol: Some(Viol {
            class,
            phase,
            panic_loc: loc,
            panic_msg: msg.clone(),
            observed: json!(format!("panic during {phase}: {p}")),
            detail: Value::Null,
        }),
    }
}

fn judge_report(report: &roto::RotoReport) -> Obs {
    let kinds = report.verif_kinds();
    let past_parser = kinds.iter().any(|k| *k == "type");
    let mut outcome = kinds.iter().fold(0xE0u64, |h, k| mix(h, fnv_str(k)));

    // ---- every cited location lies inside its file on character boundaries
    let locs = report.verif_locations();
    for (file, start, end) in &locs {
        let bad = match report.files.get(*file) {
            None => Some(("location:no-such-file", format!("file index {file} of {} files", report.files.len()))),
            Some(f) => {
                let c = &f.contents;
                if start > end {
                    Some(("location:start>end", format!("{start}..{end}")))
                } else if *end > c.len() {
                    Some(("location:beyond-eof", format!("{start}..{end} in a file of {} bytes", c.len())))
                } else if !c.is_char_boundary(*start) || !c.is_char_boundary(*end) {
                    Some(("location:not-char-boundary", format!("{start}..{end}")))
                } else {
                    None
                }
            }
        };
        if let Some((class, what)) = bad {
            let contents = report.files.get(*file).map(|f| f.contents.as_str()).unwrap_or("");
            let detail = json!({"bad_location": {
                "file": file, "start": start, "end": end, "file_len": contents.len(),
                "span_len": end.wrapping_sub(*start),
                "start_is_boundary": contents.is_char_boundary(*start),
                "kinds": kinds, "check": class, "what": what}});
            // still try to render, to report the most specific class: a rendering panic wins
            let rendered = catch(|| {
                let mut s = String::new();
                report.write(&mut s, false).map(|_| s)
            });
            if let Err(p) = rendered {
                let mut o = panic_obs("render-plain", &p);
                if let Some(v) = &mut o.viol {
                    v.observed = json!({"panic": p, "bad_location": what, "location_check": class});
                    v.detail = detail;
                }
                return o;
            }
            return Obs {
                outcome,
                past_parser,
                compiled: false,
                viol: Some(Viol {
                    class: class.to_string(),
                    phase: "locations",
                    panic_loc: String::new(),
                    panic_msg: String::new(),
                    observed: json!({"kinds": kinds, "location": what, "all_locations": locs}),
                    detail,
                }),
            };
        }
    }

    // ---- renders with and without colour
    let mut plain = String::new();
    for (phase, colour) in [("render-plain", false), ("render-colour", true)] {
        let mut s = String::new();
        match catch(|| report.write(&mut s, colour)) {
            Ok(Ok(())) => {}
            Ok(Err(_)) => {
                return Obs {
                    outcome,
                    past_parser,
                    compiled: false,
                    viol: Some(Viol {
                        class: format!("{phase}:fmt-error"),
                        phase,
                        panic_loc: String::new(),
                        panic_msg: String::new(),
                        observed: json!("RotoReport::write returned Err(fmt::Error)"),
                        detail: Value::Null,
                    }),
                };
            }
            Err(p) => {
                let mut o = panic_obs(phase, &p);
                if let Some(v) = &mut o.viol {
                    let mut files: Vec<usize> = locs.iter().map(|l| l.0).collect();
                    files.sort();
                    files.dedup();
                    v.detail = json!({"report": {"kinds": kinds, "cited_files": files.len(), "locations": locs}});
                }
                return o;
            }
        }
        if !colour {
            plain = s;
        }
    }
    // ---- the rendering cites the primary location: a single parse/type error must show the
    // header `[ file:line:col ]` of its first location (ariadne silently drops the whole
    // source view when it is handed a character range that does not fit the file)
    if kinds.len() == 1 && (kinds[0] == "parse" || kinds[0] == "type") {
        if let Some((file, start, _)) = locs.first() {
            let f = &report.files[*file];
            let c = &f.contents;
            let exotic = c.contains(['\r', '\u{b}', '\u{c}', '\u{85}', '\u{2028}', '\u{2029}']);
            let name = f.name();
            let expected = if *start < c.len() && !exotic {
                let before = &c[..*start];
                let line = 1 + before.matches('\n').count() + f.location_offset;
                let col = 1 + before.rsplit('\n').next().unwrap_or("").chars().count();
                format!("[ {name}:{line}:{col} ]")
            } else {
                format!("[ {name}:")
            };
            if !plain.contains(&expected) {
                return Obs {
                    outcome,
                    past_parser,
                    compiled: false,
                    viol: Some(Viol {
                        class: "render-plain:location-not-shown".into(),
                        phase: "render-plain",
                        panic_loc: String::new(),
                        panic_msg: String::new(),
                        observed: json!({"expected_header": expected, "rendered": plain, "locations": locs}),
                        detail: json!({"report": {"kinds": kinds, "locations": locs}}),
                    }),
                };
            }
        }
    }
    outcome = mix(outcome, headline_bucket(&plain));
    Obs { outcome, past_parser, compiled: false, viol: None }
}
