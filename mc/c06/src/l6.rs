//! L6 — scaling: every repeatable construct of the language repeated N times.
//!
//! The other layers bound the *size* of an input (two tokens, depth two, one
//! deviation); this one takes one construct at a time and makes it long or
//! wide: a chain of N operands, N statements, N fields, N variants, N arms, N
//! parameters, N functions, N nested blocks. The oracle is the same (a package
//! or a report, the process survives), plus a CPU-time and address-space cap
//! per input, which is how "hangs" is decided: every construct of the list
//! compiles in well under a second at N = 1000 on a correct tree, so a compile
//! that is still running after the cap — or that needs more than 6 GiB — has
//! super-polynomial cost in the length of the source.
//!
//! Two kinds of repeater: `Wide` (N is a count; the nesting depth of the AST
//! does not grow, or grows only through left-associative chains that the
//! parser builds iteratively) and `Deep` (N is a nesting depth; bounded by
//! `DEPTHS`, the property's "within a bounded nesting depth").

use crate::oracle::Input;
use vcore::{Cfg, Value, json};

#[derive(Clone, Copy, PartialEq, Eq, Debug)]
pub enum Kind {
    Wide,
    Deep,
    /// N is the number of `let`s that each mention the previous binding twice: the
    /// type graph is a DAG with N nodes whose tree expansion has 2^N nodes, while every
    /// value is one pointer (a list) or two pointers (a record of two lists) wide
    Share,
    /// N is a number of one-line declarations / statements linked into one chain
    /// (nesting depth <= 2): the property bounds the nesting depth, not the length.
    /// Count bound of the check: 1 000 (quick) / 10 000 (thorough). An audit of
    /// /repo@eccd345 measured stack overflows beyond it: 30 000 chained functions
    /// (Tarjan `strongly_connect`; 3 000 in a 2 MiB thread), 20 000 chained records
    /// (`TypeInfo::convert`), 150 000 chained unifications (`UnionFind::find`).
    Count,
}

/// counts for `Wide` repeaters; 255/256/257 are the limits of a one-byte
/// discriminant / index
const WIDTHS_QUICK: [usize; 14] = [1, 2, 3, 5, 8, 13, 21, 34, 55, 128, 255, 256, 257, 300];
const WIDTHS_THOROUGH: [usize; 20] =
    [1, 2, 3, 4, 5, 6, 8, 10, 13, 16, 21, 34, 55, 89, 128, 255, 256, 257, 300, 1000];
const SHARES_QUICK: [usize; 7] = [1, 2, 3, 5, 8, 12, 24];
const SHARES_THOROUGH: [usize; 11] = [1, 2, 3, 4, 5, 8, 10, 12, 16, 24, 40];
const COUNTS_QUICK: [usize; 1] = [1000];
const COUNTS_THOROUGH: [usize; 2] = [1000, 10000];
const DEPTHS_QUICK: [usize; 8] = [1, 2, 3, 5, 8, 13, 21, 34];
const DEPTHS_THOROUGH: [usize; 11] = [1, 2, 3, 4, 5, 8, 13, 21, 34, 55, 64];

fn rep(n: usize, sep: &str, f: impl Fn(usize) -> String) -> String {
    (0..n).map(f).collect::<Vec<_>>().join(sep)
}

/// (name, kind, valid for every N?, generator)
type Gen = fn(usize) -> String;
pub const REPEATERS: &[(&str, Kind, bool, Gen)] = &[
    // ---- chains of one binary operator (left-associative)
    ("chain:int+", Kind::Wide, true, |n| format!("fn f() -> i32 {{ {} }}", rep(n + 1, " + ", |_| "1".into()))),
    ("chain:int-", Kind::Wide, true, |n| format!("fn f() -> i32 {{ {} }}", rep(n + 1, " - ", |_| "1".into()))),
    ("chain:int*", Kind::Wide, true, |n| format!("fn f() -> i32 {{ {} }}", rep(n + 1, " * ", |_| "1".into()))),
    ("chain:int/", Kind::Wide, true, |n| format!("fn f() -> i32 {{ {} }}", rep(n + 1, " / ", |_| "1".into()))),
    ("chain:int%", Kind::Wide, true, |n| format!("fn f() -> i32 {{ {} }}", rep(n + 1, " % ", |_| "7".into()))),
    ("chain:u8+param", Kind::Wide, true, |n| format!("fn f(x: u8) -> u8 {{ {} }}", rep(n + 1, " + ", |_| "x".into()))),
    ("chain:u64/param", Kind::Wide, true, |n| format!("fn f(x: u64) -> u64 {{ {} }}", rep(n + 1, " / ", |_| "x".into()))),
    ("chain:f64+", Kind::Wide, true, |n| format!("fn f() -> f64 {{ {} }}", rep(n + 1, " + ", |_| "1.5".into()))),
    ("chain:f32/", Kind::Wide, true, |n| format!("fn f(x: f32) -> f32 {{ {} }}", rep(n + 1, " / ", |_| "x".into()))),
    ("chain:string+", Kind::Wide, true, |n| format!("fn f() -> String {{ {} }}", rep(n + 1, " + ", |_| "\"a\"".into()))),
    ("chain:string+param", Kind::Wide, true, |n| {
        format!("fn f(s: String) -> String {{ {} }}", rep(n + 1, " + ", |_| "s".into()))
    }),
    ("chain:list+", Kind::Wide, true, |n| format!("fn f() -> List[i32] {{ {} }}", rep(n + 1, " + ", |_| "[1]".into()))),
    ("chain:list+param", Kind::Wide, true, |n| {
        format!("fn f(l: List[u8]) -> List[u8] {{ {} }}", rep(n + 1, " + ", |_| "l".into()))
    }),
    ("chain:ip/then+", Kind::Wide, true, |n| {
        format!("fn f(a: IpAddr) -> Prefix {{ let n: u8 = {}; a / n }}", rep(n + 1, " + ", |_| "0".into()))
    }),
    ("chain:&&", Kind::Wide, true, |n| format!("fn f(b: bool) -> bool {{ {} }}", rep(n + 1, " && ", |_| "b".into()))),
    ("chain:||", Kind::Wide, true, |n| format!("fn f(b: bool) -> bool {{ {} }}", rep(n + 1, " || ", |_| "b".into()))),
    ("chain:&&||", Kind::Wide, true, |n| {
        format!("fn f(b: bool) -> bool {{ {} }}", rep(n + 1, " || ", |i| if i % 2 == 0 { "(b && b)".into() } else { "b".into() }))
    }),
    ("chain:+*", Kind::Wide, true, |n| {
        format!("fn f(x: i64) -> i64 {{ x{} }}", rep(n, "", |i| if i % 2 == 0 { " + x".into() } else { " * x".into() }))
    }),
    ("chain:+/", Kind::Wide, true, |n| {
        format!("fn f(x: i64) -> i64 {{ x{} }}", rep(n, "", |i| if i % 2 == 0 { " + x".into() } else { " / x".into() }))
    }),
    ("chain:cmp-of-sums", Kind::Wide, true, |n| {
        format!("fn f(x: i32) -> bool {{ {} < {} }}", rep(n + 1, " + ", |_| "x".into()), rep(n + 1, " + ", |_| "1".into()))
    }),
    ("chain:eq-of-sums", Kind::Wide, true, |n| {
        format!("fn f(x: i32) -> bool {{ {} == {} }}", rep(n + 1, " + ", |_| "x".into()), rep(n + 1, " / ", |_| "1".into()))
    }),
    ("chain:ill-typed+", Kind::Wide, false, |n| format!("fn f() -> i32 {{ {} + true }}", rep(n + 1, " + ", |_| "1".into()))),
    ("chain:ill-typed/", Kind::Wide, false, |n| format!("fn f() -> i32 {{ {} / \"a\" }}", rep(n + 1, " / ", |_| "1".into()))),
    ("chain:compound+=", Kind::Wide, true, |n| {
        format!("fn f(x: i32) -> i32 {{ let y = 0; y += {}; y }}", rep(n + 1, " + ", |_| "x".into()))
    }),
    ("chain:const-init", Kind::Wide, true, |n| format!("const K: i32 = {};", rep(n + 1, " + ", |_| "1".into()))),
    // ---- chains of postfix / prefix forms
    ("chain:method", Kind::Wide, true, |n| format!("fn f(s: String) -> String {{ s{} }}", rep(n, "", |_| ".append(\"a\")".into()))),
    ("chain:method-noarg", Kind::Wide, true, |n| {
        format!("fn f(s: String) -> String {{ s{} }}", rep(n, "", |_| ".to_uppercase()".into()))
    }),
    ("chain:field", Kind::Deep, true, |n| {
        format!(
            "record R0 {{ x: i32 }}\n{}\nfn f(r: R{n}) -> i32 {{ r{}.x }}",
            rep(n, "\n", |i| format!("record R{} {{ r: R{} }}", i + 1, i)),
            rep(n, "", |_| ".r".into())
        )
    }),
    ("chain:unary-minus", Kind::Deep, true, |n| format!("fn f(x: i32) -> i32 {{ {}x }}", rep(n, "", |_| "- ".into()))),
    ("chain:not", Kind::Deep, true, |n| format!("fn f(b: bool) -> bool {{ {}b }}", rep(n, "", |_| "!".into()))),
    ("chain:question-mark", Kind::Wide, true, |n| {
        format!("fn g(x: i32) -> i32? {{ Option.Some(x) }}\nfn f(x0: i32) -> i32? {{ {} Option.Some(x{n}) }}", rep(n, " ", |i| format!("let x{} = g(x{})?;", i + 1, i)))
    }),
    // ---- nesting
    ("nest:parens", Kind::Deep, true, |n| format!("fn f() -> i32 {{ {}1{} }}", "(".repeat(n), ")".repeat(n))),
    ("nest:right-assoc+", Kind::Deep, true, |n| format!("fn f() -> i32 {{ {}1{} }}", "1 + (".repeat(n), ")".repeat(n))),
    ("nest:blocks", Kind::Deep, true, |n| format!("fn f() -> i32 {{ {}1{} }}", "{ ".repeat(n), " }".repeat(n))),
    ("nest:if", Kind::Deep, true, |n| {
        format!("fn f(b: bool) -> i32 {{ {}1{} }}", "if b { ".repeat(n), " } else { 0 }".repeat(n))
    }),
    ("nest:while", Kind::Deep, true, |n| format!("fn f(b: bool) {{ {}{} }}", "while b { ".repeat(n), " }".repeat(n))),
    ("nest:for", Kind::Deep, true, |n| {
        format!("fn f(l: List[i32]) {{ {}{} }}", rep(n, "", |i| format!("for x{i} in l {{ ")), " }".repeat(n))
    }),
    ("nest:match", Kind::Deep, true, |n| {
        format!("fn f(o: i32?) -> i32 {{ {}1{} }}", "match o { Some(v) => ".repeat(n), ", None => 0 }".repeat(n))
    }),
    ("nest:calls", Kind::Deep, true, |n| format!("fn g(x: i32) -> i32 {{ x }}\nfn f() -> i32 {{ {}1{} }}", "g(".repeat(n), ")".repeat(n))),
    ("nest:list-literal", Kind::Deep, false, |n| format!("fn f() {{ let l = {}1{}; }}", "[".repeat(n), "]".repeat(n))),
    ("nest:list-type", Kind::Deep, true, |n| format!("fn f(l: {}i32{}) {{ }}", "List[".repeat(n), "]".repeat(n))),
    ("nest:option-type", Kind::Deep, true, |n| format!("fn f(o: i32{}) {{ }}", "?".repeat(n))),
    ("nest:option-value", Kind::Deep, true, |n| {
        format!("fn f() -> i32{} {{ {}1{} }}", "?".repeat(n), "Option.Some(".repeat(n), ")".repeat(n))
    }),
    ("nest:record-literal", Kind::Deep, true, |n| {
        format!("fn f() -> i32 {{ let r = {}1{}; 1 }}", "{ a: ".repeat(n), " }".repeat(n))
    }),
    ("nest:record-type", Kind::Deep, true, |n| format!("fn f(r: {}i32{}) {{ }}", "{ a: ".repeat(n), " }".repeat(n))),
    ("nest:fstring", Kind::Deep, true, |n| format!("fn f() -> String {{ {}1{} }}", "f\"a{".repeat(n), "}\"".repeat(n))),
    ("nest:else-if", Kind::Wide, true, |n| {
        format!("fn f(k: i32) -> i32 {{ {} else {{ -1 }} }}", rep(n, " else ", |i| format!("if k == {i} {{ {i} }}")))
    }),
    ("nest:call-depth", Kind::Wide, true, |n| {
        format!("fn g0() -> i32 {{ 1 }}\n{}\nfn f() -> i32 {{ g{n}() }}", rep(n, "\n", |i| format!("fn g{}() -> i32 {{ g{}() }}", i + 1, i)))
    }),
    // ---- wide declarations
    ("wide:lets", Kind::Wide, true, |n| format!("fn f() -> i32 {{ {} v0 }}", rep(n, " ", |i| format!("let v{i} = {};", i % 100)))),
    ("wide:let-shadow", Kind::Wide, false, |n| format!("fn f() -> i32 {{ let v = 0; {} v }}", rep(n, " ", |_| "let v = v + 1;".into()))),
    ("wide:assignments", Kind::Wide, true, |n| format!("fn f() -> i32 {{ let v = 0; {} v }}", rep(n, " ", |_| "v = v + 1;".into()))),
    ("wide:string-lets", Kind::Wide, true, |n| {
        format!("fn f() -> String {{ {} \"z\" }}", rep(n, " ", |i| format!("let v{i} = \"s\" + \"t\";")))
    }),
    ("wide:params", Kind::Wide, true, |n| {
        format!(
            "fn g({}) -> i32 {{ a0 }}\nfn f() -> i32 {{ g({}) }}",
            rep(n, ", ", |i| format!("a{i}: i32")),
            rep(n, ", ", |i| format!("{}", i % 100))
        )
    }),
    ("wide:string-params", Kind::Wide, true, |n| {
        format!(
            "fn g({}) -> String {{ a0 }}\nfn f() -> String {{ g({}) }}",
            rep(n, ", ", |i| format!("a{i}: String")),
            rep(n, ", ", |_| "\"s\"".into())
        )
    }),
    ("wide:functions", Kind::Wide, true, |n| rep(n, "\n", |i| format!("fn g{i}() -> i32 {{ {} }}", i % 100))),
    ("wide:tests", Kind::Wide, true, |n| rep(n, "\n", |i| format!("test t{i} {{ accept }}"))),
    ("wide:filtermaps", Kind::Wide, true, |n| rep(n, "\n", |i| format!("filtermap m{i}(x: i32) {{ if x == {i} {{ accept }} else {{ reject }} }}"))),
    ("wide:consts", Kind::Wide, true, |n| rep(n, "\n", |i| format!("const K{i}: i32 = {};", i % 100))),
    ("wide:const-chain", Kind::Wide, true, |n| {
        format!("const K0: i32 = 1;\n{}", rep(n, "\n", |i| format!("const K{}: i32 = K{} + 1;", i + 1, i)))
    }),
    ("wide:const-chain-reversed", Kind::Wide, true, |n| {
        format!("{}\nconst K0: i32 = 1;", rep(n, "\n", |i| format!("const K{}: i32 = K{} + 1;", n - i, n - i - 1)))
    }),
    ("wide:record-fields", Kind::Wide, true, |n| {
        format!(
            "record R {{ {} }}\nfn f() -> i32 {{ let r = R {{ {} }}; r.f{} }}",
            rep(n, ", ", |i| format!("f{i}: i32")),
            rep(n, ", ", |i| format!("f{i}: {}", i % 100)),
            n - 1
        )
    }),
    ("wide:anon-record-fields", Kind::Wide, true, |n| {
        format!("fn f() -> i32 {{ let r = {{ {} }}; r.f{} }}", rep(n, ", ", |i| format!("f{i}: {}", i % 100)), n - 1)
    }),
    ("wide:record-mixed-fields", Kind::Wide, true, |n| {
        format!(
            "record R {{ {} }}\nfn f(a: R, b: R) -> bool {{ a == b }}",
            rep(n, ", ", |i| format!("f{i}: {}", ["u8", "u64", "String", "bool", "u16"][i % 5]))
        )
    }),
    ("wide:records", Kind::Wide, true, |n| rep(n, "\n", |i| format!("record R{i} {{ x: i32 }}"))),
    ("wide:enum-variants", Kind::Wide, false, |n| format!("enum E {{ {} }}", rep(n, ", ", |i| format!("V{i}")))),
    ("wide:enum-variants-match", Kind::Wide, false, |n| {
        format!(
            "enum E {{ {} }}\nfn f(e: E) -> i32 {{ match e {{ {} }} }}",
            rep(n, ", ", |i| format!("V{i}")),
            rep(n, ", ", |i| format!("V{i} => {}", i % 100))
        )
    }),
    ("wide:enum-variants-eq", Kind::Wide, false, |n| {
        format!("enum E {{ {} }}\nfn f(e: E) -> bool {{ e == E.V{} }}", rep(n, ", ", |i| format!("V{i}")), n - 1)
    }),
    ("wide:enum-variants-default-arm", Kind::Wide, false, |n| {
        format!("enum E {{ {} }}\nfn f(e: E) -> i32 {{ match e {{ V0 => 0, _ => 1 }} }}", rep(n, ", ", |i| format!("V{i}")))
    }),
    ("wide:enum-variants-with-payload", Kind::Wide, false, |n| {
        format!(
            "enum E {{ {} }}\nfn f(e: E) -> u64 {{ match e {{ {} }} }}",
            rep(n, ", ", |i| format!("V{i}(u64)")),
            rep(n, ", ", |i| format!("V{i}(x) => x"))
        )
    }),
    ("wide:enum-constructed-only", Kind::Wide, false, |n| {
        format!("enum E {{ {} }}\nfn f() {{ let e = E.V{}; }}", rep(n, ", ", |i| format!("V{i}")), n - 1)
    }),
    ("wide:variant-payload", Kind::Wide, true, |n| {
        format!(
            "enum E {{ A({}), B }}\nfn f() -> i32 {{ match E.A({}) {{ A({}) => x0, B => 0 }} }}",
            rep(n, ", ", |_| "i32".into()),
            rep(n, ", ", |i| format!("{}", i % 100)),
            rep(n, ", ", |i| format!("x{i}"))
        )
    }),
    ("wide:guarded-arms", Kind::Wide, true, |n| {
        format!("fn f(o: i32?) -> i32 {{ match o {{ {}, Some(x) => x, None => 0 }} }}", rep(n, ", ", |i| format!("Some(x) if x == {i} => {i}")))
    }),
    ("wide:repeated-arms", Kind::Wide, true, |n| {
        format!("fn f(o: i32?) -> i32 {{ match o {{ {}, None => 0 }} }}", rep(n, ", ", |i| format!("Some(x) => {i}")))
    }),
    ("wide:type-params", Kind::Wide, true, |n| {
        format!("record R[{}] {{ x: T0 }}", rep(n, ", ", |i| format!("T{i}")))
    }),
    ("wide:list-literal", Kind::Wide, true, |n| format!("fn f() -> List[i32] {{ [{}] }}", rep(n, ", ", |i| format!("{}", i % 100)))),
    ("wide:string-list-literal", Kind::Wide, true, |n| format!("fn f() -> List[String] {{ [{}] }}", rep(n, ", ", |_| "\"s\"".into()))),
    ("wide:fstring-parts", Kind::Wide, true, |n| format!("fn f(x: i32) -> String {{ f\"{}\" }}", rep(n, "", |_| "a{x}".into()))),
    ("wide:imports", Kind::Wide, false, |n| format!("{}\nfn f() {{ }}", rep(n, "\n", |_| "import String.append;".into()))),
    ("wide:import-list", Kind::Wide, false, |n| format!("import std.{{{}}};", rep(n, ", ", |_| "u8".into()))),
    ("wide:returns", Kind::Wide, false, |n| format!("fn f() -> i32 {{ {} }}", rep(n, " ", |i| format!("return {i};")))),
    ("wide:ifs-with-return", Kind::Wide, true, |n| {
        format!("fn f(k: i32) -> i32 {{ {} 0 }}", rep(n, " ", |i| format!("if k == {i} {{ return {i}; }}")))
    }),
    ("wide:whiles", Kind::Wide, true, |n| {
        format!("fn f(k: i32) -> i32 {{ let i = 0; {} i }}", rep(n, " ", |_| "while i < k { i = i + 1; }".into()))
    }),
    // ---- a type shared by two fields, N times (every value stays one or two pointers wide)
    ("share:list-of-record", Kind::Share, true, |n| {
        format!("fn f() -> i32 {{ let a0 = [1]; {} a{n}.len(); 1 }}", rep(n, " ", |i| format!("let a{} = [{{ l: a{i}, r: a{i} }}];", i + 1)))
    }),
    ("share:record-of-lists", Kind::Share, true, |n| {
        format!("fn f() -> i32 {{ let a0 = 1; {} 1 }}", rep(n, " ", |i| format!("let a{} = {{ l: [a{i}], r: [a{i}] }};", i + 1)))
    }),
    ("share:list-of-option-of-record", Kind::Share, true, |n| {
        format!("fn f() -> i32 {{ let a0 = [1]; {} 1 }}", rep(n, " ", |i| format!("let a{} = [Option.Some({{ l: a{i}, r: a{i} }})];", i + 1)))
    }),
    ("share:generic-record-of-lists", Kind::Share, true, |n| {
        format!(
            "record P[T] {{ l: List[T], r: List[T] }}\nfn f() -> i32 {{ let a0 = 1; {} 1 }}",
            rep(n, " ", |i| format!("let a{} = P {{ l: [a{i}], r: [a{i}] }};", i + 1))
        )
    }),
    ("share:list-of-record-ill-typed-last-line", Kind::Share, false, |n| {
        format!("fn f() -> i32 {{ let a0 = [1]; {} a{n} + 1 }}", rep(n, " ", |i| format!("let a{} = [{{ l: a{i}, r: a{i} }}];", i + 1)))
    }),
    ("share:record-of-lists-ill-typed-last-line", Kind::Share, false, |n| {
        format!("fn f() -> i32 {{ let a0 = 1; {} a{n} + 1 }}", rep(n, " ", |i| format!("let a{} = {{ l: [a{i}], r: [a{i}] }};", i + 1)))
    }),
    // ---- long chains of one-line declarations / statements (no nesting)
    ("count:function-calls-next", Kind::Count, true, |n| {
        format!("{}\nfn f{n}() -> i32 {{ 1 }}", rep(n, "\n", |i| format!("fn f{i}() -> i32 {{ f{}() }}", i + 1)))
    }),
    ("count:record-contains-next", Kind::Count, true, |n| {
        format!("{}\nrecord R{n} {{ x: i32 }}\nfn f(r: R0?) {{ }}", rep(n, "\n", |i| format!("record R{i} {{ x: R{} }}", i + 1)))
    }),
    ("count:constant-reads-next", Kind::Count, true, |n| {
        format!("{}\nconst K{n}: i32 = 1;", rep(n, "\n", |i| format!("const K{i}: i32 = K{};", i + 1)))
    }),
    ("count:unify-with-next", Kind::Count, true, |n| {
        format!(
            "fn f() {{ {} {} l0.push(1); }}",
            rep(n + 1, " ", |i| format!("let l{i} = [];")),
            rep(n, " ", |i| format!("l{i} == l{};", i + 1))
        )
    }),
    ("count:enum-payload-is-next", Kind::Count, true, |n| {
        format!("{}\nenum E{n} {{ A }}\nfn f(e: E0?) {{ }}", rep(n, "\n", |i| format!("enum E{i} {{ A(E{}), B }}", i + 1)))
    }),
    // ---- long lexical items
    ("long:identifier", Kind::Wide, true, |n| format!("fn f() -> i32 {{ let {0} = 1; {0} }}", "a".repeat(n))),
    // a literal of n KiB: above the allocator's mmap threshold the data object of the literal
    // and the code of the function are allocated far apart (audit of C11: 32-bit relocation)
    ("huge:string-literal-KiB", Kind::Wide, true, |n| format!("fn f() -> String {{ \"{}\" }}", "a".repeat(n * 1024))),
    ("huge:string-literals-KiB", Kind::Wide, true, |n| {
        format!("fn f() -> String {{ \"{}\" + \"{}\" }}", "a".repeat(n * 1024), "b".repeat(n * 512))
    }),
    ("long:string", Kind::Wide, true, |n| format!("fn f() -> String {{ \"{}\" }}", "é".repeat(n))),
    ("long:fstring-text", Kind::Wide, true, |n| format!("fn f() -> String {{ f\"{}\" }}", "é".repeat(n))),
    ("long:integer", Kind::Wide, false, |n| format!("fn f() -> u64 {{ {} }}", "9".repeat(n))),
    ("long:leading-zeros", Kind::Wide, false, |n| format!("fn f() -> u64 {{ {}1 }}", "0".repeat(n))),
    ("long:float", Kind::Wide, false, |n| format!("fn f() -> f64 {{ 1.{} }}", "9".repeat(n))),
    ("long:float-int-part", Kind::Wide, false, |n| format!("fn f() -> f64 {{ {}.0 }}", "9".repeat(n))),
    ("long:hex", Kind::Wide, false, |n| format!("fn f() -> u64 {{ 0x{} }}", "f".repeat(n))),
    ("long:comment", Kind::Wide, true, |n| format!("// {}\nfn f() {{ }}", "é".repeat(n))),
    ("long:comment-lines", Kind::Wide, true, |n| format!("{}fn f() {{ }}", "// c\n".repeat(n))),
    ("long:blank-lines", Kind::Wide, false, |n| format!("{}fn f() -> i32 {{ true }}", "\n".repeat(n))),
    ("long:path", Kind::Wide, false, |n| format!("fn f() {{ a{}; }}", ".b".repeat(n))),
    ("long:super-path", Kind::Wide, false, |n| format!("fn f() {{ {}x; }}", "super.".repeat(n))),
    ("long:semicolons", Kind::Wide, false, |n| format!("fn f() {{ 1{} }}", ";".repeat(n))),
    ("long:unclosed", Kind::Deep, false, |n| format!("fn f() {{ {}", "(".repeat(n))),
    ("long:unclosed-blocks", Kind::Deep, false, |n| format!("fn f() {{ {}", "{ ".repeat(n))),
    ("long:unclosed-lists", Kind::Deep, false, |n| format!("fn f() {{ {}", "[".repeat(n))),
];

fn sizes(cfg: &Cfg, k: Kind) -> &'static [usize] {
    match (k, cfg.tier) {
        (Kind::Wide, vcore::Tier::Quick) => &WIDTHS_QUICK,
        (Kind::Wide, vcore::Tier::Thorough) => &WIDTHS_THOROUGH,
        (Kind::Deep, vcore::Tier::Quick) => &DEPTHS_QUICK,
        (Kind::Deep, vcore::Tier::Thorough) => &DEPTHS_THOROUGH,
        (Kind::Share, vcore::Tier::Quick) => &SHARES_QUICK,
        (Kind::Share, vcore::Tier::Thorough) => &SHARES_THOROUGH,
        (Kind::Count, vcore::Tier::Quick) => &COUNTS_QUICK,
        (Kind::Count, vcore::Tier::Thorough) => &COUNTS_THOROUGH,
    }
}

fn table(cfg: &Cfg) -> Vec<(usize, usize)> {
    let mut t = vec![];
    for (r, (_, k, _, _)) in REPEATERS.iter().enumerate() {
        for &n in sizes(cfg, *k) {
            t.push((r, n));
        }
    }
    t
}

pub fn count(cfg: &Cfg) -> u64 {
    table(cfg).len() as u64
}

pub fn case(cfg: &Cfg, idx: u64) -> (Input, Value) {
    let (r, n) = table(cfg)[idx as usize];
    let (name, kind, valid, g) = REPEATERS[r];
    let src = format!("{}\n", g(n));
    // small instances of a repeater that is valid for every N must compile:
    // otherwise the generator does not say what its name says
    let expect = valid && n <= 3;
    (
        Input::Single(src),
        json!({"repeater": name, "kind": format!("{kind:?}"), "n": n, "expect_compiles": expect, "seed": format!("{name} x {n}")}),
    )
}

pub fn bounds(cfg: &Cfg) -> Value {
    json!({
        "repeaters": REPEATERS.len(),
        "counts_for_wide_repeaters": sizes(cfg, Kind::Wide),
        "depths_for_deep_repeaters": sizes(cfg, Kind::Deep),
        "lets_for_share_repeaters": sizes(cfg, Kind::Share),
        "counts_for_count_repeaters": sizes(cfg, Kind::Count),
        "count_bound_note": "chains of one-line declarations are checked up to 1 000 (quick) / 10 000 (thorough) links; longer chains overflow the 8 MiB stack (audit: 30 000 functions, 20 000 records, 150 000 unifications)",
        "per_input_cpu_cap_s": cpu_cap_s(cfg),
        "per_input_wall_backstop_s": WALL_BACKSTOP_S,
        "per_input_address_space_cap_bytes": AS_CAP,
        "repeater_names": REPEATERS.iter().map(|r| r.0).collect::<Vec<_>>(),
    })
}

/// CPU seconds one input may use (RLIMIT_CPU of the forked child, whose CPU
/// clock starts at zero): independent of the load of the machine
pub fn cpu_cap_s(cfg: &Cfg) -> u64 {
    cfg.tier.pick(5, 15)
}

/// wall-clock backstop for a child that neither finishes nor uses CPU
pub const WALL_BACKSTOP_S: f64 = 600.0;

/// address-space cap of the forked child that compiles an L6 input
pub const AS_CAP: u64 = 6 << 30;
