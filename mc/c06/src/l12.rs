//! L12 — reference graphs among constants and functions: EVERY directed graph
//! (self loops included) on up to three items, every item a constant or a
//! function, in every declaration order that differs by the first item.
//!
//! Whatever the compiler does with the graph — orders it, finds its cycles,
//! describes a cycle in a diagnostic — it meets every shape here: rings, rings
//! with chords, two cycles sharing a node, a constant reached by two paths,
//! components that are not one path of the search. Oracle as everywhere in C06:
//! a package or a report that renders and cites valid locations. (C14 judges
//! the VERDICT on such graphs; this layer only demands totality, but on all of
//! them.) Added after seeded change C06-6 (the diagnostic for a recursive
//! constant indexed a map with a pair of items that are neighbours in the order
//! the component was popped, not in the graph).

use crate::oracle::Input;
use vcore::{Cfg, Tier, Value, json};

fn n_max(cfg: &Cfg) -> usize {
    match cfg.tier {
        Tier::Quick => 3,
        Tier::Thorough => 3,
    }
}

/// (n, edge mask over n*n, kind mask, rotation of the declaration order)
fn table(cfg: &Cfg) -> Vec<(usize, u32, u32, usize)> {
    let mut t = vec![];
    for n in 1..=n_max(cfg) {
        for edges in 0..(1u32 << (n * n)) {
            for kinds in 0..(1u32 << n) {
                for rot in 0..n {
                    // a rotation only matters when there is more than one item and an edge
                    if rot > 0 && edges == 0 {
                        continue;
                    }
                    t.push((n, edges, kinds, rot));
                }
            }
        }
    }
    t
}

pub fn count(cfg: &Cfg) -> u64 {
    table(cfg).len() as u64
}

fn source(n: usize, edges: u32, kinds: u32, rot: usize) -> String {
    let is_fn = |i: usize| kinds >> i & 1 == 1;
    // functions count a depth down, so that a cycle of functions that a constant's
    // initialiser calls at compile time terminates (unbounded recursion is a resource
    // limit, not the subject here)
    let mention = |j: usize, from_fn: bool| match (is_fn(j), from_fn) {
        (true, true) => format!("x{j}(d - 1)"),
        (true, false) => format!("x{j}(2)"),
        (false, _) => format!("X{j}"),
    };
    let mut items = vec![];
    for i in 0..n {
        let mut terms = vec![format!("{}", i + 1)];
        for j in 0..n {
            if edges >> (i * n + j) & 1 == 1 {
                terms.push(mention(j, is_fn(i)));
            }
        }
        let body = terms.join(" + ");
        items.push(if is_fn(i) {
            format!("fn x{i}(d: u32) -> u32 {{ if d == 0 {{ {} }} else {{ {body} }} }}\n", i + 1)
        } else {
            format!("const X{i}: u32 = {body};\n")
        });
    }
    items.rotate_left(rot);
    items.concat()
}

pub fn case(cfg: &Cfg, idx: u64) -> (Input, Value) {
    let (n, edges, kinds, rot) = table(cfg)[idx as usize];
    let src = source(n, edges, kinds, rot);
    let info = json!({"items": n, "edges (i*n+j set = item i mentions item j)": format!("{edges:#b}"),
                      "functions": format!("{kinds:#b}"), "first_item_declared": rot});
    (Input::Single(src), info)
}

pub fn bounds(cfg: &Cfg) -> Value {
    json!({"max_items": n_max(cfg), "graphs": "all directed graphs with self loops", "kinds": "constant or function per item",
           "declaration_orders": "rotations", "cases": count(cfg)})
}
