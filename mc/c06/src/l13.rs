//! L13 — the same name twice in every kind of name list, declared only / used.
//!
//! Enum variants (plain, with payloads, generic), record fields, anonymous
//! record fields, parameters, type parameters, pattern bindings, imported names,
//! items of one module (every pair of item kinds), tests, modules and items.
//! Most are type errors, some are allowed (shadowing); all must end in a package
//! or a report. Added after seeded change C06-8 (duplicate variants let through
//! by the pass that pre-declares them, `unwrap` in the pass that declares them).

use crate::oracle::Input;
use vcore::{Cfg, Value, json};

const DECLS: [&str; 34] = [
    "enum E { A, B, A }\n",
    "enum E { A, A }\n",
    "enum E { A(u8), A }\n",
    "enum E { A, A(u8) }\n",
    "enum E { A(u8), B, A(u16) }\n",
    "enum E[T] { A(T), A(T) }\n",
    "enum E[T] { A(T), B, C, A }\n",
    "enum E { A, B, A, B }\n",
    "enum E { A, A, A }\n",
    "record R { a: u8, a: u8 }\n",
    "record R { a: u8, b: u8, a: u16 }\n",
    "record R[T] { a: T, a: T }\n",
    "record R[T, T] { a: T }\n",
    "enum E[T, T] { A(T) }\n",
    "fn f(a: u8, a: u8) -> u8 { a }\n",
    "fn f(a: u8, b: u8, a: u16) { }\n",
    "fn f() { let r = { a: 1, a: 2 }; }\n",
    "fn f(r: { a: u8, a: u8 }) { }\n",
    "fn f(o: E2) -> u8 { match o { P(x, x) => x, Q => 0 } }\nenum E2 { P(u8, u8), Q }\n",
    "fn f() -> u8 { 1 }\nfn f() -> u8 { 2 }\n",
    "fn f() -> u8 { 1 }\nconst f: u8 = 2;\n",
    "const K: u8 = 1;\nconst K: u8 = 2;\n",
    "record T { a: u8 }\nenum T { A }\n",
    "record T { a: u8 }\nrecord T { b: u8 }\n",
    "enum T { A }\nenum T { B }\n",
    "fn T() { }\nrecord T { a: u8 }\n",
    "test t { accept }\ntest t { reject }\n",
    "filtermap m() { accept }\nfn m() { }\n",
    "filtermap m() { accept }\nfiltermap m() { reject }\n",
    "enum E { A, B }\nenum F { A, B }\n",
    "enum E { E, F }\n",
    "enum E { A(E2), E2 }\nenum E2 { A, E }\n",
    "record R { R: u8 }\n",
    "enum Option { Some, None, Some }\n",
];

/// what follows the declaration: nothing, or code that uses the names
const USES: [&str; 6] = [
    "",
    "fn g(x: E) -> u8 { match x { A => 1, _ => 2 } }\n",
    "fn g() -> E { E.A }\n",
    "fn g(r: R) -> u8 { r.a }\n",
    "fn g() -> u8 { f() }\n",
    "fn g(x: T) { }\n",
];

pub fn count(_cfg: &Cfg) -> u64 {
    (DECLS.len() * USES.len() * 2) as u64
}

pub fn case(_cfg: &Cfg, idx: u64) -> (Input, Value) {
    let i = idx as usize;
    let uses_first = i % 2 == 1;
    let u = (i / 2) % USES.len();
    let d = i / 2 / USES.len();
    let src = if uses_first { format!("{}{}", USES[u], DECLS[d]) } else { format!("{}{}", DECLS[d], USES[u]) };
    (Input::Single(src), json!({"declaration": DECLS[d], "use": USES[u], "use_first": uses_first}))
}

pub fn bounds(cfg: &Cfg) -> Value {
    json!({"declarations_with_a_repeated_name": DECLS.len(), "uses": USES.len(), "orders": 2, "cases": count(cfg)})
}
