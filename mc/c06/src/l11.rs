//! L11 — diagnostics in trees of two and three modules whose files start with
//! comment headers of different lengths in characters of 1, 2, 3 and 4 bytes.
//!
//! A report converts the byte spans of its labels into character offsets of the
//! file each label points into. Whatever is carried over from one label to the
//! next — the text of another file, a position reached in another file — is
//! harmless as long as all files are ASCII or all labels lie in one file. So:
//! every error template that cites one or several places (the use in one module,
//! the declaration in another; an error inside the second module; two errors in
//! two modules) x every header of the root file x every header of the other
//! file(s) x a few column shifts of the cited place. Oracle as everywhere in C06:
//! a package or a report that renders in both modes and cites valid locations.
//! Added after seeded change C06-5 (a character-offset cursor shared between files).

use crate::oracle::{Input, MemNode};
use vcore::{Cfg, Tier, Value, json};

/// (name, pkg body, lib body, lib2 body); ◆ = the padding that shifts the cited place
const TEMPLATES: [(&str, &str, &str, &str); 14] = [
    ("type-used-as-value", "fn main() -> u32 {\n◆lib.Thing\n}\n", "record Thing { x: u32 }\n", ""),
    ("imported-type-used-as-value", "import lib.Thing;\nfn main() -> u32 {\n◆Thing\n}\n", "record Thing { x: u32 }\n", ""),
    ("module-and-item-share-a-name", "◆fn lib() {}\n", "fn f() {}\n", ""),
    ("argument-count", "fn main() -> u32 {\n◆lib.f(1, 2)\n}\n", "◆fn f(a: u32) -> u32 { a }\n", ""),
    ("error-in-second-module", "fn main() -> u32 { lib.f(1) }\n", "fn f(a: u32) -> u32 {\n◆true\n}\n", ""),
    ("return-type-of-other-module", "fn main() -> bool {\n◆lib.f(1)\n}\n", "◆fn f(a: u32) -> u32 { a }\n", ""),
    ("declared-twice-in-second-module", "fn main() -> u32 { 1 }\n", "record Thing { x: u32 }\n◆record Thing { y: u32 }\n", ""),
    ("field-mismatch-on-foreign-record", "fn main() -> u32 {\n◆let t = lib.Thing { x: 1, y: 2 }; 0\n}\n", "◆record Thing { x: u32 }\n", ""),
    ("pattern-on-foreign-enum", "fn main(e: lib.E) -> u32 {\n◆match e { A(x) => 1, B(y) => 2 }\n}\n", "◆enum E { A, B(u32) }\n", ""),
    ("parse-error-in-second-module", "fn main() -> u32 { lib.f(1) }\n", "fn f(a: u32) -> u32 {\n◆1 +\n}\n", ""),
    ("parse-error-in-root", "fn main() -> u32 {\n◆1 +\n}\n", "fn f(a: u32) -> u32 { a }\n", ""),
    ("two-foreign-types-used-as-values", "fn main() -> u32 {\n◆lib.Thing;\n◆lib2.Other\n}\n", "◆record Thing { x: u32 }\n", "record Other { y: u32 }\n"),
    ("errors-in-three-modules", "fn main() -> u32 {\n◆true\n}\n", "fn f() -> u32 {\n◆lib2.Other\n}\n", "◆record Other { y: u32 }\nfn g() -> u32 {\n◆'c'\n}\n"),
    ("foreign-constant-assigned", "fn main() {\n◆lib.K = 2;\n}\n", "◆const K: u32 = 1;\n", ""),
];

const HEADER_CHARS: [char; 4] = ['a', 'é', '漢', '𝄞'];
const HEADER_LENS: [usize; 7] = [1, 2, 3, 5, 8, 13, 21];

/// header 0 is "no header"
fn n_headers() -> u64 {
    1 + (HEADER_CHARS.len() * HEADER_LENS.len()) as u64
}

fn header(h: u64) -> String {
    if h == 0 {
        return String::new();
    }
    let h = (h - 1) as usize;
    let c = HEADER_CHARS[h / HEADER_LENS.len()];
    let n = HEADER_LENS[h % HEADER_LENS.len()];
    format!("// {}\n", c.to_string().repeat(n))
}

fn pads(cfg: &Cfg) -> u64 {
    match cfg.tier {
        Tier::Quick => 4,
        Tier::Thorough => 9,
    }
}

pub fn count(cfg: &Cfg) -> u64 {
    TEMPLATES.len() as u64 * n_headers() * n_headers() * pads(cfg)
}

pub fn case(cfg: &Cfg, idx: u64) -> (Input, Value) {
    let np = pads(cfg);
    let nh = n_headers();
    let pad = idx % np;
    let hl = (idx / np) % nh;
    let hp = (idx / np / nh) % nh;
    let t = (idx / np / nh / nh) as usize;
    let (name, pkg, lib, lib2) = TEMPLATES[t];
    let padding = " ".repeat(pad as usize);
    let fill = |s: &str| s.replace('◆', &padding);
    let file = |name: &str, module: &str, contents: String, children: Vec<MemNode>| MemNode {
        name: name.into(),
        module: module.into(),
        contents,
        offset: 0,
        dir: !children.is_empty(),
        children,
    };
    let mut children = vec![file("lib.roto", "lib", format!("{}{}", header(hl), fill(lib)), vec![])];
    if !lib2.is_empty() {
        // the third module gets the header of the root, shifted by one entry
        children.push(file("lib2.roto", "lib2", format!("{}{}", header((hp + 1) % nh), fill(lib2)), vec![]));
    }
    let root = file("pkg.roto", "pkg", format!("{}{}", header(hp), fill(pkg)), children);
    let info = json!({"template": name, "root_header": header(hp), "other_header": header(hl), "padding": pad});
    (Input::Mem(root), info)
}

pub fn bounds(cfg: &Cfg) -> Value {
    json!({"templates": TEMPLATES.iter().map(|t| t.0).collect::<Vec<_>>(),
           "header_characters": HEADER_CHARS.iter().map(|c| c.to_string()).collect::<Vec<_>>(),
           "header_lengths": HEADER_LENS, "headers_per_file": n_headers(), "paddings": pads(cfg), "cases": count(cfg)})
}
