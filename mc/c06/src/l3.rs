//! L3 — deviation 1 (and, thorough, deviation 2 on the micro seeds) from valid
//! seed programs: every single-character deletion, every insertion of one
//! character of INSERT at every position, every truncation (proper prefix),
//! every single-token replacement by every token of the alphabet.

use crate::oracle::Input;
use crate::seeds::{self, Seed};
use crate::tok::{self, ALPHABET};
use vcore::{Cfg, Tier, Value, json};

pub const INSERT: [char; 12] = ['é', '"', '\'', '{', '}', '\\', '\n', '0', '.', ':', '#', '\u{301}'];

pub struct Table {
    pub seeds: Vec<Seed>,
    /// per seed: char boundaries (byte offsets, including the end)
    bounds: Vec<Vec<usize>>,
    toks: Vec<Vec<tok::Tok>>,
    /// prefix sums of deviation-1 counts per seed
    d1_prefix: Vec<u64>,
    /// seeds (indices) on which deviation 2 is enumerated, prefix sums of their counts
    d2_seeds: Vec<usize>,
    d2_prefix: Vec<u64>,
}

fn d1_count_chars(n: u64) -> u64 {
    n + INSERT.len() as u64 * (n + 1)
}
/// truncations: every proper prefix of the seed (0..n-1 characters)
fn d1_count_trunc(n: u64) -> u64 {
    n
}

/// Deviation 2 on a seed of `n` characters: first a character edit at
/// position p, then a character edit at a position >= p of the result (an
/// insertion is never followed by the deletion of the inserted character).
fn d2_count(n: u64) -> u64 {
    let k = INSERT.len() as u64;
    let mut c = 0;
    for p in 0..n {
        // deletion at p leaves n-1 chars; second edit at q >= p
        c += (n - 1 - p) + k * (n - p);
    }
    for p in 0..=n {
        // insertion at p gives n+1 chars; second edit at q >= p+1
        c += k * ((n - p) + k * (n + 1 - p));
    }
    c
}

impl Table {
    pub fn new(cfg: &Cfg) -> Table {
        // quick: the harness' seeds, the repository examples and tests/scripts/variable.roto;
        // thorough: also the repository's parse-error and type-error scripts
        let seeds: Vec<Seed> = seeds::all()
            .into_iter()
            .filter(|s| {
                cfg.tier == Tier::Thorough
                    || !(s.name.starts_with("tests/scripts/parse_errors") || s.name.starts_with("tests/scripts/type_errors"))
            })
            .collect();
        let bounds: Vec<Vec<usize>> = seeds
            .iter()
            .map(|s| s.text.char_indices().map(|(i, _)| i).chain([s.text.len()]).collect())
            .collect();
        let toks: Vec<Vec<tok::Tok>> = seeds.iter().map(|s| tok::tokens(&s.text)).collect();
        let mut d1_prefix = vec![0];
        for (b, t) in bounds.iter().zip(&toks) {
            let n = (b.len() - 1) as u64;
            let c = d1_count_chars(n) + d1_count_trunc(n) + (t.len() * ALPHABET.len()) as u64;
            d1_prefix.push(d1_prefix.last().unwrap() + c);
        }
        let mut d2_seeds = vec![];
        let mut d2_prefix = vec![0];
        if cfg.tier == Tier::Thorough {
            for (i, s) in seeds.iter().enumerate() {
                if s.name.starts_with("m-") {
                    d2_seeds.push(i);
                    let n = (bounds[i].len() - 1) as u64;
                    d2_prefix.push(d2_prefix.last().unwrap() + d2_count(n));
                }
            }
        }
        Table { seeds, bounds, toks, d1_prefix, d2_seeds, d2_prefix }
    }

    /// deviation 0: the seeds themselves
    pub fn count_d0(&self) -> u64 {
        self.seeds.len() as u64
    }
    pub fn count_d1(&self) -> u64 {
        *self.d1_prefix.last().unwrap()
    }
    pub fn count_d2(&self) -> u64 {
        *self.d2_prefix.last().unwrap()
    }
    pub fn count(&self) -> u64 {
        self.count_d0() + self.count_d1() + self.count_d2()
    }

    pub fn bounds_json(&self) -> Value {
        json!({"seeds": self.seeds.len(), "seed_bytes": self.seeds.iter().map(|s| s.text.len()).sum::<usize>(),
               "seed_tokens": self.toks.iter().map(|t| t.len()).sum::<usize>(),
               "insert_alphabet": INSERT.iter().map(|c| c.escape_unicode().to_string()).collect::<Vec<_>>(),
               "replacement_alphabet": ALPHABET.len(),
               "deviation1_cases": self.count_d1(), "deviation2_seeds": self.d2_seeds.len(),
               "deviation2_cases": self.count_d2()})
    }

    /// Returns `None` for an enumeration index that is a textual duplicate by
    /// construction (see the canonical-form rules below).
    pub fn case(&self, idx: u64) -> (Option<Input>, Value) {
        if idx < self.count_d0() {
            let sd = &self.seeds[idx as usize];
            // the harness' own seeds are valid programs by construction; this is checked
            let own = sd.name.starts_with("m-") || sd.name.starts_with("s-");
            return (
                Some(Input::Single(sd.text.clone())),
                json!({"seed": sd.name, "deviation": [], "expect_compiles": own}),
            );
        }
        let idx = idx - self.count_d0();
        if idx < self.count_d1() {
            let si = self.d1_prefix.partition_point(|p| *p <= idx) - 1;
            let k = idx - self.d1_prefix[si];
            let (text, what) = self.dev1(si, k);
            let info = json!({"seed": self.seeds[si].name, "deviation": [what]});
            return (text.map(Input::Single), info);
        }
        let idx = idx - self.count_d1();
        let j = self.d2_prefix.partition_point(|p| *p <= idx) - 1;
        let si = self.d2_seeds[j];
        let k = idx - self.d2_prefix[j];
        let (text, what) = self.dev2(si, k);
        (text.map(Input::Single), json!({"seed": self.seeds[si].name, "deviation": what}))
    }

    /// k-th deviation-1 variant of seed `si`: deletions, insertions, token replacements.
    fn dev1(&self, si: usize, k: u64) -> (Option<String>, Value) {
        let s = &self.seeds[si].text;
        let b = &self.bounds[si];
        let n = (b.len() - 1) as u64;
        if k < d1_count_chars(n) {
            let chars: Vec<char> = s.chars().collect();
            let (r, what) = char_edit(&chars, k);
            return (r.map(|c| c.into_iter().collect()), what);
        }
        let k = k - d1_count_chars(n);
        if k < d1_count_trunc(n) {
            let what = json!({"truncate_to_chars": k});
            return (Some(s[..b[k as usize]].to_string()), what);
        }
        let k = k - d1_count_trunc(n);
        let (ti, ai) = ((k / ALPHABET.len() as u64) as usize, (k % ALPHABET.len() as u64) as usize);
        let t = self.toks[si][ti];
        let what = json!({"replace_token": &s[t.start..t.end], "at_byte": t.start, "with": ALPHABET[ai]});
        if &s[t.start..t.end] == ALPHABET[ai] {
            return (None, what);
        }
        (Some(format!("{}{}{}", &s[..t.start], ALPHABET[ai], &s[t.end..])), what)
    }

    fn dev2(&self, si: usize, mut k: u64) -> (Option<String>, Value) {
        let chars: Vec<char> = self.seeds[si].text.chars().collect();
        let n = chars.len() as u64;
        let ins = INSERT.len() as u64;
        // first edit: deletion at p
        for p in 0..n {
            let c = (n - 1 - p) + ins * (n - p);
            if k < c {
                let (first, w1) = char_edit(&chars, p);
                let Some(first) = first else { return (None, json!([w1])) };
                // second edit on `first` (n-1 chars) at q >= p
                let m = n - 1;
                let k2 = if k < m - p { p + k } else { m + (k - (m - p)) + ins * p };
                let (second, w2) = char_edit(&first, k2);
                return (second.map(|c| c.into_iter().collect()), json!([w1, w2]));
            }
            k -= c;
        }
        for p in 0..=n {
            for (ci, _) in INSERT.iter().enumerate() {
                let c = (n - p) + ins * (n + 1 - p);
                if k < c {
                    let (first, w1) = char_edit(&chars, n + p * ins + ci as u64);
                    let Some(first) = first else { return (None, json!([w1])) };
                    let m = n + 1;
                    // deletions at q >= p+1, insertions at q >= p+1
                    let k2 = if k < m - (p + 1) { p + 1 + k } else { m + (k - (m - (p + 1))) + ins * (p + 1) };
                    let (second, w2) = char_edit(&first, k2);
                    return (second.map(|c| c.into_iter().collect()), json!([w1, w2]));
                }
                k -= c;
            }
        }
        unreachable!("L3 deviation-2 index out of range")
    }
}

/// The k-th single-character edit of `chars`: k < n deletes character k;
/// otherwise inserts INSERT[(k-n) % 12] before position (k-n)/12.
/// Canonical forms (`None` = duplicate): of a run of equal characters only the
/// first is deleted; a character equal to its left neighbour is not inserted
/// (inserting it one position earlier gives the same text).
fn char_edit(chars: &[char], k: u64) -> (Option<Vec<char>>, Value) {
    let n = chars.len() as u64;
    if k < n {
        let p = k as usize;
        let what = json!({"delete_char": chars[p].to_string(), "at_char": p});
        if p > 0 && chars[p - 1] == chars[p] {
            return (None, what);
        }
        let mut v = chars.to_vec();
        v.remove(p);
        return (Some(v), what);
    }
    let k = k - n;
    let (p, ci) = ((k / INSERT.len() as u64) as usize, (k % INSERT.len() as u64) as usize);
    let c = INSERT[ci];
    let what = json!({"insert_char": c.to_string(), "codepoint": format!("U+{:04X}", c as u32), "at_char": p});
    if p > 0 && chars[p - 1] == c {
        return (None, what);
    }
    let mut v = chars.to_vec();
    v.insert(p, c);
    (Some(v), what)
}

#[cfg(test)]
mod tests {
    use super::*;
    #[test]
    fn d2_formula_matches_enumeration() {
        let cfg = Cfg { tier: Tier::Thorough, seed: 0 };
        let t = Table::new(&cfg);
        // every index decodes; spot check the last index of each seed
        for j in 0..t.d2_seeds.len() {
            let last = t.count_d0() + t.count_d1() + t.d2_prefix[j + 1] - 1;
            let _ = t.case(last);
            let first = t.count_d0() + t.count_d1() + t.d2_prefix[j];
            let _ = t.case(first);
        }
        let _ = t.case(t.count() - 1);
    }
}
