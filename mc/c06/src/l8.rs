//! L8 — constants of every kind of type used in every kind of position.
//!
//! `const K: T = INIT;` for T over scalars, strings, records (named, nested,
//! anonymous), enums, options, lists, and the uses `K`, `K.f`, `K.f.g`, a
//! method on `K` and on a field of `K`, `==`, `match`, `for`, `?`, assignment
//! to `K` and to a field of it, `K` as argument / list element / record field /
//! f-string part, in a function, a filtermap, a test and another constant's
//! initialiser. Oracle as everywhere in C06: a package or a report, never a
//! panic. (An auditing sub-agent found that `K.f` on a record constant panics
//! the lowering with "Getting fields of constants not supported yet".)

use crate::oracle::Input;
use vcore::{Cfg, Value, json};

/// (name, declarations, type, initialiser, a field path that exists (or ""), a method call that exists (or ""))
const CONSTS: &[(&str, &str, &str, &str, &str, &str)] = &[
    ("i32", "", "i32", "5", "", ""),
    ("string", "", "String", "\"ab\"", "", ".to_uppercase()"),
    ("ip", "", "IpAddr", "1.2.3.4", "", ".is_ipv4()"),
    ("record", "record Rec { a: i32, b: u8 }\n", "Rec", "Rec { a: 5, b: 2 }", ".a", ""),
    ("record-string", "record Rs { s: String, n: u64 }\n", "Rs", "Rs { s: \"x\", n: 1 }", ".s", ""),
    ("nested-record", "record In { x: i32, l: List[u8] }\nrecord Out { i: In, n: u8 }\n", "Out", "Out { i: In { x: 1, l: [1, 2] }, n: 3 }", ".i.x", ""),
    ("anon-record", "", "{ a: i32, b: String }", "{ a: 1, b: \"s\" }", ".a", ""),
    ("enum", "enum En { A(i32, u8), B }\n", "En", "En.A(1, 2)", "", ""),
    ("option", "", "i32?", "Option.Some(3)", "", ""),
    ("option-record", "record Rec { a: i32, b: u8 }\n", "Rec?", "Option.Some(Rec { a: 5, b: 2 })", "", ""),
    ("list", "", "List[u64]", "[1, 2, 3]", "", ".len()"),
    ("list-record", "record Rec { a: i32, b: u8 }\n", "List[Rec]", "[Rec { a: 5, b: 2 }]", "", ".len()"),
    ("unit", "", "()", "()", "", ""),
    ("tracked", "", "Tr", "mk(7)", "", ".payload()"),
    ("zero-sized", "", "Z", "mkz()", "", ""),
];

/// uses of the constant K (□ = field path, ■ = method call); each is a statement list of a function body
const USES: &[(&str, &str)] = &[
    ("bare", "let v = K;"),
    ("field", "let v = K□;"),
    ("field-twice", "let v = K□; let w = K□;"),
    ("field-of-copy", "let c = K; let v = c□;"),
    ("method", "let v = K■;"),
    ("method-on-field", "let v = K□.to_string();"),
    ("eq", "let v = K == K;"),
    ("eq-field", "let v = K□ == K□;"),
    ("fstring-field", "let v = f\"{K□}\";"),
    ("list-of", "let v = [K, K];"),
    ("list-of-field", "let v = [K□];"),
    ("record-of", "let v = { k: K, n: 1 };"),
    ("record-of-field", "let v = { k: K□ };"),
    ("some", "let v = Option.Some(K);"),
    ("argument", "let v = id(K);"),
    ("argument-field", "let v = idf(K□);"),
    ("assign", "K = K;"),
    ("assign-field", "K□ = K□;"),
    ("let-then-assign-field", "let c = K; c□ = K□;"),
    ("match", "match K { _ => 1 };"),
    ("for", "for x in K { }"),
    ("for-field", "for x in K□ { }"),
    ("question", "let v = K?;"),
    ("if-field", "if K□ == K□ { }"),
    ("while-field", "while K□ != K□ { }"),
    ("return-field", "return K□;"),
    ("block-field", "let v = { K□ };"),
    ("paren-field", "let v = (K)□;"),
];

/// (name, program with ▲ = declarations, T = type, INIT, BODY)
const POSITIONS: &[(&str, &str)] = &[
    ("fn", "▲const K: T = INIT;\nfn id(x: T) -> T { x }\nfn f() { BODY }\n"),
    ("fn-after-use", "▲fn id(x: T) -> T { x }\nfn f() { BODY }\nconst K: T = INIT;\n"),
    ("filtermap", "▲const K: T = INIT;\nfn id(x: T) -> T { x }\nfiltermap m() { BODY accept }\n"),
    ("test", "▲const K: T = INIT;\nfn id(x: T) -> T { x }\ntest t { BODY accept }\n"),
    ("nested-block", "▲const K: T = INIT;\nfn id(x: T) -> T { x }\nfn f(c: bool) { if c { while c { BODY } } }\n"),
];

fn table(_cfg: &Cfg) -> Vec<(usize, usize, usize)> {
    let mut t = vec![];
    for p in 0..POSITIONS.len() {
        for c in 0..CONSTS.len() {
            for u in 0..USES.len() {
                let (_, _, _, _, field, method) = CONSTS[c];
                let body = USES[u].1;
                // uses that need a field / a method only for constants that have one
                if (body.contains('□') && field.is_empty()) || (body.contains('■') && method.is_empty()) {
                    continue;
                }
                t.push((p, c, u));
            }
        }
    }
    // a constant whose initialiser reads another constant (or a field of it)
    t
}

pub fn count(cfg: &Cfg) -> u64 {
    (table(cfg).len() + CONSTS.len() * 3) as u64
}

pub fn case(cfg: &Cfg, idx: u64) -> (Input, Value) {
    let t = table(cfg);
    if (idx as usize) < t.len() {
        let (p, c, u) = t[idx as usize];
        let (cname, decls, ty, init, field, method) = CONSTS[c];
        let body = USES[u].1.replace('□', field).replace('■', method);
        let src = POSITIONS[p].1.replace('▲', decls).replace("INIT", init).replace("BODY", &body).replace(": T", &format!(": {ty}")).replace("-> T", &format!("-> {ty}"));
        return (
            Input::Single(src),
            json!({"constant": cname, "use": USES[u].0, "position": POSITIONS[p].0}),
        );
    }
    // constants initialised from constants
    let k = idx as usize - t.len();
    let (cname, decls, ty, init, field, method) = CONSTS[k / 3];
    let second = match k % 3 {
        0 => format!("const L: {ty} = K;"),
        1 if !field.is_empty() => format!("const L: {ty} = K; fn g() {{ let v = L{field}; }}"),
        2 if !method.is_empty() => format!("fn g() {{ let v = K{method}; let w = [K{method}]; }}"),
        _ => format!("const L: {ty} = K; fn g() {{ let v = [L, K]; }}"),
    };
    let src = format!("{decls}const K: {ty} = {init};\n{second}\n");
    (Input::Single(src), json!({"constant": cname, "use": "constant-from-constant", "variant": k % 3}))
}

pub fn bounds(cfg: &Cfg) -> Value {
    json!({"constants": CONSTS.iter().map(|c| c.0).collect::<Vec<_>>(), "uses": USES.iter().map(|u| u.0).collect::<Vec<_>>(),
           "positions": POSITIONS.iter().map(|p| p.0).collect::<Vec<_>>(), "cases": count(cfg)})
}
