//! C06 — compilation is total: every input yields a package or a report.
//!
//! Enumerated (see DESIGN.md "### C06"):
//!  L1  token sequences of length <= k over the full token alphabet (3 wrappers)
//!  L4  identifier / string / f-string / char / comment texts over a 7-character
//!      alphabet in every position kind
//!  L5  module trees of <= 3 files, in memory and on disk
//!  L2t type declarations over all type expressions of depth <= 2
//!  L2  untyped expressions of depth <= 2 over every form of `ast::Expr`
//!  L3  deviation 1 (thorough: 2 on micro seeds) from valid seed programs
//!  L6  scaling: every repeatable construct repeated N times (chains, widths,
//!      nesting up to the depth bound), each under a CPU-time and memory cap
//!
//! Oracle: `FileTree::compile` returns `Ok(package)` or `Err(report)`; the
//! worker survives; the report renders with and without colour; every cited
//! location lies inside its file on character boundaries.

mod known;
mod l1;
mod l10;
mod l11;
mod l12;
mod l13;
mod l2;
mod l3;
mod l4;
mod l5;
mod l6;
mod l7;
mod l8;
mod l9;
mod oracle;
mod seeds;
mod tok;

use std::collections::{HashMap, HashSet};

use oracle::{Input, Runner};
use vcore::{Aggregate, Cfg, Check, Cx, Finding, Meta, SUB_SETUP, Value, Violation, json};

#[derive(Clone, Copy, PartialEq, Eq, Debug)]
enum Layer {
    L1,
    L4,
    L5Mem,
    L5Disk,
    L2t,
    L2,
    L3,
    L6,
    L7,
    L8,
    L9,
    L10,
    L11,
    L12,
    L13,
}

impl Layer {
    fn name(self) -> &'static str {
        match self {
            Layer::L1 => "L1-token-sequences",
            Layer::L4 => "L4-texts",
            Layer::L5Mem => "L5-module-trees-in-memory",
            Layer::L5Disk => "L5-module-trees-on-disk",
            Layer::L2t => "L2t-type-declarations",
            Layer::L2 => "L2-untyped-expressions",
            Layer::L3 => "L3-seed-deviations",
            Layer::L6 => "L6-scaling",
            Layer::L7 => "L7-self-reference-through-type-constructors",
            Layer::L8 => "L8-constants-in-every-position",
            Layer::L9 => "L9-uninhabited-values-and-constant-initialisers",
            Layer::L10 => "L10-type-expressions-of-every-arity-in-every-position",
            Layer::L11 => "L11-diagnostics-across-modules-with-multi-byte-headers",
            Layer::L12 => "L12-reference-graphs-among-constants-and-functions",
            Layer::L13 => "L13-the-same-name-twice-in-every-kind-of-name-list",
        }
    }
    fn chunk(self) -> u64 {
        match self {
            Layer::L1 => 4000,
            Layer::L4 => 2000,
            Layer::L5Mem | Layer::L5Disk => 500,
            Layer::L2t => 1000,
            Layer::L2 => 1000,
            Layer::L3 => 2000,
            Layer::L6 => 14,
            Layer::L7 => 200,
            Layer::L8 => 250,
            Layer::L9 => 100,
            Layer::L10 => 1000,
            Layer::L11 => 2000,
            Layer::L12 => 1000,
            Layer::L13 => 500,
        }
    }
}

const ORDER: [Layer; 15] =
    [Layer::L6, Layer::L9, Layer::L7, Layer::L8, Layer::L10, Layer::L11, Layer::L12, Layer::L13, Layer::L1, Layer::L4, Layer::L5Mem, Layer::L5Disk, Layer::L2t, Layer::L2, Layer::L3];

struct Plan {
    l3: l3::Table,
    counts: Vec<(Layer, u64)>,
    units: Vec<(Layer, u64, u64)>,
}

fn plan(cfg: &Cfg) -> Plan {
    let l3 = l3::Table::new(cfg);
    let mut counts = vec![];
    let mut units = vec![];
    for l in ORDER {
        let n = match l {
            Layer::L1 => l1::count(cfg),
            Layer::L4 => l4::count(cfg),
            Layer::L5Mem => l5::count_mem(cfg),
            Layer::L5Disk => l5::count_disk(cfg),
            Layer::L2t => l2::count_t(cfg),
            Layer::L2 => l2::count(cfg),
            Layer::L3 => l3.count(),
            Layer::L6 => l6::count(cfg),
            Layer::L7 => l7::count(cfg),
            Layer::L8 => l8::count(cfg),
            Layer::L9 => l9::count(cfg),
            Layer::L10 => l10::count(cfg),
            Layer::L11 => l11::count(cfg),
            Layer::L12 => l12::count(cfg),
            Layer::L13 => l13::count(cfg),
        };
        counts.push((l, n));
        let mut lo = 0;
        while lo < n {
            let hi = (lo + l.chunk()).min(n);
            units.push((l, lo, hi));
            lo = hi;
        }
    }
    Plan { l3, counts, units }
}

/// The idx-th case of a layer (`None`: duplicate by construction, not a case)
fn build(cfg: &Cfg, p: &Plan, layer: Layer, idx: u64) -> (Option<Input>, Value) {
    let some = |(i, v): (Input, Value)| (Some(i), v);
    match layer {
        Layer::L1 => some(l1::case(cfg, idx)),
        Layer::L4 => some(l4::case(cfg, idx)),
        Layer::L5Mem => some(l5::case_mem(cfg, idx)),
        Layer::L5Disk => some(l5::case_disk(cfg, idx)),
        Layer::L2t => some(l2::case_t(cfg, idx)),
        Layer::L2 => some(l2::case(cfg, idx)),
        Layer::L3 => p.l3.case(idx),
        Layer::L6 => some(l6::case(cfg, idx)),
        Layer::L7 => some(l7::case(cfg, idx)),
        Layer::L8 => some(l8::case(cfg, idx)),
        Layer::L9 => some(l9::case(cfg, idx)),
        Layer::L10 => some(l10::case(cfg, idx)),
        Layer::L11 => some(l11::case(cfg, idx)),
        Layer::L12 => some(l12::case(cfg, idx)),
        Layer::L13 => some(l13::case(cfg, idx)),
    }
}

fn case_json(layer: Layer, input: &Input, gen_info: &Value) -> Value {
    let mut c = json!({
        "layer": layer.name(),
        "generated_by": gen_info,
        "input": input.to_json(),
        "feat": known::features(&input.all_text()),
        "phase": "compile",
    });
    if let Input::Single(s) = input {
        c["src"] = json!(s);
    }
    c
}

// ------------------------------------------------------------------ fork probe

fn signal_name(sig: i32) -> String {
    match sig {
        4 => "SIGILL".into(),
        6 => "SIGABRT".into(),
        7 => "SIGBUS".into(),
        8 => "SIGFPE".into(),
        9 => "SIGKILL".into(),
        11 => "SIGSEGV".into(),
        5 => "SIGTRAP".into(),
        n => format!("SIG{n}"),
    }
}

/// Compile `input` in a forked child first. `Some(class)` if the child was
/// killed by a signal or hung (the same classes the pool's death protocol
/// uses); `None` if it returned, in which case the caller runs the case
/// in-process to judge it. Used only for inputs that may overflow the stack:
/// a worker death costs a respawn and a re-run of the unit, a fork ~1 ms.
fn fork_probe(runner: &mut Runner, input: &Input, timeout_s: f64, caps: Option<(Option<u64>, u64)>) -> Option<String> {
    unsafe {
        let pid = libc::fork();
        if pid < 0 {
            return None;
        }
        if pid == 0 {
            let rl = libc::rlimit { rlim_cur: 0, rlim_max: 0 };
            libc::setrlimit(libc::RLIMIT_CORE, &rl);
            // (address space, CPU seconds): the CPU clock of a forked child starts at 0, so
            // the verdict "hang" does not depend on how loaded the machine is
            if let Some((mem, cpu)) = caps {
                if let Some(mem) = mem {
                    let rl = libc::rlimit { rlim_cur: mem, rlim_max: mem };
                    libc::setrlimit(libc::RLIMIT_AS, &rl);
                }
                let rl = libc::rlimit { rlim_cur: cpu, rlim_max: cpu + 2 };
                libc::setrlimit(libc::RLIMIT_CPU, &rl);
            }
            let _ = runner.run(input);
            libc::_exit(0);
        }
        let start = std::time::Instant::now();
        let mut nap = 50u64;
        loop {
            let mut status: libc::c_int = 0;
            let r = libc::waitpid(pid, &mut status, libc::WNOHANG);
            if r == pid {
                if libc::WIFSIGNALED(status) {
                    if caps.is_some() && matches!(libc::WTERMSIG(status), libc::SIGXCPU | libc::SIGKILL) {
                        return Some("hang".into());
                    }
                    return Some(format!("signal:{}", signal_name(libc::WTERMSIG(status))));
                }
                if libc::WIFEXITED(status) && libc::WEXITSTATUS(status) != 0 {
                    return Some(format!("exit:{}", libc::WEXITSTATUS(status)));
                }
                return None;
            }
            if r < 0 {
                return None;
            }
            if start.elapsed().as_secs_f64() > timeout_s {
                libc::kill(pid, libc::SIGKILL);
                libc::waitpid(pid, &mut status, 0);
                return Some("hang".into());
            }
            std::thread::sleep(std::time::Duration::from_micros(nap));
            nap = (nap * 2).min(2000);
        }
    }
}

/// Compile `src` in a fresh process (`c06 --probe @file`); the violation class if it panicked or died.
fn fresh_process_probe(src: &str) -> Option<String> {
    let dir = oracle::work_root();
    let _ = std::fs::create_dir_all(&dir);
    let path = dir.join(format!("fresh-{}-{}.roto", std::process::id(), vcore::util::fnv_str(src)));
    std::fs::write(&path, src).ok()?;
    let out = std::process::Command::new(std::env::current_exe().ok()?)
        .arg("--probe")
        .arg(format!("@{}", path.display()))
        .output();
    let _ = std::fs::remove_file(&path);
    let out = out.ok()?;
    let text = String::from_utf8_lossy(&out.stdout).to_string();
    if !out.status.success() {
        return Some(format!("fresh-process:{}", out.status));
    }
    if let Some(i) = text.find("class: \"panic:") {
        let rest = &text[i + 8..];
        let class = rest.split('"').next().unwrap_or("panic:?");
        return Some(format!("fresh-process-{class}"));
    }
    if text.contains("DIED") {
        return Some("fresh-process:died".into());
    }
    None
}

// ------------------------------------------------------------------ the check

struct C06;

/// literal violations kept per listed finding and unit; further members of the
/// class are counted (`known_counted_only:<id>`)
const KEEP_PER_FINDING: u64 = 3;

impl Check for C06 {
    fn id(&self) -> &'static str {
        "C06"
    }

    fn units(&self, cfg: &Cfg) -> usize {
        plan(cfg).units.len()
    }

    fn run_unit(&self, unit: usize, cx: &mut Cx) {
        let cfg = cx.cfg.clone();
        let p = plan(&cfg);
        let (layer, lo, hi) = p.units[unit];
        if !cx.case(SUB_SETUP) {
            return;
        }
        let t_unit = std::time::Instant::now();
        let mut runner = Runner::new();
        let listed = known::listed_matchers();
        let mut per_finding: HashMap<String, u64> = HashMap::new();
        let mut seen: HashSet<u64> = HashSet::new();
        // CPU seconds (not wall clock: the verdict must not depend on the load of the machine)
        let probe_cpu_s: u64 = cfg.tier.pick(3, 6);
        let (mut states, mut execs, mut dups, mut noncases, mut probes) = (0u64, 0u64, 0u64, 0u64, 0u64);
        let (mut compiled, mut reports) = (0u64, 0u64);
        for idx in lo..hi {
            let (input, info) = build(&cfg, &p, layer, idx);
            let Some(input) = input else {
                noncases += 1;
                continue;
            };
            let h = input.hash();
            if !seen.insert(h) {
                dups += 1;
                continue;
            }
            if !cx.case(idx) {
                continue;
            }
            states += 1;
            if idx == lo {
                cx.sample(json!({"layer": layer.name(), "generated_by": info, "input": input.to_json()}));
            }
            let mut viol: Option<(String, Value, Value)> = None;
            let mut viol_fresh: Option<(String, Value)> = None;
            let mut obs = None;
            let died = match &input {
                // L6: every input is compiled in a forked copy first, under the layer's
                // CPU-time and address-space caps ("hangs" is decided there)
                // the "huge:" repeaters depend on where the allocator puts large blocks, which
                // in turn depends on what this worker did before: they are compiled in a FRESH
                // process (`c06 --probe @file`), the state every embedder starts from
                Input::Single(s) if layer == Layer::L6 && info["repeater"].as_str().is_some_and(|r| r.starts_with("huge:")) => {
                    probes += 1;
                    if let Some(class) = fresh_process_probe(s) {
                        let mut c = case_json(layer, &input, &info);
                        c["phase"] = json!("compile in a fresh process");
                        c["src"] = json!(format!("{}... ({} bytes)", &s[..s.len().min(80)], s.len()));
                        viol_fresh = Some((class, c));
                    }
                    None
                }
                Input::Single(_) if layer == Layer::L6 => {
                    probes += 1;
                    fork_probe(&mut runner, &input, l6::WALL_BACKSTOP_S, Some((Some(l6::AS_CAP), l6::cpu_cap_s(&cfg))))
                }
                // L7: every input may bind a type variable to a type containing it
                Input::Single(_) if layer == Layer::L7 || layer == Layer::L9 => {
                    probes += 1;
                    fork_probe(&mut runner, &input, l6::WALL_BACKSTOP_S, Some((None, probe_cpu_s)))
                }
                Input::Single(s) if known::may_die(s) => {
                    probes += 1;
                    fork_probe(&mut runner, &input, l6::WALL_BACKSTOP_S, Some((None, probe_cpu_s)))
                }
                _ => None,
            };
            if let Some((class, c)) = viol_fresh.take() {
                execs += 1;
                cx.outcome(vcore::util::fnv_str(&class));
                viol = Some((class, c, json!("a fresh process compiling this input panicked / died")));
            } else if let Some(class) = died {
                execs += 1;
                cx.outcome(vcore::util::fnv_str(&class));
                let c = case_json(layer, &input, &info);
                viol = Some((
                    class,
                    c,
                    json!("a forked copy of the worker was killed while compiling this input (stack overflow / abort / hang)"),
                ));
            } else {
                let o = runner.run(&input);
                execs += 1;
                cx.outcome(o.outcome);
                if o.past_parser {
                    cx.nontrivial(h);
                }
                if o.compiled {
                    compiled += 1;
                } else if o.viol.is_none() {
                    reports += 1;
                    if info["expect_compiles"] == true {
                        cx.count("seed_invalid", 1);
                        cx.note(format!("seed {} is expected to be a valid program but was rejected", info["seed"]));
                    }
                }
                obs = Some(o);
            }
            if let Some(o) = obs {
                if let Some(v) = o.viol {
                    let mut c = case_json(layer, &input, &info);
                    c["phase"] = json!(v.phase);
                    c["panic_loc"] = json!(v.panic_loc);
                    c["panic_msg"] = json!(v.panic_msg);
                    if let Some(d) = v.detail.as_object() {
                        for (k, x) in d {
                            c[k.as_str()] = x.clone();
                        }
                    }
                    viol = Some((v.class, c, v.observed));
                }
            }
            if let Some((class, c, observed)) = viol {
                cx.count(&format!("class:{class}"), 1);
                let hit = listed.iter().find(|(_, m)| known::matches_parts(m, &class, &c));
                if let Some((id, _)) = hit {
                    let n = per_finding.entry(id.clone()).or_insert(0);
                    *n += 1;
                    cx.count(&format!("known:{id}"), 1);
                    if *n > KEEP_PER_FINDING {
                        cx.count(&format!("known_counted_only:{id}"), 1);
                        continue;
                    }
                }
                cx.violation(
                    class,
                    idx,
                    c,
                    json!("Ok(package) or Err(report); the report renders with and without colour; every cited location lies inside its file on char boundaries; the process survives"),
                    observed,
                );
            }
        }
        runner.cleanup();
        cx.states(states);
        cx.transitions(execs);
        cx.validated(execs);
        cx.count("duplicates_within_unit_skipped", dups);
        cx.count("duplicates_by_construction_skipped", noncases);
        cx.count("fork_probed", probes);
        cx.count("compiled_ok", compiled);
        cx.count("error_reports_ok", reports);
        cx.count(&format!("cases:{}", layer.name()), states);
        cx.count(&format!("cpu_ms:{}", layer.name()), t_unit.elapsed().as_millis() as u64);
    }

    fn describe(&self, cfg: &Cfg, unit: usize, sub: u64) -> Value {
        let p = plan(cfg);
        let (layer, lo, hi) = p.units[unit];
        if sub == SUB_SETUP || sub < lo || sub >= hi {
            return json!({"kind": "setup", "layer": layer.name(), "unit_range": [lo, hi]});
        }
        match build(cfg, &p, layer, sub) {
            (Some(input), info) => case_json(layer, &input, &info),
            (None, info) => json!({"kind": "not-a-case", "layer": layer.name(), "generated_by": info}),
        }
    }

    fn matches(&self, f: &Finding, v: &Violation) -> bool {
        known::matches(f, v)
    }

    fn meta(&self, cfg: &Cfg) -> Meta {
        let p = plan(cfg);
        let per_layer: vcore::serde_json::Map<String, Value> =
            p.counts.iter().map(|(l, n)| (l.name().to_string(), json!(n))).collect();
        Meta {
            rule: "every enumeration index of every layer is turned into a source text / module tree and compiled once \
                   with the real pipeline (texts that repeat inside a unit of <= 4000 indices are compiled once). \
                   An input is non-trivial if it got past the parser, i.e. the type checker or a later stage ran on it \
                   (it compiled, or the report contains a type error); distinct_nontrivial counts distinct such inputs. \
                   distinct_outcomes buckets (status, error kinds, headline of the report, panic location)."
                .into(),
            assumptions: vec![
                "nesting depth is bounded by construction (no input nests deeper than the seeds plus two levels)".into(),
                "runtime = host::runtime() (the harness host library on top of the default runtime), one Runtime per unit".into(),
                "debug assertions and overflow checks are on for roto and all its dependencies".into(),
                "8 MiB main-thread stack of the worker process".into(),
            ],
            bounds: json!({
                "indices_per_layer": per_layer,
                "L1": {"alphabet": tok::ALPHABET.len(), "max_len": l1::k(cfg), "wrappers": 3},
                "L2": l2::bounds(cfg),
                "L3": p.l3.bounds_json(),
                "L4": {"alphabet": l4::TEXT.iter().map(|c| format!("U+{:04X}", *c as u32)).collect::<Vec<_>>(),
                        "max_len": l4::max_len(cfg), "position_kinds": l4::POSITIONS.len()},
                "L5": l5::bounds(cfg),
                "L6": l6::bounds(cfg),
                "L7": l7::bounds(cfg),
                "L8": l8::bounds(cfg),
                "L9": l9::bounds(cfg),
                "L10": l10::bounds(cfg),
                "L11": l11::bounds(cfg),
                "L12": l12::bounds(cfg),
                "L13": l13::bounds(cfg),
            }),
            states_are: "distinct inputs (source texts / module trees); distinct inside each unit, enumeration indices are distinct across units".into(),
            transitions_are: "runs of FileTree::compile (+ RotoReport::write twice and the location check on Err)".into(),
        }
    }

    fn case_timeout_s(&self, cfg: &Cfg) -> f64 {
        // an L6 input may use its whole CPU cap on a loaded machine
        cfg.tier.pick(60.0, 120.0)
    }

    fn preflight(&self, cfg: &Cfg) -> Result<(), String> {
        let root = oracle::work_root();
        std::fs::create_dir_all(&root).map_err(|e| format!("cannot create {}: {e}", root.display()))?;
        selftest(cfg)
    }

    fn finish(&self, _cfg: &Cfg, agg: &mut Aggregate) {
        // L3 enumerates deviations from VALID programs: if one of the harness' own seeds no
        // longer compiles, the layer does not mean what it says (machinery error, not a verdict)
        if agg.counter("seed_invalid") > 0 {
            agg.machinery_errors.push(format!(
                "{} of the harness' own seed programs (m-*, s-*) were rejected by the compiler: {:?}",
                agg.counter("seed_invalid"),
                agg.notes
            ));
        }
        // triage aid: C06_DUMP=<file> writes every literal violation as one JSON line
        if let Ok(path) = std::env::var("C06_DUMP") {
            let mut out = String::new();
            for v in &agg.violations {
                out.push_str(&json!({"class": v.class, "unit": v.unit, "sub": v.sub.to_string(), "layer": v.case["layer"],
                    "src": v.case["src"], "input": if v.case["src"].is_null() { v.case["input"].clone() } else { Value::Null },
                    "gen": v.case["generated_by"], "msg": v.case["panic_msg"], "observed": v.observed,
                    "bad_location": v.case["bad_location"], "feat": v.case["feat"]}).to_string());
                out.push('\n');
            }
            let _ = std::fs::write(path, out);
        }
        // module trees left behind by workers of this run that died
        let _ = std::fs::remove_dir_all(oracle::work_root().join(format!("run{}", std::process::id())));
    }
}

/// Lints on the harness itself (a failure is a machinery error)
fn selftest(cfg: &Cfg) -> Result<(), String> {
    let p = plan(cfg);
    // the tokenizer is total and its spans are well formed on every seed
    for s in &p.l3.seeds {
        let mut last = 0;
        for t in tok::tokens(&s.text) {
            if t.start < last || t.end <= t.start || !s.text.is_char_boundary(t.start) || !s.text.is_char_boundary(t.end) {
                return Err(format!("tokenizer: bad span in seed {}", s.name));
            }
            last = t.end;
        }
    }
    if p.l3.seeds.len() < cfg.tier.pick(30, 60) {
        return Err(format!("only {} seeds found (repository scripts missing?)", p.l3.seeds.len()));
    }
    // random access: first and last index of every layer decode
    for (l, n) in &p.counts {
        if *n == 0 {
            return Err(format!("layer {} is empty", l.name()));
        }
        let _ = build(cfg, &p, *l, 0);
        let _ = build(cfg, &p, *l, n - 1);
    }
    // the feature predicates recognise the documented examples and not their fixed variants
    let f = |s: &str, k: &str| known::features(s)[k] == true;
    let checks = [
        (f("fn f() { let é = 1; }", "nonascii_xid_start"), "é"),
        (!f("fn f() { let e = 1; }", "nonascii_xid_start"), "e"),
        (f("fn f() -> String { f\"é\" }", "nonascii_after_fstring_open"), "f\"é\""),
        (f("record A { x: A? }\nfn f(a: A) {}", "type_cycle_via_argument"), "A?"),
        (f("record A { x: List[B] }\nrecord B { y: A }", "type_cycle_via_argument"), "A-B"),
        (!f("record A { x: A }", "type_cycle_via_argument"), "direct cycle"),
        (!f("record A { x: i32? }", "type_cycle_via_argument"), "no cycle"),
        (f("fn f() { let x = []; x.push(x); }", "self_referential_use"), "push"),
        (!f("fn f() { let x = []; x.push(1); }", "self_referential_use"), "push 1"),
        (f("fn f() -> i32 { Option.None.x }", "path3"), "path3"),
        (known::may_die("fn f() { let w = []; w.push(w); }"), "may_die push"),
        (known::may_die("record A { x: A? }"), "may_die record"),
        (known::may_die("fn main() { let a = []; a = [{ x: a }]; }"), "may_die through record"),
        (known::may_die("fn f() { let a = []; let b = []; a.push({ f: b }); b.push({ f: a }); }"), "may_die two variables"),
        (known::may_die("fn f(o: i32?) { let w = []; let z = if true { w } else { { f: w } }; }"), "may_die if arms"),
        (!known::may_die("fn f() -> u64 { let x = [1]; x.push(2); x.len() }"), "may_die resolved list"),
        (f("record A { x: { f: A }? }", "type_cycle_via_argument"), "{ f: A }?"),
        (f("record A[T] { x: A[i32]? }", "type_cycle_via_argument"), "A[i32]?"),
        (known::may_die("const C: i32 = 1 / 0;"), "may_die const"),
        (!known::may_die("const K: i32 = 7;\nfn f(x: i32) -> i32 { x / 2 } // c"), "may_die const elsewhere"),
    ];
    for (ok, what) in checks {
        if !ok {
            return Err(format!("feature predicate self-test failed: {what}"));
        }
    }
    Ok(())
}

fn probe(args: &[String]) {
    vcore::util::install_quiet_panic_hook();
    let mut r = Runner::new();
    for a in args {
        let src = if let Some(p) = a.strip_prefix('@') { std::fs::read_to_string(p).unwrap() } else { a.clone() };
        let t = std::time::Instant::now();
        let input = Input::Single(src.clone());
        if let Some(c) = fork_probe(&mut r, &input, 5.0, None) {
            println!("{:?}\n  -> DIED {c}  ({:?})\n  feat {}", src, t.elapsed(), known::features(&src));
            continue;
        }
        let o = r.run(&input);
        println!("{:?}\n  -> {:?}  ({:?})", src, o, t.elapsed());
        if !o.compiled && o.viol.is_none() {
            if let Err(rep) = roto::FileTree::test_file("script.roto", &src, 0).compile(&r.rt) {
                let mut out = String::new();
                let _ = rep.write(&mut out, false);
                println!("{out}");
            }
        }
    }
}

fn main() {
    let args: Vec<String> = std::env::args().collect();
    match args.get(1).map(|s| s.as_str()) {
        Some("--probe") => return probe(&args[2..]),
        Some("--seeds") => {
            vcore::util::install_quiet_panic_hook();
            let mut r = Runner::new();
            for s in seeds::all() {
                let o = r.run(&Input::Single(s.text.clone()));
                println!("{:40} {:5} bytes compiled={} past_parser={} viol={:?}", s.name, s.text.len(), o.compiled, o.past_parser, o.viol.map(|v| v.class));
            }
            return;
        }
        Some("--counts") => {
            for tier in [vcore::Tier::Quick, vcore::Tier::Thorough] {
                let cfg = Cfg { tier, seed: 0 };
                let p = plan(&cfg);
                println!("{}: units={} {:?}", tier.name(), p.units.len(), p.counts);
            }
            return;
        }
        _ => {}
    }
    vcore::main(&C06)
}
