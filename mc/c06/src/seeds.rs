//! Seed programs of layer L3: the repository's own scripts plus snippets that
//! are valid under `host::runtime()` and cover the constructs the repository
//! scripts do not (records, enums, match, generics, lists, f-strings, ...).

use std::path::{Path, PathBuf};

#[derive(Clone, Debug)]
pub struct Seed {
    pub name: String,
    pub text: String,
}

/// Micro seeds: each at most 64 bytes; deviation 2 is enumerated on these.
pub const MICRO: [(&str, &str); 14] = [
    ("m-fn", "fn f(x: i32) -> i32 { x + 1 }"),
    ("m-fstr", "fn f(x: i32) -> String { f\"a{x}b\" + \"é\" }"),
    ("m-str", "fn f() -> String { \"a\\n\" + 'c'.to_string() }"),
    ("m-rec", "record A { x: i32? }\nfn f(a: A) -> i32? { a.x }"),
    ("m-enum", "enum E[T] { A, B(T) }\nfn f() -> E[u8] { E.B(1) }"),
    ("m-match", "fn f(o: u8?) -> u8 { match o { Some(x) => x, None => 0 } }"),
    ("m-list", "fn f() -> u64 { let x = [1]; x.push(2); x.len() }"),
    ("m-fm", "filtermap m(x: u8) { if x == 1 { accept } reject }"),
    ("m-const", "const C: u8 = 1;\ntest t { if C != 1 { reject } accept }"),
    ("m-loop", "fn f(l: List[u8]) { for i in l { while false { } } }"),
    ("m-ip", "fn f() -> bool { 1.1.1.1 == ::1 || AS1 == AS2 }"),
    ("m-cmt", "// é\nfn f() -> f32 { -1.5e1f32 } // x"),
    ("m-q", "fn f(o: u8?) -> u8? { let y = o?; Option.Some(y) }"),
    ("m-anon", "fn f() -> i32 { let r = { a: 1, b: () }; r.a }"),
];

/// Larger hand-written seeds (valid under the harness runtime).
pub const SNIPPETS: [(&str, &str); 10] = [
    (
        "s-records",
        "record P { x: i32, y: i32 }\nrecord L { a: P, b: P, name: String }\n\nfn mid(l: L) -> P {\n    P { x: (l.a.x + l.b.x) / 2, y: (l.a.y + l.b.y) / 2 }\n}\n\nfn main(v: i32) -> i32 {\n    let l = L { a: P { x: 0, y: v }, b: P { x: v, y: 0 }, name: \"d\" };\n    let m = mid(l);\n    m.x + m.y\n}\n",
    ),
    (
        "s-enums",
        "enum Shape { Dot, Circle(u32), Rect(u32, u32) }\n\nfn area(s: Shape) -> u32 {\n    match s {\n        Dot => 0,\n        Circle(r) => 3 * r * r,\n        Rect(w, h) if w == h => w * w,\n        Rect(w, h) => { w * h }\n    }\n}\n\nfn main() -> u32 {\n    area(Shape.Dot) + area(Shape.Circle(2)) + area(Shape.Rect(2, 3))\n}\n",
    ),
    (
        "s-generics",
        "enum Tree[T] { Leaf(T), Two(T, T) }\nrecord Box[T] { v: T, n: u8 }\n\nfn first(t: Tree[i64]) -> i64 {\n    match t {\n        Leaf(a) => a,\n        Two(a, b) => a - b,\n    }\n}\n\nfn main() -> i64 {\n    let b = Box { v: Tree.Two(5, 2), n: 1 };\n    first(b.v)\n}\n",
    ),
    (
        "s-lists",
        "fn sum(l: List[u32]) -> u32 {\n    let t = 0;\n    for x in l {\n        t += x;\n    }\n    t\n}\n\nfn main() -> u32 {\n    let l = [1, 2, 3] + [4];\n    l.push(5);\n    let e: List[List[u32]] = [[], l];\n    if l.contains(3) && !l.is_empty() {\n        sum(l) + 1\n    } else {\n        0\n    }\n}\n",
    ),
    (
        "s-fstrings",
        "fn show(n: i32, s: String) -> String {\n    f\"n={n} s={s} {{literal}} {f\"in{n + 1}\"} \\n \\u{41}\"\n}\n\nfn main() -> String {\n    show(1, \"x\\ty é漢\") + f\"{true}\" + 'c'.to_string() + '\\''.to_string()\n}\n",
    ),
    (
        "s-options",
        "fn get(o: u8?) -> u8 {\n    match o {\n        Some(x) => x,\n        None => 0,\n    }\n}\n\nfn chain(a: u8?, b: u8?) -> u8? {\n    let x = a?;\n    let y = b?;\n    Option.Some(x + y)\n}\n\nfn main() -> u8 {\n    get(chain(Option.Some(1), Option.None))\n}\n",
    ),
    (
        "s-verdicts",
        "filtermap fm(x: i32, p: IpAddr) {\n    if x < 0 || p == 10.0.0.1 {\n        reject \"neg\"\n    }\n    let pre = p / 24;\n    if x >= 100 && !(x == 200) {\n        accept x % 7\n    }\n    accept -x * 2\n}\n\nfilter fl(a: Asn) {\n    if a == AS64512 { reject } else { accept }\n}\n",
    ),
    (
        "s-consts-tests",
        "const LIMIT: u16 = 0x1f;\nconst NAME: String = \"roto\";\nconst F: f64 = 1_0.5e-1;\n\nfn over(x: u16) -> bool {\n    x > LIMIT\n}\n\ntest limit_holds {\n    if over(3) {\n        reject\n    }\n    let n = NAME;\n    if n != \"roto\" { reject }\n    accept\n}\n",
    ),
    (
        "s-control",
        "fn collatz(n: u64) -> u64 {\n    let steps = 0;\n    let x = n;\n    while x != 1 {\n        if x % 2 == 0 { x /= 2; } else { x = 3 * x + 1; }\n        steps += 1;\n    }\n    steps\n}\n\nfn sign(x: i8) -> i8 {\n    if x > 0 { 1 } else if x < 0 { -1 } else { 0 }\n}\n\nfn unit() { () }\n\nfn never(x: i8) -> i8 {\n    return sign(x);\n}\n",
    ),
    (
        "s-host",
        "#!/usr/bin/roto\n// uses the host library of the harness\nfn main(k: u64) -> u32 {\n    let t = mk(k);\n    let u = t;\n    emit_tr(t);\n    emit_str(f\"{val(u)}\");\n    let r = { a: mkz(), b: mkk(3), c: 'x' };\n    eatz(r.a);\n    e(1);\n    kval(r.b) + 0\n}\n",
    ),
];

fn walk(dir: &Path, out: &mut Vec<PathBuf>) {
    let Ok(rd) = std::fs::read_dir(dir) else { return };
    for e in rd.flatten() {
        let p = e.path();
        if p.is_dir() {
            walk(&p, out);
        } else if p.extension().is_some_and(|x| x == "roto") {
            out.push(p);
        }
    }
}

/// The repository the harness is built against
pub fn repo_root() -> PathBuf {
    PathBuf::from(std::env::var("VERIF_REPO").unwrap_or_else(|_| "/repo".into()))
}

/// All seeds, in a fixed order: micro seeds, snippets, repository scripts (by path).
pub fn all() -> Vec<Seed> {
    let mut v: Vec<Seed> = vec![];
    for (n, t) in MICRO {
        v.push(Seed { name: n.into(), text: t.into() });
    }
    for (n, t) in SNIPPETS {
        v.push(Seed { name: n.into(), text: t.into() });
    }
    let root = repo_root();
    let mut paths = vec![];
    walk(&root.join("examples"), &mut paths);
    walk(&root.join("tests").join("scripts"), &mut paths);
    paths.sort();
    for p in paths {
        if let Ok(t) = std::fs::read_to_string(&p) {
            let name = p.strip_prefix(&root).unwrap_or(&p).to_string_lossy().into_owned();
            v.push(Seed { name, text: t });
        }
    }
    v
}
