//! L7 — self-referential uses of an untyped binding through EVERY type
//! constructor that can wrap the reference.
//!
//! `let w = INIT;` leaves (part of) the type of `w` a type variable. A *sink*
//! then forces that variable to unify with a type built from `w` itself:
//! `w.push(□)`, `w = □`, `w == □`, both arms of an `if`/`match`, ... and the
//! hole is `w` wrapped by a chain of <= 1 (quick) / <= 2 (thorough)
//! *wrappers*: anonymous record literal, nested record, list literal,
//! `Option.Some`, a declared generic enum / record constructor. The occurs
//! check has one arm per kind of type; a cycle that passes through a kind
//! whose arm is wrong is accepted and the next deep walk of the type
//! overflows the stack. Two-variable cycles (`a` into `b`, `b` into `a`) are
//! enumerated as well. Every input of this layer is compiled in a forked copy
//! of the worker first.

use crate::oracle::Input;
use vcore::{Cfg, Tier, Value, json};

const PRELUDE: &str = "enum G[X] { N, S(X) }\nrecord B[T] { v: T, n: u8 }\n";

/// (name, text before the body, text after it)
const POSITIONS: [(&str, &str, &str); 2] =
    [("fn", "fn main(o: i32?) { ", " }"), ("filtermap", "filtermap main(o: i32?) { ", " accept }")];

/// What `w` is bound to: each leaves a type variable open
const INITS: [&str; 4] = ["[]", "None", "[[]]", "G.N"];

/// Type constructors around the reference `§`
const WRAPPERS: [&str; 15] = [
    "§",
    "{ f: § }",
    "{ f: { g: § } }",
    "[§]",
    "[{ f: § }]",
    "{ f: [§] }",
    "Option.Some(§)",
    "Option.Some({ f: § })",
    "{ f: Option.Some(§) }",
    "G.S(§)",
    "G.S({ f: § })",
    "B { v: §, n: 1 }",
    "B { v: { f: § }, n: 1 }",
    "{ f: §, g: § }",
    "{ f: 1, g: § }",
];

/// Sinks: statements that unify (part of) the type of `w` with the type of
/// the hole `□`; `§` in the hole's wrapper is replaced by the variable named
/// after the sink (`w`, or the loop / pattern variable that has `w`'s element type).
const SINKS: [(&str, &str); 20] = [
    ("w.push(□);", "w"),
    ("w = □;", "w"),
    ("w = [□];", "w"),
    ("w.concat([□]);", "w"),
    ("w.concat(□);", "w"),
    ("w == □;", "w"),
    ("w != [□];", "w"),
    ("w + □;", "w"),
    ("w + [□];", "w"),
    ("let z = [w, □];", "w"),
    ("let z = [[w], [□]];", "w"),
    ("w = if true { w } else { □ };", "w"),
    ("let z = if true { □ } else { w };", "w"),
    ("let z = match o { Some(q) => w, None => □ };", "w"),
    ("w.contains(□);", "w"),
    ("w.push(□); w.push(□);", "w"),
    ("for i in w { w.push(□); }", "i"),
    ("for i in w { i = □; }", "w"),
    ("match w { Some(q) => { w = □; } None => {} }", "q"),
    ("let z = { f: w }; z = { f: □ };", "w"),
];

/// Two-variable sinks: `$` is the variable written to, `□` the wrapped other variable
const SINKS2: [&str; 4] = ["$.push(□);", "$ = [□];", "$ == □;", "$ = □;"];

fn n_wrap(cfg: &Cfg) -> u64 {
    let w = WRAPPERS.len() as u64;
    match cfg.tier {
        Tier::Quick => w,
        Tier::Thorough => w + w * w,
    }
}

/// the i-th wrapper chain applied to variable `v`
fn wrapped(i: u64, v: &str) -> String {
    let w = WRAPPERS.len() as u64;
    if i < w {
        return WRAPPERS[i as usize].replace('§', v);
    }
    let i = i - w;
    let inner = WRAPPERS[(i % w) as usize].replace('§', v);
    WRAPPERS[(i / w) as usize].replace('§', &inner)
}

fn n_single(cfg: &Cfg) -> u64 {
    (INITS.len() * SINKS.len() * POSITIONS.len()) as u64 * n_wrap(cfg)
}

fn n_double(cfg: &Cfg) -> u64 {
    let s2 = (SINKS2.len() * SINKS2.len()) as u64;
    let w = WRAPPERS.len() as u64;
    match cfg.tier {
        // the same wrapper in both directions
        Tier::Quick => w * s2,
        // every pair of wrappers
        Tier::Thorough => w * w * s2,
    }
}

pub fn count(cfg: &Cfg) -> u64 {
    n_single(cfg) + n_double(cfg)
}

pub fn bounds(cfg: &Cfg) -> Value {
    json!({"inits": INITS, "wrappers": WRAPPERS.len(), "wrapper_chains": n_wrap(cfg), "sinks": SINKS.len(),
           "positions": POSITIONS.len(), "single_variable_cases": n_single(cfg),
           "two_variable_sinks": SINKS2.len(), "two_variable_cases": n_double(cfg)})
}

/// order: single-variable cases (wrapper chain slowest, so the simplest
/// wrappers come first), then two-variable cycles
pub fn case(cfg: &Cfg, idx: u64) -> (Input, Value) {
    if idx < n_single(cfg) {
        let d = vcore::util::decode(
            idx,
            &[n_wrap(cfg), SINKS.len() as u64, INITS.len() as u64, POSITIONS.len() as u64],
        );
        let (sink, var) = SINKS[d[1] as usize];
        let hole = wrapped(d[0], var);
        let init = INITS[d[2] as usize];
        let (pn, pre, post) = POSITIONS[d[3] as usize];
        let body = format!("let w = {init}; {}", sink.replace('□', &hole));
        let src = format!("{PRELUDE}{pre}{body}{post}\n");
        return (
            Input::Single(src),
            json!({"kind": "single-variable", "init": init, "sink": sink, "wrapped_reference": hole, "position": pn}),
        );
    }
    let idx = idx - n_single(cfg);
    let w = WRAPPERS.len() as u64;
    let s = SINKS2.len() as u64;
    let (w1, w2, s1, s2) = match cfg.tier {
        Tier::Quick => {
            let d = vcore::util::decode(idx, &[w, s, s]);
            (d[0], d[0], d[1], d[2])
        }
        Tier::Thorough => {
            let d = vcore::util::decode(idx, &[w, w, s, s]);
            (d[0], d[1], d[2], d[3])
        }
    };
    let st1 = SINKS2[s1 as usize].replace('$', "a").replace('□', &wrapped(w1, "b"));
    let st2 = SINKS2[s2 as usize].replace('$', "b").replace('□', &wrapped(w2, "a"));
    let body = format!("let a = []; let b = []; {st1} {st2}");
    let (_, pre, post) = POSITIONS[0];
    let src = format!("{PRELUDE}{pre}{body}{post}\n");
    (Input::Single(src), json!({"kind": "two-variable", "first": st1, "second": st2}))
}
