//! L4 — every identifier / string / f-string text / char literal / comment /
//! number suffix over TEXT up to length 3 (thorough: 4), in every position kind.

use crate::oracle::Input;
use vcore::{Cfg, Value, json};

pub const TEXT: [char; 7] = ['a', '_', '1', 'é', '漢', '𝄞', '\u{301}'];

/// (kind, program with `□` where the text goes)
pub const POSITIONS: [(&str, &str); 58] = [
    // literals that end exactly at the end of the file
    ("eof:string", "const C: String = \"□\""),
    ("eof:char", "const C: char = '□'"),
    ("eof:fstring", "const C: String = f\"□\""),
    ("eof:fstring-in-fn", "fn f() -> String { f\"□{1}□\""),
    // positions whose text is cited by a type error close to the end of the file
    ("cited:string-literal", "fn f() -> i32 { \"□\" }"),
    ("cited:char-literal", "fn f() -> i32 { '□' }"),
    ("cited:field-name", "fn f(r: { a: i32 }) -> i32 { r.a□ }"),
    ("cited:undefined-call", "fn f() { a□() }"),
    ("cited:record-literal", "fn f() -> i32 { { a□: 1 } }"),
    // identifiers
    ("ident:let-binding", "fn f() { let □ = 1; }"),
    ("ident:use", "fn f() -> i32 { □ }"),
    ("ident:fn-name", "fn □() {}"),
    ("ident:param-name", "fn f(□: i32) {}"),
    ("ident:type-annotation", "fn f(x: □) {}"),
    ("ident:return-type", "fn f() -> □ { 1 }"),
    ("ident:type-argument", "fn f(x: List[□]) {}"),
    ("ident:record-decl-name", "record □ { x: i32 }"),
    ("ident:record-decl-field", "record R { □: i32 }"),
    ("ident:type-param", "record R[□] { x: i32 }"),
    ("ident:record-literal-field", "fn f() { let r = { □: 1 }; }"),
    ("ident:typed-record-name", "fn f() { let r = □ { x: 1 }; }"),
    ("ident:field-access", "fn f(r: { a: i32 }) -> i32 { r.□ }"),
    ("ident:method-name", "fn f(l: List[i32]) { l.□(); }"),
    ("ident:call-name", "fn f() { □(1); }"),
    ("ident:enum-decl-name", "enum □ { A }"),
    ("ident:enum-variant", "enum E { □ }"),
    ("ident:enum-variant-with-field", "enum E { □(i32), B }"),
    ("ident:match-pattern", "fn f(o: i32?) -> i32 { match o { □ => 1, _ => 2 } }"),
    ("ident:match-binder", "fn f(o: i32?) -> i32 { match o { Some(□) => 1, None => 2 } }"),
    ("ident:import-first", "import □.x;"),
    ("ident:import-last", "import pkg.□;"),
    ("ident:path-middle", "fn f() { std.□.x; }"),
    ("ident:test-name", "test □ { accept }"),
    ("ident:const-name", "const □: i32 = 1;"),
    ("ident:filtermap-name", "filtermap □() { accept }"),
    ("ident:for-variable", "fn f(l: List[i32]) { for □ in l { } }"),
    ("ident:assign-target", "fn f(x: i32) { □ = 1; }"),
    ("ident:almost-keyword-then", "struct □ { }"),
    // literals
    ("number-suffix", "fn f() { 1□; }"),
    ("float-suffix", "fn f() { 1.5□; }"),
    ("hex-digits", "fn f() { 0x□; }"),
    ("string", "fn f() -> String { \"□\" }"),
    ("string:escaped", "fn f() -> String { \"\\□\" }"),
    ("char", "fn f() -> char { '□' }"),
    ("fstring:only-text", "fn f() -> String { f\"□\" }"),
    ("fstring:text-before-expr", "fn f() -> String { f\"□{1}\" }"),
    ("fstring:text-after-expr", "fn f() -> String { f\"{1}□\" }"),
    ("fstring:both", "fn f() -> String { f\"□{1}□\" }"),
    ("fstring:unterminated", "fn f() -> String { f\"□"),
    // escape sequences (valid and invalid) followed by arbitrary text: the
    // location of an escape error must stay on character boundaries
    ("fstring:escaped", "fn f() -> String { f\"\\□\" }"),
    ("fstring:escaped-before-expr", "fn f() -> String { f\"x\\□{1}\" }"),
    ("fstring:escaped-after-expr", "fn f() -> String { f\"{1}é\\□\" }"),
    ("char:escaped", "fn f() -> char { '\\□' }"),
    ("string:escaped-after-multibyte", "fn f() -> String { \"é\\□\" }"),
    // comments
    ("comment:line", "// □\nfn f() {}"),
    ("comment:at-eof", "fn f() {} //□"),
    ("comment:inside", "fn f() { //□\n }"),
    ("shebang", "#!□\nfn f() {}"),
];

pub fn max_len(cfg: &Cfg) -> u32 {
    cfg.tier.pick(3, 4)
}

fn n_texts(cfg: &Cfg) -> u64 {
    (0..=max_len(cfg)).map(|n| (TEXT.len() as u64).pow(n)).sum()
}

fn text(cfg: &Cfg, mut i: u64) -> String {
    for n in 0..=max_len(cfg) {
        let c = (TEXT.len() as u64).pow(n);
        if i < c {
            return vcore::util::decode(i, &vec![TEXT.len() as u64; n as usize]).iter().map(|d| TEXT[*d as usize]).collect();
        }
        i -= c;
    }
    unreachable!()
}

pub fn count(cfg: &Cfg) -> u64 {
    n_texts(cfg) * POSITIONS.len() as u64
}

/// order: text (shortest first), then position kind
pub fn case(cfg: &Cfg, idx: u64) -> (Input, Value) {
    let p = (idx % POSITIONS.len() as u64) as usize;
    let t = text(cfg, idx / POSITIONS.len() as u64);
    let (kind, tpl) = POSITIONS[p];
    let src = tpl.replace('□', &t);
    (
        Input::Single(src),
        json!({"position_kind": kind, "text": t,
               "codepoints": t.chars().map(|c| format!("U+{:04X}", c as u32)).collect::<Vec<_>>()}),
    )
}
