//! L1 — all token sequences of length <= k over the full token alphabet, bare
//! and as the body of `fn f() { .. }` / `fn f() -> i32 { .. }`.

use crate::oracle::Input;
use crate::tok::ALPHABET;
use vcore::{Cfg, Value, json};

const WRAPPERS: [(&str, &str, &str); 3] =
    [("bare", "", ""), ("fn-body", "fn f() { ", " }"), ("fn-i32-body", "fn f() -> i32 { ", " }")];

pub fn k(cfg: &Cfg) -> u32 {
    cfg.tier.pick(2, 3)
}

fn seqs_of_len(n: u32) -> u64 {
    (ALPHABET.len() as u64).pow(n)
}

pub fn count(cfg: &Cfg) -> u64 {
    (0..=k(cfg)).map(|n| seqs_of_len(n) * WRAPPERS.len() as u64).sum()
}

/// order: length, then sequence (last token varies fastest), then wrapper
pub fn case(cfg: &Cfg, mut idx: u64) -> (Input, Value) {
    let w = WRAPPERS.len() as u64;
    for n in 0..=k(cfg) {
        let block = seqs_of_len(n) * w;
        if idx < block {
            let wi = (idx % w) as usize;
            let digits = vcore::util::decode(idx / w, &vec![ALPHABET.len() as u64; n as usize]);
            let toks: Vec<&str> = digits.iter().map(|d| ALPHABET[*d as usize]).collect();
            let (wn, pre, post) = WRAPPERS[wi];
            let src = format!("{pre}{}{post}", toks.join(" "));
            return (Input::Single(src), json!({"tokens": toks, "wrapper": wn}));
        }
        idx -= block;
    }
    unreachable!("L1 index out of range")
}
