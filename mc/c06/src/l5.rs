//! L5 — module trees of <= 3 files, in memory (`FileSpec`) and on disk
//! (`FileTree::read`), every file independently one of CONTENT_KINDS,
//! including duplicate module names, odd module names, `name.roto` next to
//! `name/mod.roto`, missing `pkg.roto`, ignored files.

use crate::oracle::{Input, MemNode};
use vcore::{Cfg, Value, json};

pub const CONTENT_KINDS: [&str; 9] = [
    "valid",
    "valid-referring-to-other-modules",
    "parse-error",
    "type-error",
    "empty",
    "non-ascii-valid",
    "non-ascii-parse-error",
    "name-conflict-with-modules",
    "invalid-utf8 (disk only)",
];
const MEM_KINDS: u64 = 8;
const DISK_KINDS: u64 = 9;

/// contents of a file of kind `k`; `root` = it is the package root
fn contents(k: u64, root: bool) -> Vec<u8> {
    let s: &str = match (k, root) {
        (0, _) => "fn v() -> i32 { 1 }\nfn k() -> i32 { 2 }\n",
        (1, true) => "import a.v;\nfn k() -> i32 { 2 }\nfn main() -> i32 { v() + a.k() }\n",
        (1, false) => "fn v() -> i32 { super.k() }\nfn k() -> i32 { pkg.k() }\n",
        (2, _) => "fn v() -> i32 { 1 + }\n",
        (3, true) => "fn v() -> i32 { true }\n",
        (3, false) => "fn v() -> bool { super.k() }\nfn k() -> i32 { 2 }\n",
        (4, _) => "",
        (5, _) => "\u{a0}// é漢\nfn v() -> String { \"é𝄞\" }\nfn k() -> i32 { 2 }\n",
        (6, _) => "fn v() { 1 € 2 }\n",
        (7, _) => "fn a() {}\nfn b() {}\nfn v() -> i32 { 1 }\nfn k() -> i32 { 2 }\n",
        (8, _) => return vec![b'f', b'n', b' ', 0xff, 0xfe, b'(', b')', b' ', b'{', b'}'],
        _ => unreachable!(),
    };
    s.as_bytes().to_vec()
}

/// In-memory shapes: (name, nodes) where a node is (file name, module name,
/// is directory, parent index or usize::MAX, location offset). Node 0 is the root.
type MemShape = (&'static str, &'static [(&'static str, &'static str, bool, usize, usize)]);
const NOPARENT: usize = usize::MAX;
const MEM_SHAPES: [MemShape; 21] = [
    ("root-file", &[("pkg.roto", "pkg", false, NOPARENT, 0)]),
    ("root-file-module-named-main", &[("main.roto", "main", false, NOPARENT, 0)]),
    ("root-dir-no-children", &[("pkg.roto", "pkg", true, NOPARENT, 0)]),
    ("root-file-location-offset", &[("x.rs", "pkg", false, NOPARENT, 5)]),
    ("root+a", &[("pkg.roto", "pkg", true, NOPARENT, 0), ("a.roto", "a", false, 0, 0)]),
    ("root+dir-a", &[("pkg.roto", "pkg", true, NOPARENT, 0), ("a/mod.roto", "a", true, 0, 0)]),
    ("root+child-named-pkg", &[("pkg.roto", "pkg", true, NOPARENT, 0), ("x.roto", "pkg", false, 0, 0)]),
    ("root+child-named-é", &[("pkg.roto", "pkg", true, NOPARENT, 0), ("é.roto", "é", false, 0, 0)]),
    ("root+child-with-empty-name", &[("pkg.roto", "pkg", true, NOPARENT, 0), (".roto", "", false, 0, 0)]),
    ("root+child-named-super", &[("pkg.roto", "pkg", true, NOPARENT, 0), ("super.roto", "super", false, 0, 0)]),
    ("root+a-location-offset", &[("pkg.roto", "pkg", true, NOPARENT, 0), ("a.rs", "a", false, 0, 3)]),
    ("root+a+b", &[("pkg.roto", "pkg", true, NOPARENT, 0), ("a.roto", "a", false, 0, 0), ("b.roto", "b", false, 0, 0)]),
    ("root+a+a", &[("pkg.roto", "pkg", true, NOPARENT, 0), ("a.roto", "a", false, 0, 0), ("a2.roto", "a", false, 0, 0)]),
    (
        "root+a-file+a-dir",
        &[("pkg.roto", "pkg", true, NOPARENT, 0), ("a.roto", "a", false, 0, 0), ("a/mod.roto", "a", true, 0, 0)],
    ),
    (
        "root+dir-a+a/b",
        &[("pkg.roto", "pkg", true, NOPARENT, 0), ("a/mod.roto", "a", true, 0, 0), ("a/b.roto", "b", false, 1, 0)],
    ),
    (
        "root+dir-a+a/a",
        &[("pkg.roto", "pkg", true, NOPARENT, 0), ("a/mod.roto", "a", true, 0, 0), ("a/a.roto", "a", false, 1, 0)],
    ),
    (
        "root+a+child-named-pkg",
        &[("pkg.roto", "pkg", true, NOPARENT, 0), ("a.roto", "a", false, 0, 0), ("x.roto", "pkg", false, 0, 0)],
    ),
    (
        "root+file-a-with-child (File cannot have children: child attached via Directory)",
        &[("pkg.roto", "pkg", true, NOPARENT, 0), ("a.roto", "a", true, 0, 0), ("a/v.roto", "v", false, 1, 0)],
    ),
    (
        "root+module-named-a.b+dir-a+a/b (two modules whose items get the same dotted name)",
        &[
            ("pkg.roto", "pkg", true, NOPARENT, 0),
            ("a.b.roto", "a.b", false, 0, 0),
            ("a/mod.roto", "a", true, 0, 0),
            ("a/b.roto", "b", false, 2, 0),
        ],
    ),
    ("root+module-named-pkg.a+a", &[("pkg.roto", "pkg", true, NOPARENT, 0), ("x.roto", "pkg.a", false, 0, 0), ("a.roto", "a", false, 0, 0)]),
    (
        "root+a+k (module named like a function)",
        &[("pkg.roto", "pkg", true, NOPARENT, 0), ("a.roto", "a", false, 0, 0), ("k.roto", "k", false, 0, 0)],
    ),
];

/// On-disk shapes: (name, paths of the files whose contents vary, fixed extra
/// entries (path, contents; a path ending in '/' is a directory), entry
/// handed to `FileTree::read` relative to the directory ("" = the directory)).
type DiskShape = (&'static str, &'static [&'static str], &'static [(&'static str, &'static str)], &'static str);
const DISK_SHAPES: [DiskShape; 28] = [
    ("dir{pkg}", &["pkg.roto"], &[], ""),
    ("single-file pkg.roto", &["pkg.roto"], &[], "pkg.roto"),
    ("single-file main.roto", &["main.roto"], &[], "main.roto"),
    ("dir without pkg.roto", &["a.roto"], &[], ""),
    ("missing path", &["pkg.roto"], &[], "missing.roto"),
    ("dir{pkg,a}", &["pkg.roto", "a.roto"], &[], ""),
    ("dir{pkg,a/mod}", &["pkg.roto", "a/mod.roto"], &[], ""),
    ("dir{pkg} + empty dir a/", &["pkg.roto"], &[("a/", "")], ""),
    ("dir{pkg,mod.roto at root}", &["pkg.roto", "mod.roto"], &[], ""),
    ("dir{pkg,é}", &["pkg.roto", "é.roto"], &[], ""),
    ("dir{pkg,a.txt}", &["pkg.roto", "a.txt"], &[], ""),
    ("dir{pkg,1a}", &["pkg.roto", "1a.roto"], &[], ""),
    ("dir{pkg,super}", &["pkg.roto", "super.roto"], &[], ""),
    ("dir{pkg,a-b}", &["pkg.roto", "a-b.roto"], &[], ""),
    ("dir{pkg,a,b}", &["pkg.roto", "a.roto", "b.roto"], &[], ""),
    ("dir{pkg,a,a/mod}", &["pkg.roto", "a.roto", "a/mod.roto"], &[], ""),
    ("dir{pkg,a/mod,a/b}", &["pkg.roto", "a/mod.roto", "a/b.roto"], &[], ""),
    ("dir{pkg,a/mod,a/a}", &["pkg.roto", "a/mod.roto", "a/a.roto"], &[], ""),
    ("dir{pkg,a/mod,a/pkg}", &["pkg.roto", "a/mod.roto", "a/pkg.roto"], &[], ""),
    ("dir{pkg,a/b} (a/ has no mod.roto)", &["pkg.roto", "a/b.roto"], &[], ""),
    ("dir{pkg,a,k}", &["pkg.roto", "a.roto", "k.roto"], &[], ""),
    ("dir{pkg,a.b/mod,a/mod(empty),a/b}", &["pkg.roto", "a.b/mod.roto", "a/b.roto"], &[("a/mod.roto", "")], ""),
    ("dir{pkg,a.b.roto,a/mod(empty),a/b}", &["pkg.roto", "a.b.roto", "a/b.roto"], &[("a/mod.roto", "")], ""),
    ("dir{pkg,a.b}", &["pkg.roto", "a.b.roto"], &[], ""),
    ("dir{pkg,a b}", &["pkg.roto", "a b.roto"], &[], ""),
    ("dir{pkg,pkg.a.roto,a}", &["pkg.roto", "pkg.a.roto", "a.roto"], &[], ""),
    ("dir{pkg,fn.roto}", &["pkg.roto", "fn.roto"], &[], ""),
    ("dir{pkg,a/mod,a/b/mod}", &["pkg.roto", "a/mod.roto", "a/b/mod.roto"], &[], ""),
];

fn mem_prefix() -> Vec<u64> {
    let mut p = vec![0];
    for (_, nodes) in MEM_SHAPES {
        p.push(p.last().unwrap() + MEM_KINDS.pow(nodes.len() as u32));
    }
    p
}
fn disk_prefix() -> Vec<u64> {
    let mut p = vec![0];
    for (_, vary, _, _) in DISK_SHAPES {
        p.push(p.last().unwrap() + DISK_KINDS.pow(vary.len() as u32));
    }
    p
}

pub fn count_mem(_cfg: &Cfg) -> u64 {
    *mem_prefix().last().unwrap()
}
pub fn count_disk(_cfg: &Cfg) -> u64 {
    *disk_prefix().last().unwrap()
}
pub fn bounds(cfg: &Cfg) -> Value {
    json!({"content_kinds": CONTENT_KINDS, "memory_shapes": MEM_SHAPES.len(), "disk_shapes": DISK_SHAPES.len(),
           "memory_cases": count_mem(cfg), "disk_cases": count_disk(cfg), "max_files": 4})
}

pub fn case_mem(_cfg: &Cfg, idx: u64) -> (Input, Value) {
    let pre = mem_prefix();
    let si = pre.partition_point(|p| *p <= idx) - 1;
    let (name, nodes) = MEM_SHAPES[si];
    let kinds = vcore::util::decode(idx - pre[si], &vec![MEM_KINDS; nodes.len()]);
    fn build(nodes: &[(&str, &str, bool, usize, usize)], kinds: &[u64], i: usize) -> MemNode {
        let (fname, module, dir, _, off) = nodes[i];
        MemNode {
            name: fname.into(),
            module: module.into(),
            contents: String::from_utf8(contents(kinds[i], i == 0)).unwrap(),
            offset: off,
            dir,
            children: (0..nodes.len()).filter(|j| nodes[*j].3 == i).map(|j| build(nodes, kinds, j)).collect(),
        }
    }
    let root = build(nodes, &kinds, 0);
    (
        Input::Mem(root),
        json!({"shape": name, "kinds": kinds.iter().map(|k| CONTENT_KINDS[*k as usize]).collect::<Vec<_>>()}),
    )
}

pub fn case_disk(_cfg: &Cfg, idx: u64) -> (Input, Value) {
    let pre = disk_prefix();
    let si = pre.partition_point(|p| *p <= idx) - 1;
    let (name, vary, fixed, entry) = DISK_SHAPES[si];
    let kinds = vcore::util::decode(idx - pre[si], &vec![DISK_KINDS; vary.len()]);
    let mut files: Vec<(String, Vec<u8>)> =
        vary.iter().zip(&kinds).map(|(p, k)| (p.to_string(), contents(*k, *p == "pkg.roto" || *p == entry))).collect();
    for (p, c) in fixed {
        files.push((p.to_string(), c.as_bytes().to_vec()));
    }
    (
        Input::Disk { files, entry: entry.to_string() },
        json!({"shape": name, "kinds": kinds.iter().map(|k| CONTENT_KINDS[*k as usize]).collect::<Vec<_>>()}),
    )
}
