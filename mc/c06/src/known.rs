//! Syntactic features of an input and the known-finding matchers built on them.
//!
//! A matcher holds only if BOTH the failure signature (panic location and
//! message class, or the signal) AND a syntactic predicate on the failing
//! input hold, so that a different failure of the same input, or the same
//! failure on an input outside the predicate, is still reported.

use crate::tok::{self, Kind};
use unicode_ident::{is_xid_continue, is_xid_start};
use vcore::{Finding, Value, Violation, json};

/// Type declarations found textually: (name, body idents that are "direct", body idents under a type argument / `?`)
fn type_graph(s: &str, toks: &[tok::Tok]) -> Vec<(String, Vec<String>, Vec<String>)> {
    let text = |t: &tok::Tok| &s[t.start..t.end];
    let mut out = vec![];
    let mut i = 0;
    while i < toks.len() {
        if toks[i].kind == Kind::Keyword && (text(&toks[i]) == "record" || text(&toks[i]) == "enum") && i + 1 < toks.len() {
            let name = text(&toks[i + 1]).to_string();
            let mut j = i + 2;
            // optional type parameters
            let mut params: Vec<&str> = vec![];
            if j < toks.len() && text(&toks[j]) == "[" {
                while j < toks.len() && text(&toks[j]) != "]" {
                    if toks[j].kind == Kind::Ident {
                        params.push(text(&toks[j]));
                    }
                    j += 1;
                }
                j += 1;
            }
            if j < toks.len() && text(&toks[j]) == "{" {
                let mut depth = 0i32;
                let mut sq = 0i32;
                let (mut direct, mut via) = (vec![], vec![]);
                // token ranges of nested `{ .. }?` groups (an anonymous record under an Option)
                let mut opt_groups: Vec<(usize, usize)> = vec![];
                {
                    let mut stack = vec![];
                    for (q, t) in toks.iter().enumerate().skip(j) {
                        match text(t) {
                            "{" => stack.push(q),
                            "}" => {
                                if let Some(o) = stack.pop() {
                                    if !stack.is_empty() && toks.get(q + 1).is_some_and(|n| text(n) == "?") {
                                        opt_groups.push((o, q));
                                    }
                                    if stack.is_empty() {
                                        break;
                                    }
                                }
                            }
                            _ => {}
                        }
                    }
                }
                let mut k = j;
                while k < toks.len() {
                    let t = text(&toks[k]);
                    match t {
                        "{" => depth += 1,
                        "}" => {
                            depth -= 1;
                            if depth == 0 {
                                break;
                            }
                        }
                        "[" => sq += 1,
                        "]" => sq -= 1,
                        _ => {}
                    }
                    if toks[k].kind == Kind::Ident && !params.contains(&t) {
                        // a field name is followed by ':', a type is not
                        let is_field_name = k + 1 < toks.len() && text(&toks[k + 1]) == ":";
                        if !is_field_name {
                            // `X?` or `X[..]?`
                            let mut e = k + 1;
                            if e < toks.len() && text(&toks[e]) == "[" {
                                let mut d = 0i32;
                                while e < toks.len() {
                                    match text(&toks[e]) {
                                        "[" => d += 1,
                                        "]" => d -= 1,
                                        _ => {}
                                    }
                                    e += 1;
                                    if d == 0 {
                                        break;
                                    }
                                }
                            }
                            let optional = e < toks.len() && text(&toks[e]) == "?";
                            let in_opt_group = opt_groups.iter().any(|(o, c)| *o < k && k < *c);
                            if sq > 0 || optional || in_opt_group {
                                via.push(t.to_string());
                            } else {
                                direct.push(t.to_string());
                            }
                        }
                    }
                    k += 1;
                }
                out.push((name, direct, via));
                i = k;
            }
        }
        i += 1;
    }
    out
}

/// Is there a reference cycle among the declared types that passes through at
/// least one type-argument / `?` edge, and no cycle made of direct edges only
/// (the compiler reports those)?
/// Is there any reference cycle among the declared types?
fn type_reference_cycle(g: &[(String, Vec<String>, Vec<String>)]) -> bool {
    let index: std::collections::HashMap<&str, usize> = g.iter().enumerate().map(|(i, x)| (x.0.as_str(), i)).collect();
    let adj: Vec<Vec<usize>> =
        g.iter().map(|(_, d, v)| d.iter().chain(v).filter_map(|x| index.get(x.as_str()).copied()).collect()).collect();
    has_cycle(&adj)
}

/// iterative three-colour depth-first search
fn has_cycle(adj: &[Vec<usize>]) -> bool {
    let n = adj.len();
    let mut colour = vec![0u8; n];
    for root in 0..n {
        if colour[root] != 0 {
            continue;
        }
        let mut stack: Vec<(usize, usize)> = vec![(root, 0)];
        colour[root] = 1;
        while let Some((node, next)) = stack.pop() {
            if next < adj[node].len() {
                stack.push((node, next + 1));
                let m = adj[node][next];
                match colour[m] {
                    0 => {
                        colour[m] = 1;
                        stack.push((m, 0));
                    }
                    1 => return true,
                    _ => {}
                }
            } else {
                colour[node] = 2;
            }
        }
    }
    false
}

fn type_cycle_via_argument(g: &[(String, Vec<String>, Vec<String>)]) -> bool {
    // linear in the number of declarations and references (L6 declares 10 000 types)
    let index: std::collections::HashMap<&str, usize> = g.iter().enumerate().map(|(i, x)| (x.0.as_str(), i)).collect();
    let n = g.len();
    let mut all: Vec<Vec<usize>> = vec![vec![]; n];
    let mut dir: Vec<Vec<usize>> = vec![vec![]; n];
    for (i, (_, d, v)) in g.iter().enumerate() {
        for x in d {
            if let Some(&j) = index.get(x.as_str()) {
                all[i].push(j);
                dir[i].push(j);
            }
        }
        for x in v {
            if let Some(&j) = index.get(x.as_str()) {
                all[i].push(j);
            }
        }
    }
    has_cycle(&all) && !has_cycle(&dir)
}

/// An identifier that is `let`-bound without a type annotation and then used
/// at least twice in one later statement of which one use is an operand of a
/// list constructor, a method argument or an assignment — the shapes that
/// make unification bind a type variable to a type containing itself.
fn self_referential_use(s: &str, toks: &[tok::Tok]) -> bool {
    let text = |t: &tok::Tok| &s[t.start..t.end];
    let n = toks.len();
    for i in 0..n {
        if text(&toks[i]) == "let" && i + 2 < n && toks[i + 1].kind == Kind::Ident && text(&toks[i + 2]) == "=" {
            let v = text(&toks[i + 1]);
            // skip the initialiser (up to the `;` at its own nesting level)
            let mut depth = 0i32;
            let mut j = i + 3;
            while j < n {
                match text(&toks[j]) {
                    "{" | "[" | "(" => depth += 1,
                    "}" | "]" | ")" => {
                        if depth == 0 {
                            break;
                        }
                        depth -= 1;
                    }
                    ";" if depth == 0 => break,
                    _ => {}
                }
                j += 1;
            }
            // the statements that follow in the same block
            let mut depth = 0i32;
            let mut uses = 0;
            let mut k = j + 1;
            while k < n {
                let t = text(&toks[k]);
                match t {
                    "{" => depth += 1,
                    "}" => {
                        if uses >= 2 {
                            return true;
                        }
                        uses = 0;
                        if depth == 0 {
                            break;
                        }
                        depth -= 1;
                    }
                    ";" => {
                        if uses >= 2 {
                            return true;
                        }
                        uses = 0;
                    }
                    _ => {
                        if toks[k].kind == Kind::Ident && t == v {
                            uses += 1;
                        }
                    }
                }
                k += 1;
            }
            if uses >= 2 {
                return true;
            }
        }
    }
    false
}

/// `!` written where a type is expected (after `:` / `->`, or as a type argument / variant field)
fn never_type_written(s: &str, toks: &[tok::Tok]) -> bool {
    let text = |t: &tok::Tok| &s[t.start..t.end];
    for i in 1..toks.len() {
        if text(&toks[i]) != "!" {
            continue;
        }
        let prev = text(&toks[i - 1]);
        let next = toks.get(i + 1).map(|t| text(t)).unwrap_or("");
        if prev == "->" {
            return true;
        }
        if prev == ":" && matches!(next, "?" | "," | ")" | "]" | "}" | "=" | ";" | "{" | "") {
            return true;
        }
        if matches!(prev, "(" | "[" | ",") && matches!(next, "?" | "," | ")" | "]") {
            return true;
        }
    }
    false
}

/// A `/` or `%` inside the initialiser of a constant (`const X: T = .. / .. ;`)
fn const_init_has_division(s: &str, toks: &[tok::Tok]) -> bool {
    let text = |t: &tok::Tok| &s[t.start..t.end];
    let mut i = 0;
    while i < toks.len() {
        if toks[i].kind == Kind::Keyword && text(&toks[i]) == "const" {
            let mut depth = 0i32;
            let mut j = i + 1;
            while j < toks.len() {
                match text(&toks[j]) {
                    "{" | "(" | "[" => depth += 1,
                    "}" | ")" | "]" => depth -= 1,
                    ";" if depth <= 0 => break,
                    "/" | "%" | "/=" | "%=" => return true,
                    _ => {}
                }
                j += 1;
            }
            i = j;
        }
        i += 1;
    }
    false
}

/// The initialiser of a constant contains something that executes: a division, a loop,
/// or a call (`name(`); constant initialisers are run while the package is compiled
fn const_init_runs_code(s: &str, toks: &[tok::Tok]) -> bool {
    let text = |t: &tok::Tok| &s[t.start..t.end];
    let mut i = 0;
    while i < toks.len() {
        if toks[i].kind == Kind::Keyword && text(&toks[i]) == "const" {
            let mut depth = 0i32;
            let mut j = i + 1;
            let mut after_eq = false;
            while j < toks.len() {
                let t = text(&toks[j]);
                match t {
                    "{" | "(" | "[" => depth += 1,
                    "}" | ")" | "]" => depth -= 1,
                    ";" if depth <= 0 => break,
                    "=" if depth <= 0 => after_eq = true,
                    _ => {}
                }
                if after_eq {
                    if matches!(t, "/" | "%" | "/=" | "%=" | "while" | "for") {
                        return true;
                    }
                    if toks[j].kind == Kind::Ident && toks.get(j + 1).is_some_and(|n| text(n) == "(") {
                        return true;
                    }
                }
                j += 1;
            }
            i = j;
        }
        i += 1;
    }
    false
}

/// `enum Name {}` / `enum Name[T] {}`: an enum without variants
fn empty_enum_declared(s: &str, toks: &[tok::Tok]) -> bool {
    let text = |t: &tok::Tok| &s[t.start..t.end];
    for i in 0..toks.len() {
        if text(&toks[i]) == "enum" {
            let mut j = i + 2;
            if toks.get(j).is_some_and(|t| text(t) == "[") {
                while j < toks.len() && text(&toks[j]) != "]" {
                    j += 1;
                }
                j += 1;
            }
            if toks.get(j).is_some_and(|t| text(t) == "{") && toks.get(j + 1).is_some_and(|t| text(t) == "}") {
                return true;
            }
        }
    }
    false
}

/// A value whose element / payload type nothing constrains: `[]` iterated or indexed,
/// an untyped `None` (bound by `let` without annotation, or under `?`)
fn open_element_source(s: &str, toks: &[tok::Tok]) -> bool {
    let text = |t: &tok::Tok| &s[t.start..t.end];
    for i in 0..toks.len() {
        let t = text(&toks[i]);
        // `in []`, `= [];`, `[].`, `accept []`
        if t == "[" && toks.get(i + 1).is_some_and(|n| text(n) == "]") {
            let prev = if i > 0 { text(&toks[i - 1]) } else { "" };
            let next = toks.get(i + 2).map(|n| text(n)).unwrap_or("");
            if matches!(prev, "in" | "=" | "accept" | "reject" | "[" | ",") || next == "." {
                return true;
            }
        }
        // `= None;` / `None?`
        if t == "None" {
            let prev = if i > 0 { text(&toks[i - 1]) } else { "" };
            let prev2 = if i > 2 { text(&toks[i - 2]) } else { "" };
            let next = toks.get(i + 1).map(|n| text(n)).unwrap_or("");
            let after_eq = prev == "=" || (prev == "." && prev2 == "Option" && i > 2 && text(&toks[i - 3]) == "=");
            // an annotated `let x: T = None` constrains it
            let annotated = (0..i).rev().take_while(|k| text(&toks[*k]) != ";" && text(&toks[*k]) != "{").any(|k| text(&toks[k]) == ":");
            if (after_eq && !annotated) || next == "?" {
                return true;
            }
        }
    }
    false
}

/// Features of the source text(s) of an input
pub fn features(s: &str) -> Value {
    let toks = tok::tokens(s);
    let text = |t: &tok::Tok| &s[t.start..t.end];
    let nonascii = !s.is_ascii();
    let nonascii_xid_start = s.chars().any(|c| !c.is_ascii() && is_xid_start(c));
    // a non-ASCII identifier start at a place where the lexer begins a token
    let mut prev: Option<char> = None;
    let mut nonascii_ident_start = false;
    for c in s.chars() {
        if !c.is_ascii() && is_xid_start(c) && !prev.is_some_and(|p| is_xid_continue(p)) {
            nonascii_ident_start = true;
        }
        prev = Some(c);
    }
    let nonascii_after_fstring_open = s.find("f\"").is_some_and(|i| !s[i..].is_ascii());
    let has = |w: &str| toks.iter().any(|t| (t.kind == Kind::Keyword || t.kind == Kind::Ident) && text(t) == w);
    let diverging_kw = has("return") || has("accept") || has("reject");
    // dotted path with >= 3 segments
    let mut path3 = false;
    let mut run = 0;
    let mut i = 0;
    while i < toks.len() {
        if matches!(toks[i].kind, Kind::Ident | Kind::Keyword) {
            run = 1;
            while i + 2 < toks.len() && text(&toks[i + 1]) == "." && matches!(toks[i + 2].kind, Kind::Ident | Kind::Keyword) {
                run += 1;
                i += 2;
            }
            if run >= 3 {
                path3 = true;
            }
        }
        i += 1;
    }
    let _ = run;
    let g = type_graph(s, &toks);
    let generic_enum_decl = {
        let mut f = false;
        for w in toks.windows(3) {
            if text(&w[0]) == "enum" && text(&w[2]) == "[" {
                f = true;
            }
        }
        f
    };
    let unit_like = s.contains("()") || s.contains("{}") || s.contains("{ }") || has("mkz") || has("Z") || has("emit_unit");
    let eq_or_list = s.contains("==") || s.contains("!=") || s.contains('[') || has("contains") || has("index");
    json!({
        "nonascii": nonascii,
        "nonascii_xid_start": nonascii_xid_start,
        "nonascii_ident_start": nonascii_ident_start,
        "nonascii_after_fstring_open": nonascii_after_fstring_open,
        "match_kw": has("match"),
        "diverging_kw": diverging_kw,
        "path3": path3,
        "import_kw": has("import"),
        "type_cycle_via_argument": type_cycle_via_argument(&g),
        "self_referential_use": self_referential_use(s, &toks),
        "none_or_generic_enum": has("None") || has("Some") || generic_enum_decl,
        "variant_dot": toks.windows(2).any(|w| matches!(text(&w[0]), "None" | "Some") && text(&w[1]) == "."),
        "unit_like": unit_like,
        "eq_or_list": eq_or_list,
        "never_type_written": never_type_written(s, &toks),
        "loop_kw": has("while") || has("for"),
        "const_init_has_division": const_init_has_division(s, &toks),
        "const_init_runs_code": const_init_runs_code(s, &toks),
        "empty_enum_declared": empty_enum_declared(s, &toks),
        "open_element_source": open_element_source(s, &toks),
    })
}

/// `let v = <init with an open type>;` (no annotation) followed by >= 2 mentions of `v`, or two
/// such bindings each mentioned afterwards
fn open_binding_reused(s: &str, toks: &[tok::Tok]) -> bool {
    let text = |t: &tok::Tok| &s[t.start..t.end];
    let n = toks.len();
    let mut open_bindings = 0;
    for i in 0..n {
        if text(&toks[i]) == "let" && i + 2 < n && toks[i + 1].kind == Kind::Ident && text(&toks[i + 2]) == "=" {
            let v = text(&toks[i + 1]);
            let mut depth = 0i32;
            let mut j = i + 3;
            let mut open = false;
            while j < n {
                let t = text(&toks[j]);
                match t {
                    "{" | "[" | "(" => depth += 1,
                    "}" | "]" | ")" => {
                        if depth == 0 {
                            break;
                        }
                        depth -= 1;
                    }
                    ";" if depth == 0 => break,
                    _ => {}
                }
                if t == "[" && toks.get(j + 1).is_some_and(|x| text(x) == "]") {
                    open = true;
                }
                if matches!(t, "None" | "N" | "return" | "accept" | "reject") {
                    open = true;
                }
                j += 1;
            }
            if !open {
                continue;
            }
            let uses = toks[j.min(n)..].iter().filter(|t| t.kind == Kind::Ident && text(t) == v).count();
            if uses >= 2 {
                return true;
            }
            if uses >= 1 {
                open_bindings += 1;
            }
        }
    }
    open_bindings >= 2
}

/// Loose, cheap over-approximation of "this input may kill the process"
/// (stack overflow): such inputs are first compiled in a forked child.
pub fn may_die(s: &str) -> bool {
    // a let-bound name used again, or a type declaration mentioning a declared type
    if s.contains("let w") || s.contains("record") || s.contains("enum") {
        let toks = tok::tokens(s);
        if self_referential_use(s, &toks) {
            return true;
        }
        let g = type_graph(s, &toks);
        // some reference cycle among the declared types (through any kind of edge)
        if type_reference_cycle(&g) {
            return true;
        }
    }
    // an unannotated binding whose initialiser leaves a type variable open (`[]`, `None`, a
    // diverging expression) and that is mentioned at least twice afterwards, or two such
    // bindings (cycles through two variables): loose on purpose, a fork costs ~1 ms
    if s.contains("let ") && (s.contains("[]") || s.contains("None") || s.contains("return") || s.contains(".N")) {
        let toks = tok::tokens(s);
        if open_binding_reused(s, &toks) {
            return true;
        }
    }
    // constant initialisers are evaluated while compiling
    if s.contains("const ") && (s.contains('/') || s.contains('%')) {
        if const_init_has_division(s, &tok::tokens(s)) {
            return true;
        }
    }
    // ... and may loop, recurse or call aborting built-ins
    if s.contains("const ") && (s.contains("while") || s.contains("for ") || s.contains('(')) {
        return const_init_runs_code(s, &tok::tokens(s));
    }
    false
}

/// number of `let aK = .. a(K-1) .. a(K-1) ..;` lines (each mentions the previous binding twice)
fn shared_let_chain(s: &str) -> u64 {
    let mut n = 0;
    for k in 0..200u64 {
        let prev = format!("a{k}");
        let decl = format!("let a{} = ", k + 1);
        match s.find(&decl) {
            Some(i) => {
                let rest = &s[i + decl.len()..];
                let stmt = &rest[..rest.find(';').unwrap_or(rest.len())];
                let uses = stmt.match_indices(&prev).filter(|(p, _)| !stmt[p + prev.len()..].starts_with(|c: char| c.is_ascii_digit())).count();
                if uses >= 2 {
                    n += 1;
                } else {
                    break;
                }
            }
            None => break,
        }
    }
    n
}

/// a file stem / directory name / module name of the input contains a dot
fn input_has_dotted_module(input: &Value) -> bool {
    fn spec(n: &Value) -> bool {
        n["module"].as_str().is_some_and(|m| m.contains('.'))
            || n["children"].as_array().is_some_and(|a| a.iter().any(spec))
    }
    if spec(&input["spec"]) {
        return true;
    }
    input["files"].as_array().is_some_and(|a| {
        a.iter().any(|f| {
            f["path"].as_str().is_some_and(|p| {
                p.split('/').any(|comp| {
                    let stem = comp.strip_suffix(".roto").unwrap_or(comp);
                    stem.contains('.')
                })
            })
        })
    })
}

fn is_stack_death(class: &str) -> bool {
    class == "signal:SIGABRT" || class == "signal:SIGSEGV"
}

pub const MATCHERS: [&str; 22] = [
    "jit_relocation_out_of_range",
    "stack_overflow_in_long_declaration_chain",
    "const_initialiser_code_dies_at_compile_time",
    "runtime_function_signature_per_call_site",
    "unconstrained_type_variable_in_record",
    "empty_enum_declared",
    "type_dag_expanded_as_tree",
    "dotted_module_name_duplicate_symbol",
    "loop_with_diverging_body",
    "const_division_by_zero_at_compile_time",
    "module_ident_span_outside_file",
    "labels_in_two_files_rendered_against_one",
    "never_type_annotation",
    "lexer_nonascii_ident_start",
    "fstring_nonascii_text",
    "match_on_diverging_expr",
    "field_of_enum_constructor",
    "occurs_check_missing",
    "type_cycle_through_type_argument",
    "invalid_token_span_splits_char",
    "eq_on_zero_sized_field",
    "eq_helper_uninhabited_variant",
];

pub fn matches(f: &Finding, v: &Violation) -> bool {
    matches_parts(&f.matcher, &v.class, &v.case)
}

pub fn matches_parts(matcher: &str, class: &str, c: &Value) -> bool {
    let feat = &c["feat"];
    let loc = c["panic_loc"].as_str().unwrap_or("");
    let msg = c["panic_msg"].as_str().unwrap_or("");
    let phase = c["phase"].as_str().unwrap_or("");
    let on = |k: &str| feat[k] == true;
    match matcher {
        // `let é = 1`: keyword_or_ident slices `&tail[1..]` after a multi-byte first char
        "lexer_nonascii_ident_start" => {
            class.starts_with("panic:src/parser/lexer.rs:")
                && phase == "compile"
                && msg.contains("byte index 1 is not a char boundary")
                && on("nonascii_xid_start")
        }
        // `f"é"`: f_string_part uses a char index as a byte count; `bump` splits inside a char
        "fstring_nonascii_text" => {
            class.starts_with("panic:rust:library/core/src/str/")
                && phase == "compile"
                && msg.contains("is not a char boundary")
                && on("nonascii_after_fstring_open")
        }
        "match_on_diverging_expr" => {
            class.starts_with("panic:src/typechecker/expr.rs:")
                && msg.starts_with("not yet implemented: make a pretty error")
                && on("match_kw")
                && on("diverging_kw")
        }
        "field_of_enum_constructor" => {
            class.starts_with("panic:src/typechecker/expr.rs:")
                && msg.starts_with("not yet implemented: make a nice error for variant cannot have field")
                && (on("path3") || on("import_kw") || on("variant_dot"))
        }
        "occurs_check_missing" => is_stack_death(class) && on("self_referential_use"),
        "type_cycle_through_type_argument" => is_stack_death(class) && on("type_cycle_via_argument"),
        // N4: the span of an invalid token is `start..start+1` even when the character is longer
        "invalid_token_span_splits_char" => {
            let d = &c["bad_location"];
            ((class.starts_with("panic-render-") && loc.starts_with("src/parser/meta.rs:") && msg.contains("is not a char boundary"))
                || class == "location:not-char-boundary")
                && d["span_len"] == 1
                && d["start_is_boundary"] == true
                && d["kinds"].as_array().is_some_and(|a| !a.is_empty() && a.iter().all(|k| k == "parse"))
                && on("nonascii")
        }
        // N8: the span given to a module's own name is bytes 0..1 of its file, whatever the file contains
        "module_ident_span_outside_file" => {
            let d = &c["bad_location"];
            (class == "location:beyond-eof"
                || class == "location:not-char-boundary"
                || (class.starts_with("panic-render-") && loc.starts_with("src/parser/meta.rs:")))
                && d["start"] == 0
                && d["end"] == 1
                && d["kinds"] == json!(["type"])
                && c["input"]["api"].as_str().is_some_and(|a| !a.contains("test_file"))
        }
        // N9: RotoReport::write converts the spans of all labels with the text of the primary file
        "labels_in_two_files_rendered_against_one" => {
            class.starts_with("panic-render-")
                && loc.starts_with("src/parser/meta.rs:")
                && (msg.contains("out of bounds") || msg.contains("is not a char boundary"))
                && c["bad_location"].is_null()
                && c["report"]["kinds"] == json!(["type"])
                && c["report"]["cited_files"].as_u64().is_some_and(|n| n >= 2)
        }
        // N10: `!` accepted as a written type where a value has to exist
        "never_type_annotation" => {
            (class.starts_with("panic:src/codegen/mod.rs:")
                || class.starts_with("panic:src/lir/lower.rs:")
                || class.starts_with("panic:src/mir/lower.rs:"))
                && msg.starts_with("Internal compiler error")
                && on("never_type_written")
        }
        // N11: a loop whose body diverges is taken to diverge itself
        "loop_with_diverging_body" => {
            ((class.starts_with("panic:src/codegen/mod.rs:")
                && (msg.starts_with("Internal compiler error: did not find Var")
                    || msg.starts_with("called `Result::unwrap()` on an `Err` value: Compilation(Verifier")))
                || (class.starts_with("panic:src/lir/lower.rs:")
                    && msg.starts_with("called `Option::unwrap()` on a `None` value")))
                && on("loop_kw")
                && on("diverging_kw")
                && !on("never_type_written")
        }
        // N12: constant initialisers run while compiling; integer division traps (C10) kill the compiling process
        "const_division_by_zero_at_compile_time" => {
            (class == "signal:SIGILL" || class == "signal:SIGFPE") && on("const_init_has_division")
        }
        // N12 widened (audit V8): a trap / abort / hang / stack overflow raised by code that a
        // constant initialiser runs at compile time
        "const_initialiser_code_dies_at_compile_time" => {
            (class == "hang" || matches!(class, "signal:SIGILL" | "signal:SIGFPE" | "signal:SIGABRT" | "signal:SIGSEGV"))
                && on("const_init_runs_code")
        }
        // audit V3: the import signature of a generic runtime function is stored per function
        // but computed per call site; a call site whose element type has no layout drops an argument
        "runtime_function_signature_per_call_site" => {
            class.starts_with("panic:src/codegen/mod.rs:")
                && msg.contains("mismatched argument count")
                && (on("open_element_source") || on("empty_enum_declared"))
        }
        // audit V2: a record field whose type stays an unconstrained inference variable
        "unconstrained_type_variable_in_record" => {
            class.starts_with("panic:src/lir/lower.rs:")
                && msg.starts_with("called `Option::unwrap()` on a `None` value")
                && on("open_element_source")
                && !on("empty_enum_declared")
                && !on("never_type_written")
        }
        // audit V4: `enum E {}` is accepted; values of it have no layout and five lowering sites panic
        "empty_enum_declared" => {
            on("empty_enum_declared")
                && !on("never_type_written")
                && ((class.starts_with("panic:src/lir/lower.rs:") && msg.starts_with("called `Option::unwrap()` on a `None` value"))
                    || (class.starts_with("panic:src/lir/lower/drops.rs:") && msg.starts_with("called `Option::unwrap()` on a `None` value"))
                    || (class.starts_with("panic:src/lir/lower/clones.rs:") && msg.starts_with("called `Option::unwrap()` on a `None` value"))
                    || (class.starts_with("panic:src/codegen/mod.rs:")
                        && (msg.starts_with("Internal compiler error: did not find Var") || msg.starts_with("no entry found for key"))))
        }
        // audit of C11 (V1): every function body and data object is its own heap allocation and
        // they are linked with 32-bit PC-relative relocations that cranelift-jit unwraps
        "jit_relocation_out_of_range" => {
            let g = &c["generated_by"];
            class.contains("cranelift-jit") && class.contains("compiled_blob.rs")
                && g["repeater"].as_str().is_some_and(|r| r.starts_with("huge:"))
                && g["n"].as_u64().is_some_and(|n| n >= 55)
        }
        // audit V5: the type DAG is expanded as a tree (TypeInfo::convert, occurs, ==, display)
        "type_dag_expanded_as_tree" => {
            let g = &c["generated_by"];
            (class == "hang" || class == "signal:SIGABRT" || class == "signal:SIGSEGV" || class.starts_with("exit:"))
                && g["repeater"].as_str().is_some_and(|r| r.starts_with("share:"))
                && g["n"].as_u64().is_some_and(|n| n >= 13)
                && shared_let_chain(c["src"].as_str().unwrap_or("")) >= 13
        }
        // audit V6: a module called `a.b` and the module `b` inside `a` give their items the same symbol
        "dotted_module_name_duplicate_symbol" => {
            class.starts_with("panic:src/codegen/mod.rs:") && (msg.contains("DuplicateDefinition(") || msg.contains("IncompatibleSignature(")) && input_has_dotted_module(&c["input"])
        }
        // audit V7: recursion whose depth is the number of chained one-line declarations
        "stack_overflow_in_long_declaration_chain" => {
            let g = &c["generated_by"];
            is_stack_death(class)
                && g["repeater"].as_str().is_some_and(|r| r.starts_with("count:"))
                && g["n"].as_u64().is_some_and(|n| n >= 5000)
                && c["src"].as_str().is_some_and(|s| s.lines().count() >= 5000 || s.matches(';').count() >= 5000)
        }
        // N5
        "eq_on_zero_sized_field" => {
            class.starts_with("panic:src/lir/lower/eq.rs:")
                && msg.starts_with("called `Option::unwrap()` on a `None` value")
                && on("unit_like")
                && on("eq_or_list")
        }
        // N7
        "eq_helper_uninhabited_variant" => {
            class.starts_with("panic:cranelift-frontend-")
                && msg.starts_with("you cannot add an instruction to a block already filled")
                && on("none_or_generic_enum")
                && on("eq_or_list")
        }
        _ => false,
    }
}

/// Findings listed for C06 (read by workers to keep per-unit violation lists
/// short: members of a listed class beyond the first few are only counted).
pub fn listed_matchers() -> Vec<(String, String)> {
    let mut out = vec![];
    for p in ["/verif/known_findings.json", "/verif/known_findings.d/C06.json"] {
        let Ok(s) = std::fs::read_to_string(p) else { continue };
        let Ok(v) = vcore::serde_json::from_str::<Value>(&s) else { continue };
        if let Some(a) = v["findings"].as_array() {
            for f in a {
                if f["property"] == "C06" {
                    out.push((f["id"].as_str().unwrap_or("").to_string(), f["matcher"].as_str().unwrap_or("").to_string()));
                }
            }
        }
    }
    out
}
