//! L10 — type expressions: every type name with every number of type arguments
//! in every type position, before and after the declaration of the type.
//!
//! Five declared types (`Pair[A, B]`, `Inner[T]`, `Choice[T]`, `Plain`, `Flat`),
//! the built-in constructors and a few names that are not types are written with
//! 0, 1, 2 and 3 type arguments (also nested in each other and under `?`) in the
//! position of a record field, a variant payload, the field of a generic record, a
//! parameter, a return type, a `let` annotation, a constant's type and a list
//! element. The holder of the position is declared BEFORE or AFTER the named type
//! (the type checker only knows a stub of a type that is declared later), in the
//! same file or in a module loaded before / after it; and the holder is then used
//! the way the (possibly wrong) type suggests: passed on, field of a field read,
//! matched. Oracle as everywhere in C06: a package or a report, never a panic.
//! Added after seeded change C06-4 (arity check skipped for forward references).

use crate::oracle::{Input, MemNode};
use vcore::{Cfg, Value, json};

const TYPES: &str = "record Pair[A, B] { a: A, b: B }\nrecord Inner[T] { v: T }\nenum Choice[T] { One(T), Two }\nrecord Plain { x: i32 }\nenum Flat { F, G(i32) }\n";

/// type names; the first five are declared by TYPES
const NAMES: [&str; 14] =
    ["Pair", "Inner", "Choice", "Plain", "Flat", "List", "Option", "Result", "Verdict", "u8", "String", "Undeclared", "A", "f"];

fn args(n: usize, inner: &str) -> String {
    match n {
        0 => String::new(),
        _ => format!("[{}]", vec![inner; n].join(", ")),
    }
}

/// all type expressions
fn type_exprs() -> Vec<String> {
    let mut v = vec![];
    for name in NAMES {
        for n in 0..=3 {
            v.push(format!("{name}{}", args(n, "u8")));
        }
    }
    // nested: a wrongly applied type inside a rightly applied one and the other way round
    for name in ["Pair", "Inner", "Choice", "Plain"] {
        for n in 0..=2 {
            let t = format!("{name}{}", args(n, "u8"));
            v.push(format!("List[{t}]"));
            v.push(format!("{t}?"));
            v.push(format!("Inner[{t}]"));
            v.push(format!("Pair[{t}, {t}]"));
            v.push(format!("Choice[{t}]"));
        }
        v.push(format!("{name}[{name}]"));
        v.push(format!("{name}[{name}, {name}]"));
    }
    v
}

/// (name, holder declarations with ◆ = the type expression, uses of the holder)
const POSITIONS: [(&str, &str, &[&str]); 8] = [
    (
        "record-field",
        "record Holder { h: ◆, n: u8 }\n",
        &[
            "",
            "fn id(x: Holder) -> Holder { x }\n",
            "fn g(x: Holder) { let v = x.h; }\n",
            "fn g(x: Holder) { let v = x.h.a; let w = x.h.v; }\n",
            "fn g(x: Holder) { let v = x.h.x; }\n",
            "fn g(x: Holder) -> u8 { match x.h { One(q) => 1, Two => 2 } }\n",
            "fn g(x: Holder) -> u8 { match x.h { F => 1, G(q) => 2 } }\n",
            "fn g(x: Holder, y: Holder) -> bool { x == y }\n",
            "fn g(x: Holder) -> String { f\"{x.n}\" }\nfn k(x: Holder) { let l = [x]; }\n",
        ],
    ),
    (
        "variant-payload",
        "enum Holder { H(◆), N(u8, ◆) }\n",
        &[
            "",
            "fn id(x: Holder) -> Holder { x }\n",
            "fn g(x: Holder) -> u8 { match x { H(p) => 1, N(k, p) => k } }\n",
            "fn g(x: Holder) { match x { H(p) => { let v = p.a; let w = p.v; let u = p.x; } N(k, p) => {} } }\n",
            "fn g(x: Holder) -> u8 { match x { H(p) => match p { One(q) => 1, Two => 2 }, N(k, p) => k } }\n",
            "fn g(x: Holder, y: Holder) -> bool { x == y }\n",
        ],
    ),
    (
        "generic-record-field",
        "record Holder[X] { h: ◆, x: X }\n",
        &["", "fn id(x: Holder[u8]) -> Holder[u8] { x }\n", "fn g(x: Holder[u8]) { let v = x.h.a; let w = x.h.v; }\n", "fn g(x: Holder[Holder[u8]]) { let v = x.x.h; }\n"],
    ),
    ("parameter", "fn holder(h: ◆) { }\n", &["", "fn g(x: ◆) { holder(x); }\n", "fn g(x: ◆) { let v = x.a; let w = x.v; holder(x); }\n"]),
    ("return-type", "fn holder(h: ◆) -> ◆ { h }\n", &["", "fn g(x: ◆) -> u8 { match holder(x) { One(q) => 1, Two => 2 } }\n", "fn g(x: ◆) { let v = holder(x).b; }\n"]),
    ("let-annotation", "fn holder(p: Pair[u8, u8], i: Inner[u8], c: Choice[u8]) { let a: ◆ = p; let b: ◆ = i; let d: ◆ = c; }\n", &[""]),
    ("constant-type", "const HOLDER: ◆ = Pair { a: 1, b: 2 };\nconst HOLDER2: ◆ = Inner { v: 1 };\nconst HOLDER3: ◆ = Choice.Two;\n", &["", "fn g() { let v = HOLDER.a; let w = HOLDER2.v; }\n"]),
    ("list-element", "fn holder(l: List[◆]) { for e in l { let v = e; } }\n", &["", "fn g(l: List[◆]) { for e in l { let v = e.a; let w = e.v; } }\n"]),
];

/// how the named types and the holder are arranged
const ARRANGEMENTS: [&str; 6] = [
    "types-first",        // one file: types, holder, uses
    "holder-first",       // one file: holder, uses, types
    "uses-first",         // one file: uses, holder, types
    "types-in-submodule", // pkg: holder + uses with `import m.{..}`; m: types
    "holder-in-submodule", // pkg: types; m: holder + uses with `import super.{..}`
    "types-between",      // one file: holder, types, uses
];

fn table() -> Vec<(usize, usize, usize, usize)> {
    let n_te = type_exprs().len();
    let mut t = vec![];
    for (p, pos) in POSITIONS.iter().enumerate() {
        for u in 0..pos.2.len() {
            for a in 0..ARRANGEMENTS.len() {
                for te in 0..n_te {
                    t.push((p, u, a, te));
                }
            }
        }
    }
    t
}

pub fn count(_cfg: &Cfg) -> u64 {
    table().len() as u64
}

pub fn case(_cfg: &Cfg, idx: u64) -> (Input, Value) {
    let (p, u, a, te) = table()[idx as usize];
    let tes = type_exprs();
    let te = &tes[te];
    let (pname, holder, uses) = POSITIONS[p];
    let holder = holder.replace('◆', te);
    let uses = uses[u].replace('◆', te);
    let info = json!({"type_expression": te, "position": pname, "use": u, "arrangement": ARRANGEMENTS[a]});
    let single = |s: String| Input::Single(s);
    let file = |name: &str, module: &str, contents: String, children: Vec<MemNode>| MemNode {
        name: name.into(),
        module: module.into(),
        contents,
        offset: 0,
        dir: false,
        children,
    };
    let input = match a {
        0 => single(format!("{TYPES}{holder}{uses}")),
        1 => single(format!("{holder}{uses}{TYPES}")),
        2 => single(format!("{uses}{holder}{TYPES}")),
        3 => Input::Mem(file(
            "pkg.roto",
            "pkg",
            format!("import m.{{Pair, Inner, Choice, Plain, Flat}};\n{holder}{uses}"),
            vec![file("m.roto", "m", TYPES.to_string(), vec![])],
        )),
        4 => Input::Mem(file(
            "pkg.roto",
            "pkg",
            TYPES.to_string(),
            vec![file("m.roto", "m", format!("import super.{{Pair, Inner, Choice, Plain, Flat}};\n{holder}{uses}"), vec![])],
        )),
        _ => single(format!("{holder}{TYPES}{uses}")),
    };
    (input, info)
}

pub fn bounds(cfg: &Cfg) -> Value {
    json!({"declared_types": TYPES, "type_expressions": type_exprs().len(), "names": NAMES, "type_arguments": [0, 1, 2, 3],
           "positions": POSITIONS.iter().map(|p| json!({"name": p.0, "uses": p.2.len()})).collect::<Vec<_>>(),
           "arrangements": ARRANGEMENTS, "cases": count(cfg)})
}
