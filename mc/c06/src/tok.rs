//! A small tokenizer that mirrors `/repo/src/parser/lexer.rs` closely enough to
//! (a) find token spans in seed programs for the single-token replacements of
//! layer L3 and (b) compute the syntactic features the known-finding matchers
//! look at. It is total: it never panics, whatever the input.

use unicode_ident::{is_xid_continue, is_xid_start};

/// The token alphabet of layer L1 / the replacement alphabet of layer L3:
/// 22 keywords, 37 punctuation and delimiter tokens (including the two that
/// exist for diagnostics only), one spelling of each literal kind, `true` and
/// `false`, the f-string opener, an ASCII and a non-ASCII identifier, an
/// invalid ASCII character and an invalid multi-byte character.
pub const ALPHABET: [&str; 75] = [
    // identifiers
    "a", "é", //
    // literals
    "1", "1.5", "0x1f", "AS1", "1.1.1.1", "::1", "true", "false", "\"s\"", "'c'", "f\"", //
    // keywords
    "accept", "const", "dep", "else", "enum", "filter", "filtermap", "for", "fn", "if", "import", "in",
    "let", "match", "pkg", "record", "reject", "return", "std", "super", "test", "while",
    // punctuation
    "&&", "<=", ">=", "->", "!", "!=", ":", ",", "=", "==", "=>", "#", "-", "--", ".", "|", "||", "+", "?",
    ";", "/", "/*", "*", "%", "+=", "-=", "*=", "/=", "%=", //
    // delimiters
    "<", ">", "{", "}", "(", ")", "[", "]", //
    // not tokens at all
    "$", "€", "_",
];

#[derive(Clone, Copy, Debug, PartialEq, Eq)]
pub enum Kind {
    Ident,
    Keyword,
    Number,
    Str,
    Char,
    FStart,
    FText,
    FEnd,
    Punct,
    Invalid,
}

#[derive(Clone, Copy, Debug)]
pub struct Tok {
    pub kind: Kind,
    pub start: usize,
    pub end: usize,
}

pub const KEYWORDS: [&str; 24] = [
    "accept", "const", "dep", "else", "enum", "filter", "filtermap", "for", "fn", "if", "import", "in", "let",
    "match", "pkg", "record", "reject", "return", "std", "super", "test", "while", "true", "false",
];

const TWO: [&str; 15] = ["==", "!=", "&&", "||", ">=", "<=", "->", "=>", "+=", "-=", "*=", "/=", "%=", "/*", "--"];
const ONE: &str = "=|-:;,.+*/!{}?[]()<>%#";

fn skip_ws(s: &str, mut i: usize) -> usize {
    loop {
        let rest = &s[i..];
        let t = rest.trim_start();
        i += rest.len() - t.len();
        if s[i..].starts_with("//") {
            match s[i..].find('\n') {
                Some(n) => i += n + 1,
                None => return s.len(),
            }
        } else {
            return i;
        }
    }
}

fn quoted(s: &str, i: usize, q: char) -> Option<usize> {
    // s[i] is the opening quote; returns the index just after the closing one
    let mut esc = false;
    for (o, c) in s[i + 1..].char_indices() {
        if esc {
            esc = false;
        } else if c == '\\' {
            esc = true;
        } else if c == q {
            return Some(i + 1 + o + 1);
        }
    }
    None
}

/// Tokenize the way the roto lexer would if it were correct on non-ASCII text.
pub fn tokens(s: &str) -> Vec<Tok> {
    let mut out = vec![];
    let mut i = 0;
    // stack of brace depths of open f-string interpolations
    let mut fstack: Vec<u32> = vec![];
    if s.starts_with("#!") && s[2..].chars().next().is_some_and(|c| !c.is_whitespace()) {
        i = s.find('\n').map_or(s.len(), |n| n + 1);
    }
    loop {
        i = skip_ws(s, i);
        if i >= s.len() {
            break;
        }
        let rest = &s[i..];
        let c = rest.chars().next().unwrap();
        let b = rest.as_bytes();
        // ip literals and numbers
        if c.is_ascii_hexdigit() || c == ':' {
            // ipv6: two groups of hexdigits each followed by ':'
            let mut j = 0;
            let mut groups = 0;
            while groups < 2 {
                while j < b.len() && b[j].is_ascii_hexdigit() {
                    j += 1;
                }
                if j < b.len() && b[j] == b':' {
                    j += 1;
                    groups += 1;
                } else {
                    break;
                }
            }
            if groups == 2 {
                while j < b.len() && (b[j].is_ascii_hexdigit() || b[j] == b':') {
                    j += 1;
                }
                out.push(Tok { kind: Kind::Number, start: i, end: i + j });
                i += j;
                continue;
            }
        }
        if c.is_ascii_digit() {
            // digits, '_', '.', exponent, suffix: one token (covers ipv4, floats, hex)
            let mut j = 0;
            while j < b.len() {
                let ch = rest[j..].chars().next().unwrap();
                if is_xid_continue(ch) || ch == '_' {
                    j += ch.len_utf8();
                } else if ch == '.' {
                    // `1..` / `1.x` stay integers
                    match rest[j + 1..].chars().next() {
                        Some(n) if is_xid_start(n) || n == '.' || n == '_' => break,
                        _ => j += 1,
                    }
                } else {
                    break;
                }
            }
            out.push(Tok { kind: Kind::Number, start: i, end: i + j.max(1) });
            i += j.max(1);
            continue;
        }
        if let Some(t) = TWO.iter().find(|t| rest.starts_with(**t)) {
            out.push(Tok { kind: Kind::Punct, start: i, end: i + t.len() });
            i += 2;
            continue;
        }
        if ONE.contains(c) {
            if c == '{' {
                if let Some(d) = fstack.last_mut() {
                    *d += 1;
                }
            }
            if c == '}' {
                if let Some(d) = fstack.last_mut() {
                    if *d == 0 {
                        // end of an interpolation: continue with f-string text
                        fstack.pop();
                        out.push(Tok { kind: Kind::Punct, start: i, end: i + 1 });
                        i += 1;
                        i = ftext(s, i, &mut out, &mut fstack);
                        continue;
                    }
                    *d -= 1;
                }
            }
            out.push(Tok { kind: Kind::Punct, start: i, end: i + 1 });
            i += 1;
            continue;
        }
        if rest.starts_with("f\"") {
            out.push(Tok { kind: Kind::FStart, start: i, end: i + 2 });
            i += 2;
            i = ftext(s, i, &mut out, &mut fstack);
            continue;
        }
        if c == '"' || c == '\'' {
            match quoted(s, i, c) {
                Some(e) => {
                    out.push(Tok { kind: if c == '"' { Kind::Str } else { Kind::Char }, start: i, end: e });
                    i = e;
                }
                None => {
                    out.push(Tok { kind: Kind::Invalid, start: i, end: i + 1 });
                    i += 1;
                }
            }
            continue;
        }
        if is_xid_start(c) || c == '_' {
            let mut j = c.len_utf8();
            for ch in rest[j..].chars() {
                if is_xid_continue(ch) {
                    j += ch.len_utf8();
                } else {
                    break;
                }
            }
            let w = &rest[..j];
            let kind = if KEYWORDS.contains(&w) { Kind::Keyword } else { Kind::Ident };
            out.push(Tok { kind, start: i, end: i + j });
            i += j;
            continue;
        }
        out.push(Tok { kind: Kind::Invalid, start: i, end: i + c.len_utf8() });
        i += c.len_utf8();
    }
    out
}

/// Scan f-string text starting at `i` up to the next interpolation or the end
/// of the string. Pushes an FText (possibly empty text is skipped) and, at the
/// closing quote, an FEnd token. Returns the new position.
fn ftext(s: &str, i: usize, out: &mut Vec<Tok>, fstack: &mut Vec<u32>) -> usize {
    let mut it = s[i..].char_indices().peekable();
    while let Some((o, c)) = it.next() {
        match c {
            '\\' => {
                it.next();
            }
            '{' => {
                if let Some((_, '{')) = it.peek() {
                    it.next();
                } else {
                    if o > 0 {
                        out.push(Tok { kind: Kind::FText, start: i, end: i + o });
                    }
                    // the `{` itself is lexed as a normal token by the caller
                    fstack.push(0);
                    out.push(Tok { kind: Kind::Punct, start: i + o, end: i + o + 1 });
                    return i + o + 1;
                }
            }
            '"' => {
                if o > 0 {
                    out.push(Tok { kind: Kind::FText, start: i, end: i + o });
                }
                out.push(Tok { kind: Kind::FEnd, start: i + o, end: i + o + 1 });
                return i + o + 1;
            }
            _ => {}
        }
    }
    if s.len() > i {
        out.push(Tok { kind: Kind::FText, start: i, end: s.len() });
    }
    s.len()
}

#[cfg(test)]
mod tests {
    use super::*;
    #[test]
    fn total_on_odd_input() {
        for s in ["", "é", "f\"é", "f\"a{f\"b{1}\"}c\"", "1.é", "'", "\"\\", "::", "1:2:3", "a.b.c", "#!x\nfn", "€ 𝄞 \u{301}"] {
            let t = tokens(s);
            for w in t.windows(2) {
                assert!(w[0].end <= w[1].start);
            }
            for x in &t {
                assert!(s.is_char_boundary(x.start) && s.is_char_boundary(x.end) && x.start < x.end);
            }
        }
    }
}
