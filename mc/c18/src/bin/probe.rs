use roto::*;
use std::time::Instant;
use vcore::util::catch;

#[derive(Clone, PartialEq, Debug)]
struct A(u32);
#[derive(Clone, Copy, PartialEq, Debug)]
struct B(u32);

fn compile(rt: &Runtime<NoCtx>, src: &str) -> String {
    match host::compile(rt, src) {
        Ok(_) => "compiled".into(),
        Err(e) => format!("{e:?}").chars().take(300).collect(),
    }
}

fn f1() -> u32 { 1 }
fn f2() -> u32 { 2 }

fn show(label: &str, r: Result<Result<Runtime<NoCtx>, RegistrationError>, String>, srcs: &[&str]) {
    match r {
        Err(p) => println!("{label}: PANIC {p}"),
        Ok(Err(e)) => println!("{label}: Err {}", format!("{e}").replace('\n', " ")),
        Ok(Ok(rt)) => {
            println!("{label}: Ok");
            for s in srcs {
                println!("    {s:?} => {}", compile(&rt, s));
            }
        }
    }
}

fn fun(name: &str, f: fn() -> u32) -> Item {
    Item::Function(Function::new(name, "", vec![], f, location!()).unwrap())
}
fn module(name: &str, ch: Vec<Item>) -> Item {
    let mut m = Module::new(name, "", location!()).unwrap();
    m.add(ch);
    Item::Module(m)
}
fn usei(p: &[&str]) -> Item {
    Item::Use(Use::new(vec![p.iter().map(|s| s.to_string()).collect()], location!()))
}

fn main() {
    vcore::util::install_quiet_panic_hook();
    let t = Instant::now();
    for _ in 0..50 { let _ = Runtime::new(); }
    println!("Runtime::new {:?}", t.elapsed() / 50);
    let base = Runtime::new();
    let t = Instant::now();
    for _ in 0..50 { let _ = base.clone(); }
    println!("Runtime::clone {:?}", t.elapsed() / 50);

    for n in ["a", "T", "accept", "1x", "é", "a b", "", " a", "a ", "_", "a.b", "true", "#a", "a#x", "a\n"] {
        let r = catch(|| Function::new(n, "", vec![], f1, location!()).map(|_| ()));
        println!("name {n:?}: {:?}", r.map(|r| r.map_err(|e| e.to_string().replace('\n', " "))));
    }

    show("use a::b::f", catch(|| Runtime::from_lib(vec![module("a", vec![module("b", vec![fun("f", f1)])]), usei(&["a","b","f"])])), &["fn m() -> u32 { f() }", "fn m() -> u32 { a.b.f() }"]);
    show("use a::f", catch(|| Runtime::from_lib(vec![module("a", vec![fun("f", f1)]), usei(&["a","f"])])), &["fn m() -> u32 { f() }", "fn m() -> u32 { a.f() }"]);
    show("use a::b (module)", catch(|| Runtime::from_lib(vec![module("a", vec![module("b", vec![fun("f", f1)])]), usei(&["a","b"])])), &["fn m() -> u32 { b.f() }"]);
    show("use a::b::f with root b", catch(|| Runtime::from_lib(vec![module("a", vec![module("b", vec![fun("f", f1)])]), module("b", vec![fun("f", f2)]), usei(&["a","b","f"])])), &["fn m() -> u32 { f() }"]);
    show("use []", catch(|| Runtime::from_lib(vec![usei(&[])])), &[]);
    show("use no imports", catch(|| Runtime::from_lib(vec![Item::Use(Use::new(vec![], location!()))])), &[]);
    show("use nope", catch(|| Runtime::from_lib(vec![usei(&["nope"])])), &["fn m() -> u32 { nope() }", "fn m() -> u32 { 1 }"]);
    show("use a::nope", catch(|| Runtime::from_lib(vec![module("a", vec![]), usei(&["a", "nope"])])), &["fn m() -> u32 { nope() }", "fn m() -> u32 { 1 }"]);
    show("use in module", catch(|| Runtime::from_lib(vec![module("a", vec![fun("f", f1)]), module("b", vec![usei(&["a","f"])])])), &["fn m() -> u32 { f() }", "fn m() -> u32 { b.f() }"]);
    show("use in module relative", catch(|| Runtime::from_lib(vec![module("b", vec![module("a", vec![fun("f", f1)]), usei(&["a","f"])])])), &["fn m() -> u32 { f() }", "fn m() -> u32 { b.f() }"]);
    show("use in module abs", catch(|| Runtime::from_lib(vec![module("b", vec![module("a", vec![fun("f", f1)]), usei(&["b", "a","f"])])])), &["fn m() -> u32 { f() }", "fn m() -> u32 { b.f() }"]);
    show("use a::f + root f", catch(|| Runtime::from_lib(vec![module("a", vec![fun("f", f1)]), fun("f", f2), usei(&["a","f"])])), &["fn m() -> u32 { f() }"]);
    show("use f (self)", catch(|| Runtime::from_lib(vec![fun("f", f2), usei(&["f"])])), &["fn m() -> u32 { f() }"]);
    show("use a::f twice", catch(|| Runtime::from_lib(vec![module("a", vec![fun("f", f1)]), usei(&["a","f"]), usei(&["a","f"])])), &[]);
    show("use Option::Some", catch(|| Runtime::from_lib(vec![usei(&["Option","Some"])])), &[]);
    show("use Verdict::Accept", catch(|| Runtime::from_lib(vec![usei(&["Verdict","Accept"])])), &["fn m() -> Verdict[u32, u32] { Accept(1) }"]);
    show("use u32", catch(|| Runtime::from_lib(vec![usei(&["u32"])])), &["fn m() -> u32 { 1 }"]);
    show("é fn", catch(|| Runtime::from_lib(vec![fun("é", f1)])), &["fn m() -> u32 { é() }"]);
    // types
    let ty_a = |n: &str| Item::Type(Type::clone::<Val<A>>(n, "", location!()).unwrap());
    let ty_b = |n: &str| Item::Type(Type::copy::<Val<B>>(n, "", location!()).unwrap());
    show("type twice", catch(|| Runtime::from_lib(vec![ty_a("T"), module("a", vec![ty_a("U")])])), &[]);
    show("fn with unregistered", catch(|| Runtime::from_lib(vec![Item::Function(Function::new("f", "", vec!["x"], |_x: Val<A>| -> u32 { 1 }, location!()).unwrap())])), &[]);
    show("const unregistered", catch(|| Runtime::from_lib(vec![Item::Constant(Constant::new("c", "", Val(A(1)), location!()).unwrap())])), &[]);
    show("impl unregistered", catch(|| Runtime::from_lib(vec![Item::Impl(Impl::new::<Val<A>>(location!()))])), &[]);
    {
        let mut im = Impl::new::<Val<A>>(location!());
        im.add(Function::new("meth", "", vec!["x"], |x: Val<A>| -> u32 { x.0.0 }, location!()).unwrap());
        im.add(Function::new("stat", "", vec![], || -> u32 { 9 }, location!()).unwrap());
        im.add(Constant::new("K", "", 5u32, location!()).unwrap());
        im.add(usei(&["Verdict", "Accept"]));
        show("impl A in module before type", catch(|| Runtime::from_lib(vec![module("a", vec![Item::Impl(im), ty_a("T")])])),
            &["fn m(x: a.T) -> u32 { x.meth() }", "fn m(x: a.T) -> u32 { a.T.meth(x) }", "fn m() -> u32 { a.T.stat() }", "fn m() -> u32 { a.T.K }", "fn m() -> u32 { T.stat() }", "fn m() -> Verdict[u32,u32] { Accept(1) }"]);
    }
    {
        let mut im = Impl::new::<u32>(location!());
        im.add(Function::new("meth", "", vec!["x"], |x: u32| -> u32 { x }, location!()).unwrap());
        im.add(Function::new("stat", "", vec![], || -> u32 { 9 }, location!()).unwrap());
        show("impl u32", catch(|| Runtime::from_lib(vec![Item::Impl(im), ty_b("T")])),
            &["fn m(x: u32) -> u32 { x.meth() }", "fn m() -> u32 { u32.stat() }", "fn m(x: T) -> T { x }"]);
    }
    // use type, use const, use method
    {
        let mut im = Impl::new::<Val<A>>(location!());
        im.add(Function::new("stat", "", vec![], || -> u32 { 9 }, location!()).unwrap());
        show("use a::T, a::T::stat, a::c", catch(|| Runtime::from_lib(vec![module("a", vec![Item::Impl(im), ty_a("T"), Item::Constant(Constant::new("c", "", 7u32, location!()).unwrap())]), usei(&["a", "T"]), usei(&["a", "T", "stat"]), usei(&["a", "c"])])),
            &["fn m(x: T) -> u32 { 1 }", "fn m() -> u32 { stat() }", "fn m() -> u32 { c }", "fn m() -> u32 { T.stat() }"]);
    }
    // second add
    {
        let r = catch(|| { let mut rt = Runtime::new(); rt.add(vec![module("a", vec![fun("f", f1)])])?; rt.add(vec![module("a", vec![fun("g", f2)])])?; Ok(rt) });
        show("two adds same module", r, &[]);
        let r = catch(|| { let mut rt = Runtime::new(); rt.add(vec![usei(&["a", "f"]), module("a", vec![fun("f", f1)])])?; rt.add(vec![fun("f", f2)])?; Ok(rt) });
        show("add2 declares over import", r, &["fn m() -> u32 { f() }"]);
    }
}
