//! Impl-target configurations: the TARGET TYPE of an impl block ranges over
//! every primitive, `()`, a registered / unregistered `Val` type and every
//! built-in compound constructor (Option, List, Result, Verdict — nested
//! once) applied to primitive / registered / unregistered components.
//!
//! Reference (documentation of `library!`, `Impl`, `Runtime::add`; property
//! statement "fails when an impl block mentions an unregistered type";
//! `Type::clone/copy` refuse to register Option/List/Result/Verdict): an impl
//! block is accepted iff its target is a REGISTERED type — a built-in
//! primitive or a `Val<T>` registered earlier or anywhere in the same add.
//! `Option<u32>`, `List<Val<A>>`, `()`... are not registered types, whatever
//! their components are. After Ok the block's item is reachable at
//! `<Roto name of the target>.<name>` (and `x.<name>()` for a method) and at
//! no built-in generic type's path (`Option.<name>`, `List.<name>`,
//! `x.<name>()` on an Option / List / Result / Verdict value), nor in the
//! root or in the module the block is written in.

use crate::probe::{self, Got, Sig};
use crate::real::{self, A, B, Obs};
use crate::space::R;
use inetnum::{addr::Prefix, asn::Asn};
use roto::{
    Constant, Function, Impl, Item, List, Module, RegistrationError, RotoString, Type, Val, Verdict,
    location,
};
use std::net::IpAddr;
use vcore::{Cx, Value, json};

#[derive(Clone, Copy, Debug, PartialEq, Eq)]
pub enum Kind {
    /// an empty impl block
    Empty,
    /// one function whose first parameter is the target type
    Method,
    /// one function without parameters
    Static,
    /// one `u32` constant
    Const,
}
const KINDS: [Kind; 4] = [Kind::Empty, Kind::Method, Kind::Static, Kind::Const];

pub struct Target {
    /// Rust type as written
    pub rust: String,
    /// Roto name if the type is a built-in primitive
    pub primitive: Option<&'static str>,
    /// a literal of the primitive
    pub literal: &'static str,
    /// the target IS this Val type
    pub val: Option<R>,
    /// the target is a compound type (or `()`), never a registered type
    pub compound: bool,
    /// the Val type the target is or contains
    pub mentions: Option<R>,
    mk: fn(Kind, u32) -> Result<Item, RegistrationError>,
}

const NAME: &str = "a";
const TAG: u32 = 4242;

macro_rules! mk {
    ($t:ty) => {
        |kind: Kind, tag: u32| -> Result<Item, RegistrationError> {
            let mut im = Impl::new::<$t>(location!());
            match kind {
                Kind::Empty => {}
                Kind::Method => {
                    im.add(Function::new(NAME, "", vec!["x"], move |_x: $t| -> u32 { tag }, location!())?)
                }
                Kind::Static => im.add(Function::new(NAME, "", vec![], move || -> u32 { tag }, location!())?),
                Kind::Const => im.add(Constant::new(NAME, "", tag, location!())?),
            }
            Ok(Item::Impl(im))
        }
    };
}

fn clean(s: &str) -> String {
    s.replace(' ', "")
}

macro_rules! prim {
    ($v:ident, $t:ty, $roto:expr, $lit:expr) => {
        $v.push(Target {
            rust: clean(stringify!($t)),
            primitive: Some($roto),
            literal: $lit,
            val: None,
            compound: false,
            mentions: None,
            mk: mk!($t),
        });
    };
}
macro_rules! comp {
    ($v:ident, $t:ty, $m:expr) => {
        $v.push(Target {
            rust: clean(stringify!($t)),
            primitive: None,
            literal: "",
            val: None,
            compound: true,
            mentions: $m,
            mk: mk!($t),
        });
    };
}
macro_rules! outer {
    ($v:ident, $x:ty, $m:expr) => {
        comp!($v, Option<$x>, $m);
        comp!($v, List<$x>, $m);
        comp!($v, Result<$x, bool>, $m);
        comp!($v, Result<bool, $x>, $m);
        comp!($v, Verdict<$x, bool>, $m);
        comp!($v, Verdict<bool, $x>, $m);
    };
}
macro_rules! nested {
    ($v:ident, $c:ty, $m:expr) => {
        outer!($v, Option<$c>, $m);
        outer!($v, List<$c>, $m);
        outer!($v, Result<$c, bool>, $m);
        outer!($v, Verdict<$c, bool>, $m);
    };
}

pub fn targets() -> Vec<Target> {
    let mut v: Vec<Target> = vec![];
    // every primitive of the default runtime that has a public Rust type
    prim!(v, bool, "bool", "true");
    prim!(v, u8, "u8", "1");
    prim!(v, u16, "u16", "1");
    prim!(v, u32, "u32", "1");
    prim!(v, u64, "u64", "1");
    prim!(v, i8, "i8", "1");
    prim!(v, i16, "i16", "1");
    prim!(v, i32, "i32", "1");
    prim!(v, i64, "i64", "1");
    prim!(v, f32, "f32", "1.0");
    prim!(v, f64, "f64", "1.0");
    prim!(v, char, "char", "'c'");
    prim!(v, RotoString, "String", "\"s\"");
    prim!(v, Asn, "Asn", "AS1");
    prim!(v, IpAddr, "IpAddr", "1.1.1.1");
    prim!(v, Prefix, "Prefix", "1.1.1.0 / 24");
    // the Val types, registered or not
    v.push(Target {
        rust: "Val<A>".into(),
        primitive: None,
        literal: "",
        val: Some(R::A),
        compound: false,
        mentions: Some(R::A),
        mk: mk!(Val<A>),
    });
    v.push(Target {
        rust: "Val<B>".into(),
        primitive: None,
        literal: "",
        val: Some(R::B),
        compound: false,
        mentions: Some(R::B),
        mk: mk!(Val<B>),
    });
    // the unit type is not a registered type either
    comp!(v, (), None);
    // compound constructors over primitive / Val components
    outer!(v, u32, None);
    outer!(v, bool, None);
    outer!(v, RotoString, None);
    outer!(v, Val<A>, Some(R::A));
    outer!(v, Val<B>, Some(R::B));
    // nested once
    nested!(v, u32, None);
    nested!(v, Val<A>, Some(R::A));
    nested!(v, Val<B>, Some(R::B));
    v
}

/// How the Val type the target mentions is registered
const MODES: [&str; 5] = [
    "not registered",
    "registered in the same add, before the impl block",
    "registered in the same add, after the impl block",
    "registered by an earlier add",
    "registered by a later add",
];

const TARGETS_PER_UNIT: usize = 8;

pub fn n_units() -> usize {
    targets().len().div_ceil(TARGETS_PER_UNIT)
}

#[derive(Clone, Copy, Debug)]
struct Config {
    target: usize,
    kind: Kind,
    /// the impl block is written inside `mod m { .. }`
    in_module: bool,
    mode: usize,
}

fn radices(t: &Target) -> [u64; 3] {
    [KINDS.len() as u64, 2, if t.mentions.is_some() { MODES.len() as u64 } else { 1 }]
}

fn decode(ts: &[Target], unit_off: usize, sub: u64) -> Option<Config> {
    let target = unit_off * TARGETS_PER_UNIT + (sub >> 16) as usize;
    let t = ts.get(target)?;
    let r = radices(t);
    let idx = sub & 0xffff;
    if idx >= r.iter().product::<u64>() {
        return None;
    }
    let d = vcore::util::decode(idx, &r);
    Some(Config { target, kind: KINDS[d[0] as usize], in_module: d[1] == 1, mode: d[2] as usize })
}

fn type_item(r: R) -> Result<Item, RegistrationError> {
    Ok(match r {
        R::A => Item::Type(Type::clone::<Val<A>>("T", "", location!())?),
        R::B => Item::Type(Type::copy::<Val<B>>("T", "", location!())?),
        R::U => unreachable!(),
    })
}

/// The adds of a configuration, as real items
fn build(t: &Target, c: &Config) -> Result<Vec<Vec<Item>>, RegistrationError> {
    let block = (t.mk)(c.kind, TAG)?;
    let block = if c.in_module {
        let mut m = Module::new("m", "", location!())?;
        m.add(block);
        Item::Module(m)
    } else {
        block
    };
    Ok(match (t.mentions, c.mode) {
        (None, _) | (_, 0) => vec![vec![block]],
        (Some(r), 1) => vec![vec![type_item(r)?, block]],
        (Some(r), 2) => vec![vec![block, type_item(r)?]],
        (Some(r), 3) => vec![vec![type_item(r)?], vec![block]],
        (Some(r), _) => vec![vec![block], vec![type_item(r)?]],
    })
}

fn code(t: &Target, c: &Config) -> String {
    let item = match c.kind {
        Kind::Empty => String::new(),
        Kind::Method => format!(
            " i.add(Function::new(\"{NAME}\", \"\", vec![\"x\"], |_x: {}| -> u32 {{ {TAG} }}, location!())?);",
            t.rust
        ),
        Kind::Static => {
            format!(" i.add(Function::new(\"{NAME}\", \"\", vec![], || -> u32 {{ {TAG} }}, location!())?);")
        }
        Kind::Const => format!(" i.add(Constant::new(\"{NAME}\", \"\", {TAG}u32, location!())?);"),
    };
    let block = format!("{{ let mut i = Impl::new::<{}>(location!());{item} Item::Impl(i) }}", t.rust);
    let block = if c.in_module {
        format!("{{ let mut m = Module::new(\"m\", \"\", location!())?; m.add({block}); Item::Module(m) }}")
    } else {
        block
    };
    let ty = |r: R| match r {
        R::A => "Item::Type(Type::clone::<Val<A>>(\"T\", \"\", location!())?)".to_string(),
        _ => "Item::Type(Type::copy::<Val<B>>(\"T\", \"\", location!())?)".to_string(),
    };
    let adds: Vec<Vec<String>> = match (t.mentions, c.mode) {
        (None, _) | (_, 0) => vec![vec![block]],
        (Some(r), 1) => vec![vec![ty(r), block]],
        (Some(r), 2) => vec![vec![block, ty(r)]],
        (Some(r), 3) => vec![vec![ty(r)], vec![block]],
        (Some(r), _) => vec![vec![block], vec![ty(r)]],
    };
    let mut s = String::from("let mut rt = Runtime::new();\n");
    for a in adds {
        s.push_str("rt.add(vec![\n");
        for i in a {
            s.push_str(&format!("    {i},\n"));
        }
        s.push_str("])?;\n");
    }
    s
}

/// Model: Ok/Err of every add that is reached
fn predict(t: &Target, c: &Config) -> Vec<bool> {
    // is the target a registered type when the impl block is added?
    let registered = |val_registered: bool| -> bool {
        if t.compound {
            false
        } else if t.primitive.is_some() {
            true
        } else {
            val_registered
        }
    };
    match (t.mentions, c.mode) {
        (None, _) | (_, 0) => vec![registered(false)],
        (_, 1) | (_, 2) => vec![registered(true)],
        (_, 3) => vec![true, registered(true)],
        // the impl block comes first and fails; the history stops there
        _ => vec![registered(false)],
    }
}

struct P {
    src: String,
    sig: Sig,
    /// None: must be a compile error
    expect: Option<String>,
    path: String,
}

/// Roto path of a registered target
fn roto_path(t: &Target) -> Option<String> {
    if let Some(p) = t.primitive {
        Some(p.to_string())
    } else if t.val.is_some() {
        Some("T".into())
    } else {
        None
    }
}

/// Where the item of the block must be reachable (registered targets only)
fn positive_probes(t: &Target, c: &Config) -> Vec<P> {
    let Some(tp) = roto_path(t) else { return vec![] };
    let e = Some(TAG.to_string());
    let sig = match t.val {
        Some(R::A) => Sig::UA,
        Some(R::B) => Sig::UB,
        _ => Sig::U0,
    };
    match c.kind {
        Kind::Empty => vec![],
        Kind::Static => vec![P {
            src: format!("fn q0() -> u32 {{ {tp}.{NAME}() }}\n"),
            sig: Sig::U0,
            expect: e,
            path: format!("{tp}.{NAME}"),
        }],
        Kind::Const => vec![P {
            src: format!("fn q0() -> u32 {{ {tp}.{NAME} }}\n"),
            sig: Sig::U0,
            expect: e,
            path: format!("{tp}.{NAME}"),
        }],
        Kind::Method => {
            let (head, bind) = if t.val.is_some() {
                (format!("(x: {tp}) -> u32"), String::new())
            } else {
                ("() -> u32".to_string(), format!("let x: {tp} = {}; ", t.literal))
            };
            vec![
                P {
                    src: format!("fn q0{head} {{ {bind}x.{NAME}() }}\n"),
                    sig,
                    expect: e.clone(),
                    path: format!("x.{NAME}() with x: {tp}"),
                },
                P {
                    src: format!("fn q1{head} {{ {bind}{tp}.{NAME}(x) }}\n"),
                    sig,
                    expect: e,
                    path: format!("{tp}.{NAME}(x)"),
                },
            ]
        }
    }
}

/// Paths nobody declared: the built-in generic types, the root, the module
fn negative_probes(c: &Config) -> Vec<P> {
    let mut v = vec![];
    let generic = [
        ("Option", "Option[u32]"),
        ("List", "List[u32]"),
        ("Result", "Result[u32, bool]"),
        ("Verdict", "Verdict[u32, bool]"),
    ];
    let mut scopes: Vec<String> = generic.iter().map(|g| format!("{}.", g.0)).collect();
    scopes.push(String::new()); // the root
    if c.in_module {
        scopes.push("m.".into());
    }
    for s in &scopes {
        let path = format!("{s}{NAME}");
        match c.kind {
            Kind::Empty => {}
            Kind::Static => v.push(P {
                src: format!("fn q0() -> u32 {{ {path}() }}\n"),
                sig: Sig::U0,
                expect: None,
                path,
            }),
            Kind::Const => v.push(P {
                src: format!("fn q0() -> u32 {{ {path} }}\n"),
                sig: Sig::U0,
                expect: None,
                path,
            }),
            Kind::Method => {}
        }
    }
    if c.kind == Kind::Method {
        for (g, ty) in generic {
            v.push(P {
                src: format!("fn q0(x: {ty}) -> u32 {{ x.{NAME}() }}\n"),
                sig: Sig::U0,
                expect: None,
                path: format!("x.{NAME}() with x: {ty}"),
            });
            v.push(P {
                src: format!("fn q0(x: {ty}) -> u32 {{ {g}.{NAME}(x) }}\n"),
                sig: Sig::U0,
                expect: None,
                path: format!("{g}.{NAME}(x)"),
            });
        }
    }
    v
}

fn run_probe(rt: &roto::Runtime<roto::NoCtx>, p: &P) -> Got {
    match probe::compile(rt, &p.src) {
        Err(g) => g,
        Ok(mut pkg) => {
            if p.expect.is_none() {
                // a negative probe compiled: that is the observation
                return Got::Value("compiles".into());
            }
            let name = if p.src.starts_with("fn q1") { "q1" } else { "q0" };
            match vcore::util::catch(|| probe::call(&mut pkg, name, p.sig, 7)) {
                Ok(Ok(v)) => Got::Value(v),
                Ok(Err(e)) => Got::CallError(e),
                Err(p) => Got::Panic(p),
            }
        }
    }
}

fn case_json(t: &Target, c: &Config, pred: &[bool]) -> Value {
    json!({
        "family": "impl-target",
        "library": code(t, c),
        "impl_target": t.rust,
        "impl_target_is": if t.compound { "a compound / unit type (never a registered type)" }
                          else if t.primitive.is_some() { "a built-in primitive" } else { "a Val type" },
        "block_item": format!("{:?}", c.kind),
        "block_in_module": c.in_module,
        "val_type": MODES[c.mode],
        "uses": [],
        "invalid_names": [],
        "type_names": [],
        "model_defects": [],
        "model": pred.iter().enumerate().map(|(i, ok)| format!("add#{}: {}", i + 1, if *ok { "Ok" } else { "Err" })).collect::<Vec<_>>().join(", "),
    })
}

fn steps(pred: &[bool]) -> Value {
    let mut s = vec!["ok"];
    s.extend(pred.iter().map(|b| if *b { "ok" } else { "err" }));
    json!({"summary": pred.iter().enumerate().map(|(i, ok)| format!("add#{}: {}", i + 1, if *ok { "Ok" } else { "Err" })).collect::<Vec<_>>().join(", "),
           "steps": s})
}

pub fn describe(unit_off: usize, sub: u64) -> Value {
    let ts = targets();
    match decode(&ts, unit_off, sub) {
        Some(c) => {
            let t = &ts[c.target];
            case_json(t, &c, &predict(t, &c))
        }
        None => json!({"family": "impl-target", "sub": sub.to_string()}),
    }
}

pub fn run(unit_off: usize, cx: &mut Cx) {
    let ts = targets();
    for off in 0..TARGETS_PER_UNIT {
        let Some(t) = ts.get(unit_off * TARGETS_PER_UNIT + off) else { break };
        let n: u64 = radices(t).iter().product();
        for idx in 0..n {
            let sub = ((off as u64) << 16) | idx;
            let Some(c) = decode(&ts, unit_off, sub) else { continue };
            cx.states(1);
            if t.compound || c.kind != Kind::Empty {
                cx.nontrivial(vcore::util::mix(0x1817, (c.target as u64) << 16 | idx));
            }
            if !cx.case(sub) {
                continue;
            }
            let pred = predict(t, &c);
            // implementation
            let mut obs = Obs { construct: Ok(()), adds: vec![], panic: None };
            let mut rt = None;
            match vcore::util::catch(|| build(t, &c)) {
                Err(p) => obs.panic = Some(p),
                Ok(Err(e)) => obs.construct = Err(e.to_string().lines().nth(1).unwrap_or("").trim().to_string()),
                Ok(Ok(adds)) => {
                    let mut r = real::fresh_runtime();
                    let mut all = true;
                    for a in adds {
                        match vcore::util::catch(|| r.add(a)) {
                            Err(p) => {
                                obs.panic = Some(p);
                                all = false;
                                break;
                            }
                            Ok(Err(e)) => {
                                obs.adds.push(Err(e.to_string().lines().nth(1).unwrap_or("").trim().to_string()));
                                all = false;
                                break;
                            }
                            Ok(Ok(())) => obs.adds.push(Ok(())),
                        }
                    }
                    if all {
                        rt = Some(r);
                    }
                }
            }
            cx.transitions(1);
            cx.validated(1);
            cx.count("impl_target_configurations", 1);
            let mut sig = vcore::util::fnv_str(&format!("{:?}", obs.shape()));
            let have: Vec<bool> = obs.adds.iter().map(|a| a.is_ok()).collect();
            let mut case = case_json(t, &c, &pred);
            if obs.panic.is_some() {
                cx.violation("panic", sub, case, steps(&pred), obs.json());
                cx.outcome(sig);
                continue;
            }
            let agree = obs.construct.is_ok() && have == pred;
            // probes: after every completely successful history
            let mut probes = vec![];
            if let Some(rt) = &rt {
                if agree {
                    probes.extend(positive_probes(t, &c));
                }
                probes.extend(negative_probes(&c));
                if !agree && t.compound {
                    // what the unexpected Ok makes reachable (reported with the add-result violation)
                    if c.kind == Kind::Method && t.rust != "()" {
                        // the target spelled in Roto: Option<Val<A>> -> Option[T]
                        let ty = t
                            .rust
                            .replace("Val<A>", "T")
                            .replace("Val<B>", "T")
                            .replace("RotoString", "String")
                            .replace('<', "[")
                            .replace('>', "]")
                            .replace(',', ", ");
                        let g = ty.split('[').next().unwrap_or("").to_string();
                        probes.push(P {
                            src: format!("fn q0(x: {ty}) -> u32 {{ x.{NAME}() }}\n"),
                            sig: Sig::U0,
                            expect: None,
                            path: format!("x.{NAME}() with x: {ty}"),
                        });
                        probes.push(P {
                            src: format!("fn q0(x: {ty}) -> u32 {{ {g}.{NAME}(x) }}\n"),
                            sig: Sig::U0,
                            expect: None,
                            path: format!("{g}.{NAME}(x) with x: {ty}"),
                        });
                    }
                    let mut reach = vec![];
                    for p in &probes {
                        if let Got::Value(_) = run_probe(rt, p) {
                            reach.push(json!({"path": p.path, "script": p.src}));
                        }
                    }
                    case["reachable_at_undeclared_paths"] = json!(reach);
                }
            }
            if !agree {
                cx.violation("add-result", sub, case.clone(), steps(&pred), obs.json());
            }
            if let (Some(rt), true) = (&rt, agree) {
                for p in &probes {
                    let g = run_probe(rt, p);
                    sig = vcore::util::mix(sig, vcore::util::fnv_str(&format!("{}|{g:?}", p.path)));
                    cx.count(if p.expect.is_some() { "impl_target_probes_positive" } else { "impl_target_probes_negative" }, 1);
                    let class = match (&p.expect, &g) {
                        (_, Got::Panic(_)) => "compile-panic",
                        (Some(e), Got::Value(v)) if e == v => continue,
                        (Some(_), Got::Value(_)) => "wrong-item",
                        (Some(_), _) => "unreachable",
                        (None, Got::CompileError(_)) => continue,
                        (None, _) => "reachable-at-undeclared-path",
                    };
                    let mut c2 = case.clone();
                    c2["probe"] = json!({"script": p.src, "path": p.path, "negative": p.expect.is_none(),
                                         "what": "impl block item", "at_root": false});
                    let expected = match &p.expect {
                        Some(e) => json!(e),
                        None => json!("a compile error: nobody declared anything at this path"),
                    };
                    cx.violation(class, sub, c2, expected, json!(format!("{g:?}")));
                }
            }
            cx.outcome(sig);
            if idx == 1 && off == 0 {
                cx.sample(json!({"library": code(t, &c), "model": steps(&pred)["summary"]}));
            }
        }
    }
}
