//! Hand-written registration histories beyond the enumerated item trees
//! (they need more than 4 items or constructs the tree alphabet does not
//! have). Every base library is run in every permutation of its top-level
//! items and in every distribution over 1-2 adds, judged by the same model
//! and probes as the enumerated libraries.
//!
//! * type names: a registered type named like every built-in type of the
//!   root (primitives, List, Option, Result, Verdict) or a fresh name, in
//!   the root or in a module, with and without an impl block, next to a
//!   function whose signature mentions the type;
//! * a `use` inside an impl block;
//! * a `use` whose path goes through a name another `use` brought in.

use crate::macros::{named, us};
use crate::model::{self, BUILTIN_TYPE_NAMES};
use crate::space::{CItem, K, Lib, R, Target, factorial, nth_perm};
use crate::{lib_code, lib_json, run_permutations};
use vcore::{Cx, Value, json};

pub struct Base {
    pub family: &'static str,
    pub items: Vec<CItem>,
}

fn impl_use(id: usize, r: R, path: &[&str]) -> CItem {
    CItem {
        id,
        k: K::ImplUse(r),
        name: String::new(),
        path: path.iter().map(|s| s.to_string()).collect(),
        target: Some(Target::Missing),
        ch: vec![],
    }
}

pub fn bases() -> Vec<Base> {
    let mut v = vec![];
    // ---- type names
    let mut names: Vec<&str> = BUILTIN_TYPE_NAMES.to_vec();
    names.extend(["Option", "Result", "Verdict", "Zed"]);
    for name in names {
        for in_module in [false, true] {
            for with_impl in [false, true] {
                let ty = named(1, K::Ty(R::A), name, vec![]);
                let mut items =
                    vec![if in_module { named(0, K::Mod, "net", vec![ty]) } else { ty }];
                // a function whose signature mentions the type
                items.push(named(2, K::Fn(R::A), "f", vec![]));
                if with_impl {
                    items.push(named(3, K::Stat(R::A), "s", vec![]));
                }
                v.push(Base { family: "type-name", items });
            }
        }
    }
    // ---- use inside an impl block
    let f = |items: Vec<CItem>| Base { family: "use-in-impl", items };
    v.push(f(vec![
        named(0, K::Ty(R::A), "T", vec![]),
        named(1, K::Mod, "m", vec![named(2, K::Fn(R::U), "g", vec![])]),
        impl_use(3, R::A, &["m", "g"]),
    ]));
    v.push(f(vec![
        named(1, K::Mod, "m", vec![named(2, K::Fn(R::U), "g", vec![])]),
        impl_use(3, R::U, &["m", "g"]),
    ]));
    v.push(f(vec![
        named(0, K::Ty(R::A), "T", vec![]),
        named(2, K::Fn(R::U), "g", vec![]),
        impl_use(3, R::A, &["g"]),
    ]));
    v.push(f(vec![
        named(0, K::Ty(R::B), "T", vec![]),
        named(1, K::Mod, "m", vec![named(2, K::Const(R::U), "c", vec![])]),
        impl_use(3, R::B, &["m", "c"]),
    ]));
    v.push(f(vec![named(0, K::Ty(R::A), "T", vec![]), impl_use(3, R::A, &["Verdict", "Accept"])]));
    v.push(f(vec![named(0, K::Ty(R::A), "T", vec![]), impl_use(3, R::A, &["does", "not", "exist"])]));
    // ---- use through a use
    let f = |items: Vec<CItem>| Base { family: "use-through-use", items };
    v.push(f(vec![
        named(0, K::Mod, "a", vec![named(1, K::Mod, "b", vec![named(2, K::Fn(R::U), "f", vec![])])]),
        us(3, &["a", "b"]),
        us(4, &["b", "f"]),
    ]));
    v.push(f(vec![
        named(0, K::Mod, "a", vec![named(1, K::Mod, "b", vec![named(2, K::Const(R::U), "c", vec![])])]),
        us(3, &["a", "b"]),
        us(4, &["b", "c"]),
    ]));
    v.push(f(vec![
        named(0, K::Mod, "a", vec![named(1, K::Ty(R::A), "T", vec![])]),
        named(2, K::Stat(R::A), "n", vec![]),
        us(3, &["a", "T"]),
        us(4, &["T", "n"]),
    ]));
    v.push(f(vec![
        named(0, K::Mod, "a", vec![named(1, K::Mod, "b", vec![named(2, K::Ty(R::B), "T", vec![])])]),
        us(3, &["a", "b"]),
        us(4, &["b", "T"]),
    ]));
    v
}

const BASES_PER_UNIT: usize = 10;

pub fn n_units() -> usize {
    bases().len().div_ceil(BASES_PER_UNIT)
}

fn n_splits(b: &Base) -> u64 {
    let t = b.items.len();
    if t < 2 { 1 } else { (1u64 << t) - 1 }
}

fn parts(b: &Base, split: u64) -> (Vec<usize>, Vec<usize>) {
    let mut x = vec![];
    let mut y = vec![];
    for i in 0..b.items.len() {
        if split >> i & 1 == 1 { y.push(i) } else { x.push(i) }
    }
    (x, y)
}

fn n_perms(b: &Base, split: u64) -> u64 {
    let (x, y) = parts(b, split);
    factorial(x.len()) * factorial(y.len())
}

fn lib_of(b: &Base, split: u64, perm: u64) -> Lib {
    let (x, y) = parts(b, split);
    let d = vcore::util::decode(perm, &[factorial(x.len()), factorial(y.len())]);
    let pick = |v: &[usize], k: u64| -> Vec<CItem> {
        nth_perm(v.len(), k).into_iter().map(|i| b.items[v[i]].clone()).collect()
    };
    let mut adds = vec![pick(&x, d[0])];
    if !y.is_empty() {
        adds.push(pick(&y, d[1]));
    }
    Lib { adds }
}

fn encode(off: usize, split: u64, perm: u64) -> u64 {
    ((off as u64) << 32) | (split << 16) | perm
}

pub fn describe(unit_off: usize, sub: u64) -> Value {
    let bs = bases();
    let i = unit_off * BASES_PER_UNIT + (sub >> 32) as usize;
    let (split, perm) = ((sub >> 16) & 0xffff, sub & 0xffff);
    match bs.get(i) {
        Some(b) if split < n_splits(b) && perm < n_perms(b, split) => {
            let lib = lib_of(b, split, perm);
            let pred = model::predict(&lib);
            let mut c = lib_json(&lib, &pred);
            c["family"] = json!(b.family);
            c
        }
        _ => json!({"family": "hand-written", "sub": sub.to_string()}),
    }
}

pub fn run(unit_off: usize, cx: &mut Cx) {
    let bs = bases();
    for off in 0..BASES_PER_UNIT {
        let Some(b) = bs.get(unit_off * BASES_PER_UNIT + off) else { break };
        for split in 0..n_splits(b) {
            cx.states(1);
            cx.nontrivial(vcore::util::mix(0x18e, encode(unit_off * BASES_PER_UNIT + off, split, 0)));
            cx.count("hand_written_histories", 1);
            if split == 0 && off == 0 {
                let lib = lib_of(b, 0, 0);
                cx.sample(json!({"library": lib_code(&lib), "model": model::predict(&lib).summary()}));
            }
            run_permutations(
                cx,
                n_perms(b, split),
                &|perm| encode(off, split, perm),
                &|perm| lib_of(b, split, perm),
                &[("family", json!(b.family))],
            );
        }
    }
}
