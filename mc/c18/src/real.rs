//! The implementation side: build the literal library with the non-macro API
//! and feed it to `Runtime::add`.

use crate::space::{CItem, K, Lib, R};
use roto::{
    Constant, Function, Impl, Item, Module, NoCtx, RegistrationError, Runtime, Type, Use, Val,
    location,
};
use std::cell::RefCell;

#[derive(Clone, PartialEq, Debug)]
pub struct A(pub u32);
#[derive(Clone, Copy, PartialEq, Debug)]
pub struct B(pub u32);

thread_local! {
    static BASE: RefCell<Option<Runtime<NoCtx>>> = const { RefCell::new(None) };
}

/// Build the per-process default runtime; Err(panic message) if `Runtime::new()` panics
pub fn base_runtime() -> Result<(), String> {
    BASE.with(|b| {
        let mut b = b.borrow_mut();
        if b.is_none() {
            *b = Some(vcore::util::catch(Runtime::new)?);
        }
        Ok(())
    })
}

/// A fresh default runtime (`Runtime::new()`, cloned from a per-process copy)
pub fn fresh_runtime() -> Runtime<NoCtx> {
    BASE.with(|b| b.borrow().as_ref().expect("base_runtime() first").clone())
}

pub fn build_item(it: &CItem) -> Result<Item, RegistrationError> {
    let tag = it.tag();
    let name = it.name.as_str();
    Ok(match it.k {
        K::Mod => {
            let mut m = Module::new(name, "", location!())?;
            let mut ch = vec![];
            for c in &it.ch {
                ch.push(build_item(c)?);
            }
            m.add(ch);
            Item::Module(m)
        }
        K::Ty(R::A) => Item::Type(Type::clone::<Val<A>>(name, "", location!())?),
        K::Ty(R::B) => Item::Type(Type::copy::<Val<B>>(name, "", location!())?),
        K::Ty(R::U) => unreachable!(),
        K::Fn(R::U) => {
            Item::Function(Function::new(name, "", vec![], move || -> u32 { tag }, location!())?)
        }
        K::Fn(R::A) => Item::Function(Function::new(
            name,
            "",
            vec!["x"],
            move |x: Val<A>| -> u32 { tag + x.0.0 },
            location!(),
        )?),
        K::Fn(R::B) => Item::Function(Function::new(
            name,
            "",
            vec!["x"],
            move |x: Val<B>| -> u32 { tag + x.0.0 },
            location!(),
        )?),
        K::Meth(r) => {
            let f = match r {
                R::U => Function::new(name, "", vec!["x"], move |x: u32| -> u32 { tag + x }, location!())?,
                R::A => Function::new(
                    name,
                    "",
                    vec!["x"],
                    move |x: Val<A>| -> u32 { tag + x.0.0 },
                    location!(),
                )?,
                R::B => Function::new(
                    name,
                    "",
                    vec!["x"],
                    move |x: Val<B>| -> u32 { tag + x.0.0 },
                    location!(),
                )?,
            };
            let mut im = impl_for(r);
            im.add(f);
            Item::Impl(im)
        }
        K::Stat(r) => {
            let f = Function::new(name, "", vec![], move || -> u32 { tag }, location!())?;
            let mut im = impl_for(r);
            im.add(f);
            Item::Impl(im)
        }
        K::Const(R::U) => Item::Constant(Constant::new(name, "", tag, location!())?),
        K::Const(R::A) => Item::Constant(Constant::new(name, "", Val(A(tag)), location!())?),
        K::Const(R::B) => Item::Constant(Constant::new(name, "", Val(B(tag)), location!())?),
        K::Use => Item::Use(Use::new(vec![it.path.clone()], location!())),
        K::ImplUse(r) => {
            let mut im = impl_for(r);
            im.add(Use::new(vec![it.path.clone()], location!()));
            Item::Impl(im)
        }
    })
}

fn impl_for(r: R) -> Impl {
    match r {
        R::U => Impl::new::<u32>(location!()),
        R::A => Impl::new::<Val<A>>(location!()),
        R::B => Impl::new::<Val<B>>(location!()),
    }
}

/// What the implementation did with a registration history
#[derive(Clone, Debug, PartialEq, Eq)]
pub struct Obs {
    /// Err(message) of the first failing item constructor
    pub construct: Result<(), String>,
    /// result of every add that was reached (stops after the first Err)
    pub adds: Vec<Result<(), String>>,
    /// a panic anywhere (message @ location)
    pub panic: Option<String>,
}

impl Obs {
    pub fn all_ok(&self) -> bool {
        self.panic.is_none() && self.construct.is_ok() && self.adds.iter().all(|a| a.is_ok())
    }
    pub fn summary(&self) -> String {
        if let Some(p) = &self.panic {
            return format!("PANIC: {p}");
        }
        if let Err(e) = &self.construct {
            return format!("Err from an item constructor: {e}");
        }
        self.adds
            .iter()
            .enumerate()
            .map(|(i, r)| match r {
                Ok(()) => format!("add#{}: Ok", i + 1),
                Err(e) => format!("add#{}: Err({e})", i + 1),
            })
            .collect::<Vec<_>>()
            .join(", ")
    }
    /// {"summary", "steps": ["ok"|"err"|"panic" for the constructors, add#1, add#2], "error"}
    pub fn json(&self) -> vcore::Value {
        let mut steps: Vec<&str> = vec![if self.construct.is_ok() { "ok" } else { "err" }];
        for a in &self.adds {
            steps.push(if a.is_ok() { "ok" } else { "err" });
        }
        if self.panic.is_some() {
            if self.construct.is_ok() && self.adds.is_empty() && steps.len() == 1 {
                // a panic in a constructor or in the first add: both are "the next step"
            }
            steps.push("panic");
        }
        let error = match (&self.panic, &self.construct) {
            (Some(p), _) => p.clone(),
            (None, Err(e)) => e.clone(),
            _ => self.adds.iter().find_map(|a| a.clone().err()).unwrap_or_default(),
        };
        vcore::json!({"summary": self.summary(), "steps": steps, "error": error})
    }
    /// Ok/Err shape only (messages and locations are not part of the property)
    pub fn shape(&self) -> (bool, Vec<bool>, bool) {
        (self.construct.is_ok(), self.adds.iter().map(|a| a.is_ok()).collect(), self.panic.is_some())
    }
}

fn message(e: &RegistrationError) -> String {
    // "Registration Error:\n\t<message>\n\tdefined at: <loc>"
    let s = e.to_string();
    s.lines().nth(1).unwrap_or("").trim().to_string()
}

/// Construct all items, then run the adds on a fresh runtime.
pub fn register(lib: &Lib) -> (Obs, Option<Runtime<NoCtx>>) {
    let mut obs = Obs { construct: Ok(()), adds: vec![], panic: None };
    let built = vcore::util::catch(|| {
        let mut adds = vec![];
        for a in &lib.adds {
            let mut v = vec![];
            for it in a {
                v.push(build_item(it)?);
            }
            adds.push(v);
        }
        Ok::<_, RegistrationError>(adds)
    });
    let adds = match built {
        Err(p) => {
            obs.panic = Some(p);
            return (obs, None);
        }
        Ok(Err(e)) => {
            obs.construct = Err(message(&e));
            return (obs, None);
        }
        Ok(Ok(a)) => a,
    };
    let mut rt = fresh_runtime();
    for a in adds {
        match vcore::util::catch(|| rt.add(a)) {
            Err(p) => {
                obs.panic = Some(p);
                return (obs, None);
            }
            Ok(Err(e)) => {
                // the runtime is handed back: an add that returned Err must
                // have left it as it was
                obs.adds.push(Err(message(&e)));
                return (obs, Some(rt));
            }
            Ok(Ok(())) => obs.adds.push(Ok(())),
        }
    }
    (obs, Some(rt))
}
