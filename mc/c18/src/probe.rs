//! Script probes: after a successful registration, one generated Roto function
//! per (path, item) the model says is bound — it must compile and return the
//! item's tag — and one per (path, item) the model says is NOT bound — it
//! must be rejected by the compiler (no panic).

use crate::model::{Den, ScopeKey, State};
use crate::real::{A, B};
use crate::space::{K, R, tag_of};
use roto::{NoCtx, Package, Runtime, TypedFunc, Val, Verdict};

#[derive(Clone, Copy, Debug, PartialEq, Eq)]
pub enum Sig {
    /// fn() -> u32
    U0,
    /// fn(u32) -> u32, fn(Val<A>) -> u32, fn(Val<B>) -> u32: called with 1000
    UU,
    UA,
    UB,
    /// fn(Val<A>) -> Val<A>, fn(Val<B>) -> Val<B>: called with the tag
    AA,
    BB,
    /// fn() -> Val<A>, fn() -> Val<B>
    A0,
    B0,
    /// fn() -> Verdict<u32, u32>
    V0,
}

#[derive(Clone, Debug)]
pub struct Probe {
    pub src: String,
    pub sig: Sig,
    /// expected result rendered as text
    pub expect: String,
    /// true: the path must not resolve (compile error expected)
    pub negative: bool,
    /// true: nothing is expected except that the compiler does not panic
    pub no_panic_only: bool,
    /// the path that is probed
    pub path: String,
    /// the item the probe is about (skeleton node id), if any
    pub item: Option<usize>,
    /// the use declaration that makes the path (or, for a negative probe, that must not make it)
    pub via_use: Option<usize>,
    /// scope of the probed name is the root
    pub at_root: bool,
    pub what: &'static str,
}

const ARG: u32 = 1000;

/// probe text for an item of kind `k` (tag `tag`) reached by expression path `path`
fn probe_for(
    st: &State,
    k: K,
    tag: u32,
    path: &str,
    as_import: bool,
    n: usize,
) -> Vec<(String, Sig, String, &'static str)> {
    let f = format!("p{n}");
    let tp = |r: R| st.type_path(r);
    match k {
        K::Fn(R::U) => vec![(format!("fn {f}() -> u32 {{ {path}() }}\n"), Sig::U0, tag.to_string(), "call function")],
        K::Fn(r) => {
            let Some(t) = tp(r) else { return vec![] };
            let sig = if r == R::A { Sig::UA } else { Sig::UB };
            vec![(format!("fn {f}(x: {t}) -> u32 {{ {path}(x) }}\n"), sig, (tag + ARG).to_string(), "call function")]
        }
        K::Const(R::U) => vec![(format!("fn {f}() -> u32 {{ {path} }}\n"), Sig::U0, tag.to_string(), "read constant")],
        K::Const(r) => {
            let Some(t) = tp(r) else { return vec![] };
            let (sig, e) = if r == R::A { (Sig::A0, format!("A({tag})")) } else { (Sig::B0, format!("B({tag})")) };
            vec![(format!("fn {f}() -> {t} {{ {path} }}\n"), sig, e, "read constant")]
        }
        K::Ty(r) => {
            let (sig, e) = if r == R::A { (Sig::AA, format!("A({tag})")) } else { (Sig::BB, format!("B({tag})")) };
            vec![(format!("fn {f}(x: {path}) -> {path} {{ x }}\n"), sig, e, "name type")]
        }
        K::Meth(r) => {
            let Some(t) = tp(r) else { return vec![] };
            let sig = match r {
                R::U => Sig::UU,
                R::A => Sig::UA,
                R::B => Sig::UB,
            };
            if as_import {
                vec![(format!("fn {f}(x: {t}) -> u32 {{ {path}(x) }}\n"), sig, (tag + ARG).to_string(), "call imported method")]
            } else {
                // path = <type path>.<name>
                let name = path.rsplit('.').next().unwrap();
                vec![
                    (format!("fn {f}(x: {t}) -> u32 {{ x.{name}() }}\n"), sig, (tag + ARG).to_string(), "call method"),
                    (format!("fn {f}s(x: {t}) -> u32 {{ {path}(x) }}\n"), sig, (tag + ARG).to_string(), "call method by path"),
                ]
            }
        }
        K::Stat(_) => vec![(format!("fn {f}() -> u32 {{ {path}() }}\n"), Sig::U0, tag.to_string(), "call static method")],
        K::Mod | K::Use | K::ImplUse(_) => vec![],
    }
}

fn join(scope: &[String], name: &str) -> String {
    let mut v = scope.to_vec();
    v.push(name.to_string());
    v.join(".")
}

/// All probes for the final model state.
pub fn probes(st: &State) -> Vec<Probe> {
    let mut out: Vec<Probe> = vec![];
    let mut n = 0usize;
    let push = |out: &mut Vec<Probe>,
                    v: Vec<(String, Sig, String, &'static str)>,
                    negative: bool,
                    path: &str,
                    item: Option<usize>,
                    via_use: Option<usize>,
                    at_root: bool| {
        for (src, sig, expect, what) in v {
            out.push(Probe {
                src,
                sig,
                expect,
                negative,
                no_panic_only: false,
                path: path.to_string(),
                item,
                via_use,
                at_root,
                what,
            });
        }
    };

    // probes for what a name denotes when reached through expression path `path`
    let den_probes = |st: &State, den: &Den, path: &str, as_import: bool, n: &mut usize| -> Vec<(String, Sig, String, &'static str)> {
        match den {
            Den::Item(id) => {
                let info = &st.items[id];
                match info.k {
                    K::Mod => {
                        // reach every declared child of the module through the path
                        let ScopeKey::Mod(p) = &info.scope else { return vec![] };
                        let mut mp = p.clone();
                        mp.push(info.name.clone());
                        let mut v = vec![];
                        if let Some(sc) = st.scopes.get(&ScopeKey::Mod(mp)) {
                            for (cn, cd) in &sc.decls {
                                if let Den::Item(cid) = cd {
                                    let ck = st.items[cid].k;
                                    *n += 1;
                                    v.extend(probe_for(st, ck, tag_of(*cid), &format!("{path}.{cn}"), false, *n));
                                }
                            }
                        }
                        v
                    }
                    k => {
                        *n += 1;
                        probe_for(st, k, tag_of(*id), path, as_import, *n)
                    }
                }
            }
            Den::Variant("Accept") => {
                *n += 1;
                vec![(
                    format!("fn p{n}() -> Verdict[u32, u32] {{ {path}(7) }}\n"),
                    Sig::V0,
                    "Accept(7)".to_string(),
                    "construct imported variant",
                )]
            }
            _ => vec![],
        }
    };

    for (key, sc) in &st.scopes {
        match key {
            ScopeKey::Mod(p) => {
                for (name, den) in &sc.decls {
                    if let Den::Item(id) = den {
                        if st.items[id].k == K::Mod {
                            continue; // reached through its children
                        }
                        let path = join(p, name);
                        let v = den_probes(st, den, &path, false, &mut n);
                        push(&mut out, v, false, &path, Some(*id), None, p.is_empty());
                    }
                }
                if p.is_empty() {
                    for (name, (den, use_id)) in &sc.imports {
                        if *use_id == usize::MAX {
                            continue;
                        }
                        let item = if let Den::Item(id) = den { Some(*id) } else { None };
                        let v = den_probes(st, den, name, true, &mut n);
                        push(&mut out, v, false, name, item, Some(*use_id), true);
                    }
                }
            }
            ScopeKey::Ty(r) => {
                let Some(tp) = st.type_path(*r) else { continue };
                for (name, den) in &sc.decls {
                    if let Den::Item(id) = den {
                        let path = format!("{tp}.{name}");
                        let v = den_probes(st, den, &path, false, &mut n);
                        push(&mut out, v, false, &path, Some(*id), None, false);
                    }
                }
                // a `use` inside an impl block: the name is usable in the type's scope
                for (name, (den, use_id)) in &sc.imports {
                    let path = format!("{tp}.{name}");
                    let item = if let Den::Item(id) = den { Some(*id) } else { None };
                    let v = den_probes(st, den, &path, true, &mut n);
                    push(&mut out, v, false, &path, item, Some(*use_id), false);
                }
            }
        }
    }

    // negative probes: an item's name in every other module scope / the root
    let mod_scopes: Vec<Vec<String>> = st
        .scopes
        .keys()
        .filter_map(|k| if let ScopeKey::Mod(p) = k { Some(p.clone()) } else { None })
        .collect();
    let bound = |p: &Vec<String>, name: &str| -> bool {
        let sc = &st.scopes[&ScopeKey::Mod(p.clone())];
        // a root import whose target did not exist when it was declared may
        // have come alive through a later add: nothing is expected of that name
        sc.decls.contains_key(name)
            || (p.is_empty()
                && (sc.imports.contains_key(name)
                    || st.dangling.iter().any(|(loc, n, _)| loc.is_empty() && n == name)))
    };
    for (id, info) in &st.items {
        if !matches!(info.k, K::Fn(_) | K::Const(_) | K::Ty(_)) {
            continue;
        }
        for p in &mod_scopes {
            if bound(p, &info.name) {
                continue;
            }
            let path = join(p, &info.name);
            n += 1;
            let v = probe_for(st, info.k, tag_of(*id), &path, false, n);
            push(&mut out, v, true, &path, Some(*id), None, p.is_empty());
        }
    }
    // a `use` inside a module must not make the name visible in the root
    for (key, sc) in &st.scopes {
        let ScopeKey::Mod(p) = key else { continue };
        if p.is_empty() {
            continue;
        }
        for (name, (den, use_id)) in &sc.imports {
            if bound(&vec![], name) {
                continue;
            }
            let item = if let Den::Item(id) = den { Some(*id) } else { None };
            let v = den_probes(st, den, name, true, &mut n);
            push(&mut out, v, true, name, item, Some(*use_id), true);
        }
    }
    // a dangling import: naming it must not panic the compiler
    for (loc, name, use_id) in &st.dangling {
        let _ = loc;
        let root = &st.scopes[&ScopeKey::Mod(vec![])];
        if root.decls.contains_key(name) || root.imports.contains_key(name) {
            continue;
        }
        n += 1;
        out.push(Probe {
            src: format!("fn p{n}() -> u32 {{ {name}() }}\n"),
            sig: Sig::U0,
            expect: "no panic".into(),
            negative: true,
            no_panic_only: true,
            path: name.clone(),
            item: None,
            via_use: Some(*use_id),
            at_root: true,
            what: "name a dangling import",
        });
    }
    // distinct function names
    for (i, p) in out.iter_mut().enumerate() {
        let fname = format!("q{i}");
        // replace the generated name `pN`/`pNs` (first token after `fn `)
        let rest = p.src.strip_prefix("fn ").unwrap();
        let end = rest.find('(').unwrap();
        p.src = format!("fn {fname}{}", &rest[end..]);
    }
    out
}

/// After an add that returned Err: the declared path of every item of the
/// rejected library that the state before that add does not bind. All of
/// them must be compile errors.
pub fn rejected_probes(st: &State, rejected: &[crate::space::CItem]) -> Vec<Probe> {
    let mut out = vec![];
    fn rec(st: &State, items: &[crate::space::CItem], path: &[String], out: &mut Vec<Probe>) {
        for it in items {
            let (scope, expr) = match it.k {
                K::Mod => {
                    let mut p = path.to_vec();
                    p.push(it.name.clone());
                    rec(st, &it.ch, &p, out);
                    continue;
                }
                K::Fn(_) | K::Const(_) | K::Ty(_) => (ScopeKey::Mod(path.to_vec()), join(path, &it.name)),
                K::Meth(r) | K::Stat(r) => {
                    let Some(tp) = st.type_path(r) else { continue };
                    (ScopeKey::Ty(r), format!("{tp}.{}", it.name))
                }
                K::Use | K::ImplUse(_) => continue,
            };
            let bound = st.scopes.get(&scope).is_some_and(|sc| {
                sc.decls.contains_key(&it.name)
                    || sc.imports.contains_key(&it.name)
                    || st.dangling.iter().any(|(_, n, _)| *n == it.name)
            });
            if bound {
                continue;
            }
            let v = match it.k {
                // by path only: `x.name()` needs a value
                K::Meth(_) => {
                    let mut v = probe_for(st, it.k, it.tag(), &expr, false, 0);
                    v.truncate(2);
                    v.into_iter().skip(1).collect()
                }
                _ => probe_for(st, it.k, it.tag(), &expr, false, 0),
            };
            for (src, sig, expect, _) in v {
                out.push(Probe {
                    src,
                    sig,
                    expect,
                    negative: true,
                    no_panic_only: false,
                    path: expr.clone(),
                    item: Some(it.id),
                    via_use: None,
                    at_root: path.is_empty(),
                    what: "item of a rejected add",
                });
            }
        }
    }
    rec(st, rejected, &[], &mut out);
    for (i, p) in out.iter_mut().enumerate() {
        let rest = p.src.strip_prefix("fn ").unwrap();
        let end = rest.find('(').unwrap();
        p.src = format!("fn q{i}{}", &rest[end..]);
    }
    out
}

pub fn fn_name(i: usize) -> String {
    format!("q{i}")
}

/// Call probe function `name` with its signature; result rendered as text.
pub fn call(pkg: &mut Package<NoCtx>, name: &str, sig: Sig, expect_tag_arg: u32) -> Result<String, String> {
    macro_rules! get {
        ($t:ty) => {{
            let f: Result<TypedFunc<NoCtx, $t>, _> = pkg.get_function(name);
            match f {
                Ok(f) => f,
                Err(e) => return Err(format!("get_function: {e}")),
            }
        }};
    }
    Ok(match sig {
        Sig::U0 => get!(fn() -> u32).call().to_string(),
        Sig::UU => get!(fn(u32) -> u32).call(ARG).to_string(),
        Sig::UA => get!(fn(Val<A>) -> u32).call(Val(A(ARG))).to_string(),
        Sig::UB => get!(fn(Val<B>) -> u32).call(Val(B(ARG))).to_string(),
        Sig::AA => format!("{:?}", get!(fn(Val<A>) -> Val<A>).call(Val(A(expect_tag_arg))).0),
        Sig::BB => format!("{:?}", get!(fn(Val<B>) -> Val<B>).call(Val(B(expect_tag_arg))).0),
        Sig::A0 => format!("{:?}", get!(fn() -> Val<A>).call().0),
        Sig::B0 => format!("{:?}", get!(fn() -> Val<B>).call().0),
        Sig::V0 => match get!(fn() -> Verdict<u32, u32>).call() {
            Verdict::Accept(x) => format!("Accept({x})"),
            Verdict::Reject(x) => format!("Reject({x})"),
        },
    })
}

/// Outcome of one probe on the implementation
#[derive(Clone, Debug, PartialEq, Eq)]
pub enum Got {
    Value(String),
    CompileError(String),
    Panic(String),
    CallError(String),
}

pub fn compile(rt: &Runtime<NoCtx>, src: &str) -> Result<Package<NoCtx>, Got> {
    match host::compile(rt, src) {
        Ok(p) => Ok(p),
        Err(host::CompileFail::Report(r)) => {
            // first line of the report is enough
            Err(Got::CompileError(r.lines().next().unwrap_or("").to_string()))
        }
        Err(host::CompileFail::Panic(p)) => Err(Got::Panic(p)),
    }
}

fn arg_for(p: &Probe) -> u32 {
    // AA/BB probes pass the expected value through: "A(127)" -> 127
    let digits: String = p.expect.chars().filter(|c| c.is_ascii_digit()).collect();
    digits.parse().unwrap_or(0)
}

/// Run all probes: positives in one script (falling back to one script per
/// probe when that does not compile), negatives one script each.
pub fn run(rt: &Runtime<NoCtx>, probes: &[Probe]) -> Vec<Got> {
    let mut got: Vec<Option<Got>> = vec![None; probes.len()];
    let pos: Vec<usize> = (0..probes.len()).filter(|i| !probes[*i].negative).collect();
    if !pos.is_empty() {
        let src: String = pos.iter().map(|i| probes[*i].src.as_str()).collect();
        match compile(rt, &src) {
            Ok(mut pkg) => {
                for i in &pos {
                    let r = vcore::util::catch(|| call(&mut pkg, &fn_name(*i), probes[*i].sig, arg_for(&probes[*i])));
                    got[*i] = Some(match r {
                        Ok(Ok(v)) => Got::Value(v),
                        Ok(Err(e)) => Got::CallError(e),
                        Err(p) => Got::Panic(p),
                    });
                }
            }
            Err(_) => {
                for i in &pos {
                    got[*i] = Some(run_single(rt, *i, &probes[*i]));
                }
            }
        }
    }
    for i in 0..probes.len() {
        if probes[i].negative {
            got[i] = Some(run_single(rt, i, &probes[i]));
        }
    }
    got.into_iter().map(|g| g.unwrap()).collect()
}

fn run_single(rt: &Runtime<NoCtx>, i: usize, p: &Probe) -> Got {
    match compile(rt, &p.src) {
        Ok(mut pkg) => {
            match vcore::util::catch(|| call(&mut pkg, &fn_name(i), p.sig, arg_for(p))) {
                Ok(Ok(v)) => Got::Value(v),
                Ok(Err(e)) => Got::CallError(e),
                Err(p) => Got::Panic(p),
            }
        }
        Err(g) => g,
    }
}
