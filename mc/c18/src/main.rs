//! C18 — registration is validated and makes items reachable where declared.
//!
//! Enumerated (`space.rs`): every library (unordered item tree) with at most 4
//! items, module nesting at most 2, over the item kinds {module, clone type
//! `Val<A>`, copy type `Val<B>`, function (mentioning no type / `Val<A>` /
//! `Val<B>`), method and static method in an impl block for `u32` / `Val<A>` /
//! `Val<B>`, constant of type `u32` / `Val<A>` / `Val<B>`, `use` declaration
//! (empty path, built-in enum variant, nothing, or the absolute path — up to 3
//! segments — of any other item of the library)}; every equality pattern of
//! the valid names and every single invalid name; every distribution of the
//! top-level items over 1-2 `Runtime::add` calls; every permutation of the
//! items of every add and of every module. Libraries with more than one
//! injected defect are left out (counted). Tier bounds: `bounds()`.
//! One more unit runs the `library!` macro forms (`macros.rs`).
//! `extra.rs`: hand-written histories (type names like built-in types, use in
//! an impl block, use through a use); `ctx.rs`: context types; after every
//! add that returns Err (histories of <= 3 items) the runtime must be as before.
//! Further units (`impls.rs`) let the target type of an impl block range over
//! primitives, `()`, Val types and the built-in compound constructors.
//!
//! Oracle: `model.rs` predicts Ok/Err of the constructors and of every add;
//! the implementation (`real.rs`) must agree and must not panic. After Ok a
//! generated script (`probe.rs`) reaches every item at every path the model
//! binds (and must get the item's tag) and at paths the model does not bind
//! (must be a compile error). All permutations must give the same outcome.

use std::sync::OnceLock;
use vcore::{Cfg, Check, Cx, Finding, Meta, Tier, Value, Violation, json};

mod ctx;
mod extra;
mod impls;
mod macros;
mod model;
mod probe;
mod real;
mod space;

use model::Pred;
use probe::Got;
use space::{CItem, K, Lib, NameRef, Skel, Target};

// ------------------------------------------------------------------ plan

pub struct Bounds {
    /// items per library
    max_items: usize,
    /// up to this many items every name pattern (valid and one invalid name);
    /// above it the equality patterns of valid names only
    all_names_items: usize,
    /// items per library when they are distributed over two adds, any name pattern
    two_adds_items: usize,
    /// ... with valid names only
    two_adds_items_valid_names: usize,
    /// of the libraries with more than `all_names_items` items: those with a
    /// `use` path of three segments get every equality pattern of valid names,
    /// the others that contain a module get all-distinct valid names, the
    /// flat ones are left out
    large_only_with_long_use: bool,
}

fn bounds(tier: Tier) -> Bounds {
    match tier {
        Tier::Quick => Bounds { max_items: 4, all_names_items: 3, two_adds_items: 3, two_adds_items_valid_names: 3, large_only_with_long_use: true },
        Tier::Thorough => Bounds { max_items: 4, all_names_items: 4, two_adds_items: 3, two_adds_items_valid_names: 4, large_only_with_long_use: false },
    }
}

impl Bounds {
    /// number of name patterns of a skeleton (a prefix of `space::patterns`)
    fn n_patterns(&self, s: &Skel) -> usize {
        let n = s.named().len();
        if s.nodes.len() <= self.all_names_items {
            space::patterns(n).len()
        } else if self.large_only_with_long_use && s.max_use_path() < 3 {
            // with a module: all names distinct; flat ones are left to the thorough tier
            if s.modules().is_empty() { 0 } else { 1 }
        } else {
            space::n_valid_patterns(n)
        }
    }
    /// are the items of this (skeleton, pattern) also distributed over two adds
    fn two_adds(&self, s: &Skel, pattern: usize) -> bool {
        let valid = pattern < space::n_valid_patterns(s.named().len());
        s.nodes.len() <= self.two_adds_items || (valid && s.nodes.len() <= self.two_adds_items_valid_names)
    }
}

const UNIT_WEIGHT: u64 = 1500;
/// the oracle "a failed add leaves the runtime as it was" is evaluated for histories of at most this many items
const ROLLBACK_ITEMS: usize = 3;

struct Plan {
    skels: Vec<Skel>,
    /// per skeleton: name patterns
    units: Vec<(usize, usize)>,
    macro_unit: usize,
}

/// executions of a skeleton before filtering (upper bound, for unit sizing)
fn weight(s: &Skel, b: &Bounds) -> u64 {
    let per = |two: bool| -> u64 { (0..s.n_splits(two)).map(|split| s.n_perms(split)).sum() };
    let n = s.named().len();
    let valid = space::n_valid_patterns(n);
    let total = b.n_patterns(s);
    let mut w = 0;
    if total > 0 {
        w += valid.min(total) as u64 * per(b.two_adds(s, 0));
    }
    if total > valid {
        w += (total - valid) as u64 * per(b.two_adds(s, valid));
    }
    w
}

fn plan(tier: Tier) -> &'static Plan {
    static Q: OnceLock<Plan> = OnceLock::new();
    static T: OnceLock<Plan> = OnceLock::new();
    let cell = match tier {
        Tier::Quick => &Q,
        Tier::Thorough => &T,
    };
    cell.get_or_init(|| {
        let b = bounds(tier);
        let skels = space::skeletons(b.max_items);
        let mut units = vec![];
        let mut start = 0;
        let mut acc = 0u64;
        for (i, s) in skels.iter().enumerate() {
            acc += weight(s, &b);
            if acc >= UNIT_WEIGHT {
                units.push((start, i + 1));
                start = i + 1;
                acc = 0;
            }
        }
        if start < skels.len() {
            units.push((start, skels.len()));
        }
        let macro_unit = units.len();
        Plan { skels, units, macro_unit }
    })
}

// sub = skeleton offset in unit (16) | pattern (16) | split (8) | perm (16)
fn encode(off: usize, pat: usize, split: u64, perm: u64) -> u64 {
    ((off as u64) << 40) | ((pat as u64) << 24) | (split << 16) | perm
}
fn decode_sub(sub: u64) -> (usize, usize, u64, u64) {
    ((sub >> 40) as usize, ((sub >> 24) & 0xffff) as usize, (sub >> 16) & 0xff, sub & 0xffff)
}

fn rot(skel_idx: usize, pat_idx: usize) -> usize {
    (skel_idx + pat_idx) % space::VALID.len()
}

// ------------------------------------------------------------------ printing

fn rust_str(s: &str) -> String {
    format!("{s:?}")
}

fn item_code(it: &CItem, indent: usize, out: &mut String) {
    let pad = "    ".repeat(indent);
    let tag = it.tag();
    let n = rust_str(&it.name);
    match it.k {
        K::Mod => {
            out.push_str(&format!("{pad}{{ let mut m = Module::new({n}, \"\", location!())?; m.add(vec![\n"));
            for c in &it.ch {
                item_code(c, indent + 1, out);
            }
            out.push_str(&format!("{pad}]); Item::Module(m) }},\n"));
        }
        K::Ty(r) => {
            let ctor = if r == space::R::A { "clone" } else { "copy" };
            out.push_str(&format!("{pad}Item::Type(Type::{ctor}::<{}>({n}, \"\", location!())?),\n", r.rust()));
        }
        K::Fn(space::R::U) => out.push_str(&format!(
            "{pad}Item::Function(Function::new({n}, \"\", vec![], || -> u32 {{ {tag} }}, location!())?),\n"
        )),
        K::Fn(r) => out.push_str(&format!(
            "{pad}Item::Function(Function::new({n}, \"\", vec![\"x\"], |x: {}| -> u32 {{ {tag} + x.0.0 }}, location!())?),\n",
            r.rust()
        )),
        K::Meth(r) => {
            let body = if r == space::R::U { format!("{tag} + x") } else { format!("{tag} + x.0.0") };
            out.push_str(&format!(
                "{pad}{{ let mut i = Impl::new::<{t}>(location!()); i.add(Function::new({n}, \"\", vec![\"x\"], |x: {t}| -> u32 {{ {body} }}, location!())?); Item::Impl(i) }},\n",
                t = r.rust()
            ));
        }
        K::Stat(r) => out.push_str(&format!(
            "{pad}{{ let mut i = Impl::new::<{t}>(location!()); i.add(Function::new({n}, \"\", vec![], || -> u32 {{ {tag} }}, location!())?); Item::Impl(i) }},\n",
            t = r.rust()
        )),
        K::Const(r) => {
            let v = match r {
                space::R::U => format!("{tag}u32"),
                space::R::A => format!("Val(A({tag}))"),
                space::R::B => format!("Val(B({tag}))"),
            };
            out.push_str(&format!("{pad}Item::Constant(Constant::new({n}, \"\", {v}, location!())?),\n"));
        }
        K::Use => {
            let p: Vec<String> = it.path.iter().map(|s| format!("{}.into()", rust_str(s))).collect();
            out.push_str(&format!("{pad}Item::Use(Use::new(vec![vec![{}]], location!())),\n", p.join(", ")));
        }
        K::ImplUse(r) => {
            let p: Vec<String> = it.path.iter().map(|s| format!("{}.into()", rust_str(s))).collect();
            out.push_str(&format!(
                "{pad}{{ let mut i = Impl::new::<{}>(location!()); i.add(Use::new(vec![vec![{}]], location!())); Item::Impl(i) }},\n",
                r.rust(),
                p.join(", ")
            ));
        }
    }
}

/// The literal library as pseudo-code of the builder calls
fn lib_code(lib: &Lib) -> String {
    let mut s = String::from("let mut rt = Runtime::new();\n");
    for a in &lib.adds {
        s.push_str("rt.add(vec![\n");
        for it in a {
            item_code(it, 1, &mut s);
        }
        s.push_str("])?;\n");
    }
    s
}

/// Machine-readable description (what the matchers look at)
fn lib_json(lib: &Lib, pred: &Pred) -> Value {
    let mut uses = vec![];
    fn rec(items: &[CItem], depth: usize, uses: &mut Vec<Value>) {
        for it in items {
            if it.k.is_use() {
                uses.push(json!({"id": it.id, "path": it.path, "in_module": depth > 0 && it.k == K::Use,
                                 "in_impl": it.k != K::Use,
                                 "target": format!("{:?}", it.target)}));
            }
            rec(&it.ch, depth + 1, uses);
        }
    }
    for a in &lib.adds {
        rec(a, 0, &mut uses);
    }
    let invalid: Vec<String> = lib
        .all_items()
        .iter()
        .filter(|i| !i.k.is_use() && !model::valid_ident(&i.name))
        .map(|i| i.name.clone())
        .collect();
    json!({
        "library": lib_code(lib),
        "adds": lib.adds.len(),
        "items": lib.all_items().len(),
        "uses": uses,
        "invalid_names": invalid,
        "type_names": lib.all_items().iter().filter(|i| matches!(i.k, K::Ty(_))).map(|i| i.name.clone()).collect::<Vec<_>>(),
        "model": pred.summary(),
        "model_defects": pred.defects.iter().map(|d| json!({"class": d.class, "kind": d.kind, "at_root": d.at_root, "detail": d.detail})).collect::<Vec<_>>(),
    })
}

// ------------------------------------------------------------------ execution

/// Everything observed for one literal library; `sig` is compared between permutations
struct Outcome {
    sig: u64,
    ok: bool,
    summary: String,
}

/// A violation found by one execution; the permutations of a library that
/// show the same violation are reported once (first permutation + count)
struct Pending {
    class: &'static str,
    case: Value,
    expected: Value,
    observed: Value,
}

fn execute(lib: &Lib, cx: &mut Cx, report: bool, out: &mut Vec<Pending>) -> Outcome {
    let pred = model::predict(lib);
    let (obs, rt) = real::register(lib);
    judge(lib, &pred, &obs, rt.as_ref(), cx, report, out)
}

/// Compare what the implementation did with the model's prediction; after a
/// success run the probe scripts.
fn judge(
    lib: &Lib,
    pred: &Pred,
    obs: &real::Obs,
    rt: Option<&roto::Runtime<roto::NoCtx>>,
    cx: &mut Cx,
    report: bool,
    out: &mut Vec<Pending>,
) -> Outcome {
    let mut sig = vcore::util::fnv_str(&format!("{:?}", obs.shape()));
    if report {
        cx.transitions(1);
    }
    let case = || lib_json(lib, pred);
    if obs.panic.is_some() {
        if report {
            cx.validated(1);
        }
        out.push(Pending {
            class: "panic",
            case: case(),
            expected: pred.json(),
            observed: obs.json(),
        });
        return Outcome { sig, ok: false, summary: obs.summary() };
    }
    if pred.open {
        if report {
            cx.unspecified(1);
        }
    } else {
        if report {
            cx.validated(1);
        }
        let want = (pred.construct_ok, pred.adds.clone());
        let have = (obs.construct.is_ok(), obs.adds.iter().map(|a| a.is_ok()).collect::<Vec<_>>());
        if want != have {
            out.push(Pending {
                class: "add-result",
                case: case(),
                expected: pred.json(),
                observed: obs.json(),
            });
        }
    }
    if let (true, Some(rt)) = (obs.all_ok() && pred.all_ok(), rt) {
        let probes = probe::probes(&pred.state);
        let got = probe::run(rt, &probes);
        if report {
            cx.count("probes_positive", probes.iter().filter(|p| !p.negative).count() as u64);
            cx.count("probes_negative", probes.iter().filter(|p| p.negative).count() as u64);
        }
        // order-insensitive: the probes are a set
        let mut obs_set: Vec<String> = probes
            .iter()
            .zip(&got)
            .map(|(p, g)| format!("{}|{}|{}|{:?}", p.path, p.what, p.negative, g))
            .collect();
        obs_set.sort();
        sig = vcore::util::mix(sig, vcore::util::fnv_str(&obs_set.join("\n")));
        for (p, g) in probes.iter().zip(&got) {
            let class = match (p.negative, g) {
                (_, Got::Panic(_)) => "compile-panic",
                (_, _) if p.no_panic_only => continue,
                (false, Got::Value(v)) if *v == p.expect => continue,
                (false, Got::Value(_)) => "wrong-item",
                (false, Got::CompileError(_)) | (false, Got::CallError(_)) => "unreachable",
                (true, Got::CompileError(_)) => continue,
                (true, Got::Value(_)) | (true, Got::CallError(_)) => "reachable-at-undeclared-path",
            };
            let mut c = case();
            c["probe"] = json!({"script": p.src, "path": p.path, "what": p.what, "negative": p.negative,
                                "item": p.item, "via_use": p.via_use, "at_root": p.at_root});
            let expected = if p.no_panic_only {
                json!("no panic (a compile error or a value)")
            } else if p.negative {
                json!("a compile error: the model binds nothing at this path")
            } else {
                json!(p.expect)
            };
            out.push(Pending { class, case: c, expected, observed: json!(format!("{g:?}")) });
        }
    }
    // an add that returned Err leaves the runtime as it was: everything the
    // state before it binds still answers, nothing of the rejected library does
    let have: Vec<bool> = obs.adds.iter().map(|a| a.is_ok()).collect();
    if let (true, Some(rt), Some(false)) = (
        lib.all_items().len() <= ROLLBACK_ITEMS
            && !pred.open
            && pred.construct_ok
            && obs.construct.is_ok()
            && have == pred.adds,
        rt,
        pred.adds.last(),
    ) {
        let rejected = &lib.adds[pred.adds.len() - 1];
        // (the negative probes of the state before are judged by the history
        // that ends before the failing add)
        let before: Vec<probe::Probe> =
            probe::probes(&pred.state).into_iter().filter(|p| !p.negative).collect();
        let got = probe::run(rt, &before);
        let leaked = probe::rejected_probes(&pred.state, rejected);
        let got_leaked = probe::run(rt, &leaked);
        if report {
            cx.count("rollback_probes", (before.len() + leaked.len()) as u64);
            cx.count("failed_adds_checked_for_rollback", 1);
        }
        // (not part of `sig`: what a failed add leaves behind depends on where
        // it stopped; that is this violation, not a second one)
        let mut bad = vec![];
        for (p, g) in before.iter().zip(&got).chain(leaked.iter().zip(&got_leaked)) {
            let fine = match (p.negative, g) {
                (_, Got::Panic(_)) => false,
                _ if p.no_panic_only => true,
                (false, Got::Value(v)) => *v == p.expect,
                (false, _) => false,
                (true, Got::CompileError(_)) => true,
                (true, _) => false,
            };
            if !fine {
                bad.push(json!({"path": p.path, "script": p.src, "what": p.what,
                                "expected": if p.negative { "a compile error".to_string() } else { p.expect.clone() },
                                "observed": format!("{g:?}")}));
            }
        }
        if !bad.is_empty() {
            let mut c = case();
            c["after_failed_add"] = json!(bad);
            out.push(Pending {
                class: "failed-add-not-rolled-back",
                case: c,
                expected: json!("after the Err the runtime is as before that add: every probe of the state before it holds, no item of the rejected library is reachable"),
                observed: json!(format!("{} probes differ, first: {}", bad.len(), bad[0]["path"])),
            });
        }
    }
    Outcome { sig, ok: obs.all_ok(), summary: obs.summary() }
}

/// Execute every permutation of one library; the permutations that show the
/// same violation are reported once; the outcome must not depend on the order.
pub(crate) fn run_permutations(
    cx: &mut Cx,
    n_perms: u64,
    sub_of: &dyn Fn(u64) -> u64,
    lib_of: &dyn Fn(u64) -> Lib,
    extra: &[(&str, Value)],
) {
    let mut first: Option<Outcome> = None;
    // violations of this library: key -> (first sub, pending, permutations)
    let mut found: Vec<(String, u64, Pending, u64)> = vec![];
    for perm in 0..n_perms {
        let sub = sub_of(perm);
        if !cx.case(sub) {
            continue;
        }
        let lib = lib_of(perm);
        let mut pend = vec![];
        if first.is_none() && perm > 0 && cx.only().is_some() {
            // replay of one permutation: the reference observation is that of permutation 0
            let l0 = lib_of(0);
            first = Some(execute(&l0, cx, false, &mut vec![]));
        }
        let o = execute(&lib, cx, true, &mut pend);
        cx.outcome(o.sig);
        cx.count(if o.ok { "registrations_ok" } else { "registrations_rejected" }, 1);
        match &first {
            None => first = Some(o),
            Some(f) => {
                if f.sig != o.sig {
                    let o = &o;
                    let pred = model::predict(&lib);
                    let l0 = lib_of(0);
                    let mut c = lib_json(&lib, &pred);
                    c["first_permutation"] = json!(lib_code(&l0));
                    pend.push(Pending {
                        class: "order-dependence",
                        case: c,
                        expected: json!("the same outcome (Ok/Err of every step, result of every probe) as the first permutation of the same items"),
                        observed: json!({"this_permutation": o.summary, "first_permutation": f.summary}),
                    });
                }
            }
        }
        for p in pend {
            let key = format!("{}|{}|{}|{}", p.class, p.expected, p.observed, p.case["probe"]["path"]);
            match found.iter_mut().find(|f| f.0 == key) {
                Some(f) => f.3 += 1,
                None => found.push((key, sub, p, 1)),
            }
        }
    }
    for (_, sub, mut p, n) in found {
        p.case["permutations_showing_this"] = json!(n);
        p.case["permutations"] = json!(n_perms);
        for (k, v) in extra {
            p.case[*k] = v.clone();
        }
        cx.count("violating_executions", n);
        cx.violation(p.class, sub, p.case, p.expected, p.observed);
    }
}

fn interesting(lib: &Lib, pred: &Pred) -> bool {
    // non-trivial: at least two items and (an injected defect, or nesting, or
    // an item that refers to another one: use of a library item, mention of a
    // type the library registers)
    let items = lib.all_items();
    if items.len() < 2 {
        return false;
    }
    let registers = |r: space::R| items.iter().any(|i| i.k == K::Ty(r));
    !pred.defects.is_empty()
        || items.iter().any(|i| i.k == K::Mod)
        || items.iter().any(|i| match i.k {
            K::Use => matches!(i.target, Some(Target::Node(_))),
            K::Fn(r) | K::Const(r) | K::Meth(r) | K::Stat(r) => r != space::R::U && registers(r),
            _ => false,
        })
}

struct C18;

impl C18 {
    fn run_skeletons(&self, unit: usize, cx: &mut Cx) {
        let tier = cx.cfg.tier;
        let b = bounds(tier);
        let pl = plan(tier);
        let (lo, hi) = pl.units[unit];
        for si in lo..hi {
            let s = &pl.skels[si];
            let pats = space::patterns(s.named().len());
            for (pi, pat) in pats.iter().enumerate().take(b.n_patterns(s)) {
                let two = b.two_adds(s, pi);
                let r = rot(si, pi);
                let lib0 = s.instantiate(pat, r, 0, 0);
                if model::static_defects(&lib0) > 1 {
                    cx.count("libraries_with_more_than_one_defect_left_out", 1);
                    continue;
                }
                for split in 0..s.n_splits(two) {
                    let n_perms = s.n_perms(split);
                    cx.states(1);
                    {
                        let lib = s.instantiate(pat, r, split, 0);
                        let pred = model::predict(&lib);
                        if interesting(&lib, &pred) {
                            cx.nontrivial(vcore::util::mix(si as u64, encode(0, pi, split, 0)));
                        }
                        if split == 0 && pi % 7 == 0 && (si - lo) % 5 == 0 {
                            cx.sample(json!({"library": lib_code(&lib), "model": pred.summary()}));
                        }
                    }
                    run_permutations(
                        cx,
                        n_perms,
                        &|perm| encode(si - lo, pi, split, perm),
                        &|perm| s.instantiate(pat, r, split, perm),
                        &[],
                    );
                }
            }
        }
    }

    fn lib_of(&self, cfg: &Cfg, unit: usize, sub: u64) -> Option<Lib> {
        let pl = plan(cfg.tier);
        let (lo, _) = *pl.units.get(unit)?;
        let (off, pi, split, perm) = decode_sub(sub);
        let si = lo + off;
        let s = pl.skels.get(si)?;
        let pats = space::patterns(s.named().len());
        let pat: &Vec<NameRef> = pats.get(pi)?;
        Some(s.instantiate(pat, rot(si, pi), split, perm))
    }
}

impl Check for C18 {
    fn id(&self) -> &'static str {
        "C18"
    }
    fn units(&self, cfg: &Cfg) -> usize {
        plan(cfg.tier).units.len() + 1 + impls::n_units() + extra::n_units() + 1
    }
    fn run_unit(&self, unit: usize, cx: &mut Cx) {
        if !cx.case(vcore::SUB_SETUP) {
            return;
        }
        if let Err(p) = real::base_runtime() {
            cx.transitions(1);
            cx.violation(
                "panic",
                vcore::SUB_SETUP,
                json!({"library": "let mut rt = Runtime::new();\n", "uses": [], "model_defects": []}),
                json!({"summary": "Runtime::new() returns", "steps": ["ok"]}),
                json!({"summary": format!("PANIC: {p}"), "steps": ["panic"], "error": p}),
            );
            return;
        }
        let pl = plan(cx.cfg.tier);
        if unit > pl.macro_unit + impls::n_units() + extra::n_units() {
            ctx::run(cx);
        } else if unit > pl.macro_unit + impls::n_units() {
            extra::run(unit - pl.macro_unit - 1 - impls::n_units(), cx);
        } else if unit > pl.macro_unit {
            impls::run(unit - pl.macro_unit - 1, cx);
        } else if unit == pl.macro_unit {
            macros::run(cx);
        } else {
            self.run_skeletons(unit, cx);
        }
    }
    fn describe(&self, cfg: &Cfg, unit: usize, sub: u64) -> Value {
        let pl = plan(cfg.tier);
        if sub == vcore::SUB_SETUP {
            return json!({"library": "let mut rt = Runtime::new();\n", "uses": [], "model_defects": []});
        }
        if unit > pl.macro_unit + impls::n_units() + extra::n_units() {
            return ctx::describe(sub);
        }
        if unit > pl.macro_unit + impls::n_units() {
            return extra::describe(unit - pl.macro_unit - 1 - impls::n_units(), sub);
        }
        if unit > pl.macro_unit {
            return impls::describe(unit - pl.macro_unit - 1, sub);
        }
        if unit == pl.macro_unit {
            return macros::describe(sub);
        }
        match self.lib_of(cfg, unit, sub) {
            Some(lib) => {
                let pred = model::predict(&lib);
                lib_json(&lib, &pred)
            }
            None => json!({"unit": unit, "sub": sub.to_string()}),
        }
    }
    fn matches(&self, f: &Finding, v: &Violation) -> bool {
        findings_match(f, v)
    }
    fn meta(&self, cfg: &Cfg) -> Meta {
        let b = bounds(cfg.tier);
        Meta {
            rule: "states = literal libraries (item tree + names + distribution over adds), all distinct by construction; every one is executed in every permutation of the items of each add and of each module (transitions). Libraries with more than one independent defect are left out (counters.libraries_with_more_than_one_defect_left_out). A library is non-trivial when it has at least two items and an injected defect, a module, or an item that refers to another item of the library (a use of a library item, a signature / impl / constant of a type the library registers). An impl-target configuration (impls.rs) is non-trivial when its target is a compound type or its block has an item".into(),
            assumptions: vec![
                "an add that returned Err must leave the runtime as it was: checked (positive probes of the state before, declared paths of the rejected items) for histories of at most 3 items".into(),
                "valid names of the pool are interchangeable: the equality pattern of the names is enumerated exhaustively, the concrete names a/b/T/é are rotated over the patterns".into(),
                "use paths are absolute; a `use` inside a module is expected not to bind anything in the root (whether it is visible as `module.name` is left open)".into(),
                "the state after a failed add is not specified; histories stop at the first Err".into(),
            ],
            bounds: json!({
                "max_items": b.max_items,
                "max_items_with_an_invalid_name": b.all_names_items,
                "libraries_with_more_items_restricted_to": if b.large_only_with_long_use { "a use path of 3 segments (valid names, every equality pattern) or a module (all-distinct valid names)" } else { "-" },
                "max_items_when_two_adds": b.two_adds_items_valid_names,
                "max_items_when_two_adds_and_an_invalid_name": b.two_adds_items,
                "module_nesting": space::MAX_NEST,
                "valid_names": space::VALID,
                "invalid_names": space::INVALID,
                "rust_types": ["u32", "Val<A> (clone)", "Val<B> (copy)"],
                "use_path_segments": "0..=3",
                "defects_per_library": "0..=1",
                "skeletons": plan(cfg.tier).skels.len(),
                "library_macro_forms": macros::forms().len(),
                "impl_target_types": impls::targets().len(),
                "hand_written_base_libraries": extra::bases().len(),
                "hand_written_families": "type named like every built-in type of the root (16 primitives, List, Option, Result, Verdict) or a fresh name x root / module x with / without impl block, next to a function mentioning the type; a use inside an impl block (6 libraries); a use path through a name another use brought in (4 libraries); every permutation of the top-level items x every distribution over 1-2 adds",
                "rollback_oracle_max_items": ROLLBACK_ITEMS,
                "context_type_configurations": ctx::n_configs(),
                "impl_target_family": "target type of an impl block: 16 primitives, (), Val<A>, Val<B>, and Option/List/Result<_,bool>/Result<bool,_>/Verdict<_,bool>/Verdict<bool,_> over {u32,bool,String,Val<A>,Val<B>} and (nested once) over Option/List/Result/Verdict of {u32,Val<A>,Val<B>}; block item: none / method / static function / constant; block at the root / inside a module; the Val type it mentions: unregistered / same add before / same add after / earlier add / later add",
            }),
            states_are: "literal libraries (item tree, names, distribution over 1-2 adds)".into(),
            transitions_are: "registration histories executed on a fresh Runtime (one per permutation of the items), each followed by the probe scripts when it succeeds".into(),
        }
    }
    fn finish(&self, _cfg: &Cfg, agg: &mut vcore::Aggregate) {
        // triage aid: C18_DUMP=<file> writes every violation of the run
        if let Ok(p) = std::env::var("C18_DUMP") {
            let v: Vec<Value> = agg
                .violations
                .iter()
                .map(|v| {
                    let known: Vec<&str> = MATCHERS
                        .iter()
                        .filter(|m| {
                            let f = Finding {
                                id: String::new(),
                                property: "C18".into(),
                                matcher: m.to_string(),
                                params: Value::Null,
                                description: String::new(),
                            };
                            findings_match(&f, v)
                        })
                        .copied()
                        .collect();
                    json!({"class": v.class, "unit": v.unit, "sub": v.sub.to_string(), "case": v.case,
                           "expected": v.expected, "observed": v.observed, "known": known})
                })
                .collect();
            let _ = std::fs::write(p, vcore::serde_json::to_string(&v).unwrap());
        }
    }
    fn preflight(&self, _cfg: &Cfg) -> Result<(), String> {
        // development aid: C18_COUNT=1 prints the size of both tiers and stops
        if std::env::var("C18_COUNT").is_ok() {
            for tier in [Tier::Quick, Tier::Thorough] {
                let b = bounds(tier);
                let pl = plan(tier);
                let (mut libs, mut execs, mut left) = (0u64, 0u64, 0u64);
                for (si, s) in pl.skels.iter().enumerate() {
                    let pats = space::patterns(s.named().len());
                    for (pi, pat) in pats.iter().enumerate().take(b.n_patterns(s)) {
                        let two = b.two_adds(s, pi);
                        let lib0 = s.instantiate(pat, rot(si, pi), 0, 0);
                        if model::static_defects(&lib0) > 1 {
                            left += 1;
                            continue;
                        }
                        for split in 0..s.n_splits(two) {
                            libs += 1;
                            execs += s.n_perms(split);
                        }
                    }
                }
                eprintln!(
                    "{}: skeletons={} units={} libraries={} executions={} left_out={}",
                    tier.name(),
                    pl.skels.len(),
                    pl.units.len(),
                    libs,
                    execs,
                    left
                );
            }
            return Err("count only".into());
        }
        Ok(())
    }
}

const MATCHERS: [&str; 12] = [
    "type_named_like_builtin_type",
    "use_in_impl_block_dropped",
    "use_path_through_imported_name",
    "failed_add_not_rolled_back",
    "library_macro_panics_on_invalid_name",
    "context_field_type_not_registered_here",
    "empty_use_path_panics",
    "use_path_walk_restarts",
    "use_in_module_binds_in_root",
    "import_and_declaration_share_a_name",
    "dangling_use_panics",
    "name_with_trailing_blank_accepted",
];

/// Known-finding predicates. Every one looks at the failing library itself
/// (the construct that triggers the defect) and at the failure class.
fn findings_match(f: &Finding, v: &Violation) -> bool {
    let c = &v.case;
    let empty = vec![];
    let uses = c["uses"].as_array().unwrap_or(&empty);
    let path_of = |u: &Value| -> Vec<String> {
        u["path"].as_array().map(|a| a.iter().filter_map(|x| x.as_str().map(String::from)).collect()).unwrap_or_default()
    };
    let defects = c["model_defects"].as_array().unwrap_or(&empty);
    let probe = &c["probe"];
    // first step (constructors, add#1, add#2) where model and implementation part
    let steps = |x: &Value| -> Vec<String> {
        x["steps"].as_array().map(|a| a.iter().filter_map(|s| s.as_str().map(String::from)).collect()).unwrap_or_default()
    };
    let (ms, os) = (steps(&v.expected), steps(&v.observed));
    let diff = (0..ms.len().max(os.len())).find(|i| ms.get(*i) != os.get(*i));
    // (model at that step, implementation at that step); "none" = step not reached
    let at = |i: usize| -> (String, String) {
        (ms.get(i).cloned().unwrap_or("none".into()), os.get(i).cloned().unwrap_or("none".into()))
    };
    let error = v.observed["error"].as_str().unwrap_or("");
    let probe_class = ["wrong-item", "unreachable", "compile-panic", "reachable-at-undeclared-path"]
        .contains(&v.class.as_str());
    // the probe is about the name this use brings in
    let implicates = |u: &Value| -> bool {
        probe["via_use"] == u["id"] || path_of(u).last().map(|s| s.as_str()) == probe["path"].as_str()
    };
    let type_names: Vec<&str> =
        c["type_names"].as_array().map(|a| a.iter().filter_map(|x| x.as_str()).collect()).unwrap_or_default();
    match f.matcher.as_str() {
        // Use::new(vec![vec![]]) : `import.len() - 1` underflows in declare_import
        "empty_use_path_panics" => {
            let sub_overflow =
                |s: &str| s.contains("attempt to subtract with overflow") && s.contains("runtime/mod.rs");
            uses.iter().any(|u| path_of(u).is_empty())
                && ((v.class == "panic" && sub_overflow(error))
                    || (v.class == "order-dependence"
                        && (sub_overflow(v.observed["this_permutation"].as_str().unwrap_or(""))
                            || sub_overflow(v.observed["first_permutation"].as_str().unwrap_or("")))))
        }
        // `use a::b::c`: every segment before the last is looked up in the
        // scope the walk started from instead of the scope reached so far
        "use_path_walk_restarts" => uses.iter().any(|u| {
            let p = path_of(u);
            p.len() >= 3
                && ((v.class == "add-result"
                    && diff.is_some_and(|i| at(i) == ("ok".into(), "err".into()))
                    && error == format!("Could not get scope of {}", p[1]))
                    || (probe_class && implicates(u)))
        }),
        // a `use` inside a module is registered in the root scope
        "use_in_module_binds_in_root" => uses.iter().any(|u| {
            let p = path_of(u);
            let Some(last) = p.last() else { return false };
            if u["in_module"] != true {
                return false;
            }
            // (a) the name is visible in the root
            (v.class == "reachable-at-undeclared-path"
                && probe["at_root"] == true
                && probe["path"].as_str() == Some(last))
                // (b) it collides with a root import the module cannot see
                || (v.class == "add-result"
                    && diff.is_some_and(|i| at(i) == ("ok".into(), "err".into()))
                    && error == "Name declared twice!"
                    && (["Some", "None", "Ok", "Err"].contains(&last.as_str())
                        || uses.iter().any(|w| w["id"] != u["id"] && path_of(w).last() == Some(last))))
                // (c) a collision inside the module goes unnoticed
                || (v.class == "add-result"
                    && diff.is_some_and(|i| at(i).0 == "err" && at(i).1 == "ok")
                    && defects.len() == 1
                    && defects[0]["class"] == "duplicate-name"
                    && defects[0]["at_root"] == false
                    && defects[0]["kind"].as_str().is_some_and(|k| k.contains("import")))
        }),
        // imports and declarations are kept in separate tables: a name that is
        // both imported into and declared in the root is accepted, the
        // declaration silently wins
        "import_and_declaration_share_a_name" => {
            v.class == "add-result"
                && diff.is_some_and(|i| at(i).0 == "err" && at(i).1 == "ok")
                && !defects.is_empty()
                && defects.iter().all(|d| {
                    d["class"] == "duplicate-name"
                        && d["at_root"] == true
                        && (d["kind"] == "import-decl" || d["kind"] == "decl-import")
                })
        }
        // a `use` of something that does not exist (at that time) is accepted;
        // naming it in a script panics the compiler, and so does a later add
        // of a type with that name (ScopeGraph::resolve_name unwrap)
        "dangling_use_panics" => {
            let scope_rs = |s: &str| s.contains("typechecker/scope.rs") && s.contains("unwrap");
            (v.class == "compile-panic"
                && probe["what"] == "name a dangling import"
                && scope_rs(v.observed.as_str().unwrap_or("")))
                || (uses.iter().any(|u| {
                    path_of(u).last().is_some_and(|l| type_names.contains(&l.as_str()))
                }) && ((v.class == "panic" && scope_rs(error))
                    || (v.class == "order-dependence"
                        && (scope_rs(v.observed["this_permutation"].as_str().unwrap_or(""))
                            || scope_rs(v.observed["first_permutation"].as_str().unwrap_or(""))))))
        }
        // check_name ignores white space around the identifier
        "name_with_trailing_blank_accepted" => {
            v.class == "add-result"
                && diff == Some(0)
                && at(0) == ("err".into(), "ok".into())
                && c["invalid_names"].as_array().is_some_and(|a| a.len() == 1 && a[0] == "a ")
        }
        // declare_runtime_type: "the primitives are already declared" shortcut
        // taken for ANY type whose name resolves (through the parent scopes)
        // to a primitive or List
        "type_named_like_builtin_type" => {
            let Some(n) = type_names.iter().find(|n| model::BUILTIN_TYPE_NAMES.contains(n)) else {
                return false;
            };
            let in_module = c["library"].as_str().is_some_and(|l| {
                l.contains("Module::new") && l.contains(&format!("Type::clone::<Val<A>>({n:?}"))
                    || l.contains("Module::new") && l.contains(&format!("Type::copy::<Val<B>>({n:?}"))
            });
            // root: the name is taken, add says Ok
            (v.class == "add-result"
                && diff.is_some_and(|i| at(i).0 == "err" && at(i).1 == "ok")
                && !defects.is_empty()
                && defects.iter().all(|d| {
                    d["class"] == "duplicate-name"
                        && d["kind"] == "decl-decl"
                        && d["at_root"] == true
                        && d["detail"].as_str().is_some_and(|s| s.starts_with(&format!("`{n}`")))
                }))
                // module: the type is never declared; an impl block panics in add,
                // scripts cannot name it
                || (in_module
                    && v.class == "panic"
                    && error.contains("unwrap")
                    && error.contains("src/runtime/mod.rs"))
                || (in_module
                    && ["unreachable", "compile-panic"].contains(&v.class.as_str())
                    && probe["script"].as_str().is_some_and(|s| s.contains(&format!(".{n}"))))
                || (in_module
                    && v.class == "order-dependence"
                    && [&v.observed["this_permutation"], &v.observed["first_permutation"]]
                        .iter()
                        .any(|s| s.as_str().is_some_and(|s| s.contains("unwrap") && s.contains("src/runtime/mod.rs"))))
        }
        // declare_methods skips Item::Use, declare_imports skips Item::Impl
        "use_in_impl_block_dropped" => {
            v.class == "unreachable"
                && uses.iter().any(|u| u["in_impl"] == true && probe["via_use"] == u["id"])
        }
        // get_scope_of looks at the declarations of a scope only, never at its imports
        "use_path_through_imported_name" => {
            v.class == "add-result"
                && diff.is_some_and(|i| at(i) == ("ok".into(), "err".into()))
                && uses.iter().any(|u| {
                    let p = path_of(u);
                    p.len() >= 2
                        && error == format!("Could not get scope of {}", p[0])
                        && uses.iter().any(|w| w["id"] != u["id"] && path_of(w).last() == Some(&p[0]))
                })
        }
        // Rt::add mutates the runtime pass by pass and bails out at the first error
        "failed_add_not_rolled_back" => v.class == "failed-add-not-rolled-back",
        // library! unwraps every constructor
        "library_macro_panics_on_invalid_name" => {
            v.class == "panic"
                && c["library_macro"].is_string()
                && error.contains("library add failed")
                && c["invalid_names"].as_array().is_some_and(|a| !a.is_empty())
        }
        // register_context_type asks the process-wide TypeRegistry, not this runtime
        "context_field_type_not_registered_here" => {
            c["family"] == "context-type"
                && v.class == "add-result"
                && ms == ["err"]
                && os == ["ok"]
        }
        _ => false,
    }
}

fn main() {
    vcore::main(&C18)
}
