//! The enumerated space of libraries.
//!
//! Level 1: *skeletons* — canonical unordered item trees (kinds and Rust types,
//! `use` targets), generated as a list at start-up (deterministic, simplest
//! first). Level 2, per skeleton, a mixed-radix parameter space:
//! name pattern x split over 1-2 `add` calls x permutation of the items.
//! `decode` rebuilds the literal library from (skeleton, pattern, split, perm).

use std::collections::BTreeMap;

/// Rust types of the pool: `u32`, `Val<A>` (a Clone type), `Val<B>` (a Copy type)
#[derive(Clone, Copy, Debug, PartialEq, Eq, PartialOrd, Ord, Hash)]
pub enum R {
    U,
    A,
    B,
}

impl R {
    pub fn rust(self) -> &'static str {
        match self {
            R::U => "u32",
            R::A => "Val<A>",
            R::B => "Val<B>",
        }
    }
}

/// What a `use` declaration names
#[derive(Clone, Copy, Debug, PartialEq, Eq, PartialOrd, Ord, Hash)]
pub enum Target {
    /// `Use::new(vec![vec![]])`, a path of length 0
    Empty,
    /// `Verdict.Accept`: a built-in enum variant that the root does not import yet
    Accept,
    /// `Option.Some`: a built-in enum variant the root already imports
    OptSome,
    /// `nope`: no such item
    Missing,
    /// the absolute path of another item of the library (skeleton node index)
    Node(u8),
}

/// Item kinds. `Fn(R::U)` is a function that mentions no registered type;
/// `Fn(A)` takes a `Val<A>`. `Meth`/`Stat` are one function inside their own
/// `Impl::new::<R>()` block; `Const(R)` is a constant of that type.
#[derive(Clone, Copy, Debug, PartialEq, Eq, PartialOrd, Ord, Hash)]
pub enum K {
    Mod,
    Ty(R),
    Fn(R),
    Meth(R),
    Stat(R),
    Const(R),
    Use,
    /// an impl block for R that contains one `use` (hand-written histories only)
    ImplUse(R),
}

impl K {
    pub fn is_use(self) -> bool {
        matches!(self, K::Use | K::ImplUse(_))
    }
}

#[derive(Clone, Debug, PartialEq, Eq, PartialOrd, Ord)]
struct Tree {
    k: K,
    ch: Vec<Tree>,
}

impl Tree {
    fn size(&self) -> usize {
        1 + self.ch.iter().map(|c| c.size()).sum::<usize>()
    }
}

#[derive(Clone, Debug)]
pub struct SNode {
    pub k: K,
    pub parent: Option<usize>,
    pub target: Option<Target>,
}

/// A skeleton: nodes in canonical preorder
#[derive(Clone, Debug)]
pub struct Skel {
    pub nodes: Vec<SNode>,
}

pub const LEAVES: [K; 15] = [
    K::Ty(R::A),
    K::Ty(R::B),
    K::Fn(R::U),
    K::Fn(R::A),
    K::Fn(R::B),
    K::Meth(R::A),
    K::Meth(R::B),
    K::Meth(R::U),
    K::Stat(R::A),
    K::Stat(R::B),
    K::Stat(R::U),
    K::Const(R::U),
    K::Const(R::A),
    K::Const(R::B),
    K::Use,
];

pub const MAX_NEST: usize = 2;

fn trees(depth: usize, size: usize, memo: &mut BTreeMap<(usize, usize, bool), Vec<Vec<Tree>>>) -> Vec<Tree> {
    let mut out = vec![];
    if size == 1 {
        for k in LEAVES {
            out.push(Tree { k, ch: vec![] });
        }
    }
    if depth < MAX_NEST {
        for f in forests(depth + 1, size - 1, memo) {
            out.push(Tree { k: K::Mod, ch: f });
        }
    }
    out.sort();
    out
}

/// all multisets of trees (as sorted vectors) with exactly `size` nodes
fn forests(depth: usize, size: usize, memo: &mut BTreeMap<(usize, usize, bool), Vec<Vec<Tree>>>) -> Vec<Vec<Tree>> {
    if let Some(v) = memo.get(&(depth, size, true)) {
        return v.clone();
    }
    let mut all: Vec<Tree> = vec![];
    for s in 1..=size {
        all.extend(trees(depth, s, memo));
    }
    all.sort();
    let mut res = vec![];
    fn rec(all: &[Tree], start: usize, remaining: usize, acc: &mut Vec<Tree>, res: &mut Vec<Vec<Tree>>) {
        if remaining == 0 {
            res.push(acc.clone());
            return;
        }
        for i in start..all.len() {
            let s = all[i].size();
            if s <= remaining {
                acc.push(all[i].clone());
                rec(all, i, remaining - s, acc, res);
                acc.pop();
            }
        }
    }
    rec(&all, 0, size, &mut vec![], &mut res);
    memo.insert((depth, size, true), res.clone());
    res
}

fn flatten(f: &[Tree], parent: Option<usize>, out: &mut Vec<SNode>) {
    for t in f {
        let idx = out.len();
        out.push(SNode { k: t.k, parent, target: None });
        flatten(&t.ch, Some(idx), out);
    }
}

impl Skel {
    pub fn depth_of(&self, i: usize) -> usize {
        let mut d = 0;
        let mut p = self.nodes[i].parent;
        while let Some(q) = p {
            d += 1;
            p = self.nodes[q].parent;
        }
        d
    }
    /// indices of the named (non-`use`) nodes, in preorder
    pub fn named(&self) -> Vec<usize> {
        (0..self.nodes.len()).filter(|i| self.nodes[*i].k != K::Use).collect()
    }
    pub fn children(&self, parent: Option<usize>) -> Vec<usize> {
        (0..self.nodes.len()).filter(|i| self.nodes[*i].parent == parent).collect()
    }
    /// segments of the longest use path of the skeleton
    pub fn max_use_path(&self) -> usize {
        self.nodes
            .iter()
            .filter_map(|n| match n.target {
                Some(Target::Node(j)) => self.path_len(j as usize),
                Some(Target::Accept) | Some(Target::OptSome) => Some(2),
                Some(Target::Missing) => Some(1),
                _ => None,
            })
            .max()
            .unwrap_or(0)
    }
    pub fn modules(&self) -> Vec<usize> {
        (0..self.nodes.len()).filter(|i| self.nodes[*i].k == K::Mod).collect()
    }
    /// length of the absolute path that names node `i` (methods hang off
    /// their type: path of the type item + method name; `None` when the
    /// type is not registered by exactly one item of this library — `u32` is
    /// the built-in at the root)
    pub fn path_len(&self, i: usize) -> Option<usize> {
        match self.nodes[i].k {
            K::Meth(r) | K::Stat(r) => {
                if r == R::U {
                    return Some(2);
                }
                let regs: Vec<usize> =
                    (0..self.nodes.len()).filter(|j| self.nodes[*j].k == K::Ty(r)).collect();
                if regs.len() != 1 {
                    return None;
                }
                Some(self.depth_of(regs[0]) + 2)
            }
            K::Use | K::ImplUse(_) => None,
            _ => Some(self.depth_of(i) + 1),
        }
    }
}

/// All skeletons with exactly `size` items, `use` targets assigned.
fn skeletons_of_size(size: usize, max_use_path: usize) -> Vec<Skel> {
    let mut memo = BTreeMap::new();
    let mut out = vec![];
    for f in forests(0, size, &mut memo) {
        let mut nodes = vec![];
        flatten(&f, None, &mut nodes);
        let base = Skel { nodes };
        let uses: Vec<usize> =
            (0..base.nodes.len()).filter(|i| base.nodes[*i].k == K::Use).collect();
        if uses.is_empty() {
            out.push(base);
            continue;
        }
        // options of a use: the specials, then every other item whose
        // absolute path has at most `max_use_path` segments
        let mut opts = vec![Target::Empty, Target::Accept, Target::OptSome, Target::Missing];
        for j in 0..base.nodes.len() {
            if let Some(l) = base.path_len(j) {
                if l <= max_use_path {
                    opts.push(Target::Node(j as u8));
                }
            }
        }
        let radices: Vec<u64> = uses.iter().map(|_| opts.len() as u64).collect();
        let total: u64 = radices.iter().product();
        'combo: for idx in 0..total {
            let d = vcore::util::decode(idx, &radices);
            // sibling uses are a multiset: non-decreasing targets
            for w in 0..uses.len() {
                if w > 0
                    && base.nodes[uses[w]].parent == base.nodes[uses[w - 1]].parent
                    && uses[w] == uses[w - 1] + 1
                    && d[w] < d[w - 1]
                {
                    continue 'combo;
                }
            }
            let mut s = base.clone();
            for (w, u) in uses.iter().enumerate() {
                s.nodes[*u].target = Some(opts[d[w] as usize]);
            }
            out.push(s);
        }
    }
    out
}

pub fn skeletons(max_items: usize) -> Vec<Skel> {
    let mut out = vec![];
    for n in 1..=max_items {
        out.extend(skeletons_of_size(n, 3));
    }
    out
}

// ------------------------------------------------------------------ names

/// Valid identifiers of the pool (`é` is accepted since the lexer fix)
pub const VALID: [&str; 4] = ["a", "b", "T", "é"];
/// Names that are not valid non-keyword identifiers: keyword, starts with a
/// digit, two tokens, empty, identifier followed by a blank; and (seeded change
/// C18-6) words that are made of identifier characters but are not ONE identifier
/// token, so that no script could ever name the item: an AS number literal, an AS
/// number literal followed by an identifier, a boolean literal
pub const INVALID: [&str; 8] = ["accept", "1x", "a b", "", "a ", "AS1", "AS4_PATH", "true"];

#[derive(Clone, Copy, Debug, PartialEq, Eq)]
pub enum NameRef {
    /// block of the equality pattern
    Block(u8),
    Invalid(u8),
}

/// restricted growth strings of length n with at most `VALID.len()` blocks
fn rgs(n: usize) -> Vec<Vec<u8>> {
    let mut out = vec![];
    fn rec(n: usize, cur: &mut Vec<u8>, max: u8, out: &mut Vec<Vec<u8>>) {
        if cur.len() == n {
            out.push(cur.clone());
            return;
        }
        for b in 0..=max.min(VALID.len() as u8 - 1) {
            cur.push(b);
            let nm = if b == max { max + 1 } else { max };
            rec(n, cur, nm, out);
            cur.pop();
        }
    }
    rec(n, &mut vec![], 0, &mut out);
    // simplest first: all-distinct names before patterns with equal names
    out.sort_by_key(|p| {
        let blocks = p.iter().copied().max().map_or(0, |m| m as usize + 1);
        (p.len() - blocks, p.clone())
    });
    out
}

/// Name patterns for n named items: every equality pattern over valid names,
/// then every (item, invalid name) with every equality pattern of the others.
pub fn patterns(n: usize) -> &'static Vec<Vec<NameRef>> {
    static CACHE: std::sync::OnceLock<Vec<Vec<Vec<NameRef>>>> = std::sync::OnceLock::new();
    &CACHE.get_or_init(|| (0..=8).map(compute_patterns).collect())[n]
}

fn compute_patterns(n: usize) -> Vec<Vec<NameRef>> {
    let mut out: Vec<Vec<NameRef>> = vec![];
    for p in rgs(n) {
        out.push(p.into_iter().map(NameRef::Block).collect());
    }
    if n > 0 {
        for i in 0..n {
            for v in 0..INVALID.len() {
                for p in rgs(n - 1) {
                    let mut names: Vec<NameRef> = p.into_iter().map(NameRef::Block).collect();
                    names.insert(i, NameRef::Invalid(v as u8));
                    out.push(names);
                }
            }
        }
    }
    out
}

/// the patterns without an invalid name come first
pub fn n_valid_patterns(n: usize) -> usize {
    patterns(n).iter().take_while(|p| p.iter().all(|r| matches!(r, NameRef::Block(_)))).count()
}

pub fn name_of(r: NameRef, rot: usize) -> &'static str {
    match r {
        NameRef::Block(b) => VALID[(b as usize + rot) % VALID.len()],
        NameRef::Invalid(v) => INVALID[v as usize],
    }
}

// ------------------------------------------------------------------ concrete libraries

/// One literal item of a literal library
#[derive(Clone, Debug)]
pub struct CItem {
    /// skeleton node index; the item's tag is derived from it
    pub id: usize,
    pub k: K,
    /// name of a named item
    pub name: String,
    /// literal path of a `use`
    pub path: Vec<String>,
    pub target: Option<Target>,
    pub ch: Vec<CItem>,
}

impl CItem {
    pub fn tag(&self) -> u32 {
        tag_of(self.id)
    }
}

pub fn tag_of(id: usize) -> u32 {
    101 + 13 * id as u32
}

/// A literal registration history: 1-2 `add` calls, each an ordered item list
#[derive(Clone, Debug)]
pub struct Lib {
    pub adds: Vec<Vec<CItem>>,
}

impl Lib {
    pub fn all_items(&self) -> Vec<&CItem> {
        fn rec<'a>(v: &'a [CItem], out: &mut Vec<&'a CItem>) {
            for i in v {
                out.push(i);
                rec(&i.ch, out);
            }
        }
        let mut out = vec![];
        for a in &self.adds {
            rec(a, &mut out);
        }
        out
    }
}

pub fn factorial(n: usize) -> u64 {
    (1..=n as u64).product::<u64>().max(1)
}

/// k-th permutation of 0..n (lexicographic)
pub fn nth_perm(n: usize, mut k: u64) -> Vec<usize> {
    let mut items: Vec<usize> = (0..n).collect();
    let mut out = vec![];
    for i in (0..n).rev() {
        let f = factorial(i);
        let q = (k / f) as usize;
        k %= f;
        out.push(items.remove(q));
    }
    out
}

impl Skel {
    /// number of ways to distribute the top-level items over 1-2 adds
    pub fn n_splits(&self, two_adds: bool) -> u64 {
        let t = self.children(None).len();
        if !two_adds || t < 2 {
            1
        } else {
            (1u64 << t) - 1
        }
    }
    /// split index -> (items of add 1, items of add 2); split 0 is the single add
    pub fn split(&self, split: u64) -> (Vec<usize>, Vec<usize>) {
        let top = self.children(None);
        let mut a = vec![];
        let mut b = vec![];
        for (i, n) in top.iter().enumerate() {
            if split >> i & 1 == 1 {
                b.push(*n);
            } else {
                a.push(*n);
            }
        }
        (a, b)
    }
    /// radices of the permutation index for this split: add 1, add 2, then every module
    pub fn perm_radices(&self, split: u64) -> Vec<u64> {
        let (a, b) = self.split(split);
        let mut r = vec![factorial(a.len()), factorial(b.len())];
        for m in self.modules() {
            r.push(factorial(self.children(Some(m)).len()));
        }
        r
    }
    pub fn n_perms(&self, split: u64) -> u64 {
        self.perm_radices(split).iter().product()
    }

    /// The literal library for (name pattern, rotation, split, permutation)
    pub fn instantiate(&self, pat: &[NameRef], rot: usize, split: u64, perm: u64) -> Lib {
        let named = self.named();
        let mut names: Vec<String> = vec![String::new(); self.nodes.len()];
        for (slot, n) in named.iter().enumerate() {
            names[*n] = name_of(pat[slot], rot).to_string();
        }
        let radices = self.perm_radices(split);
        let d = vcore::util::decode(perm, &radices);
        let (a, b) = self.split(split);
        let mods = self.modules();
        let order = |v: &[usize], k: u64| -> Vec<usize> {
            nth_perm(v.len(), k).into_iter().map(|i| v[i]).collect()
        };
        let build = |me: &Skel, ids: Vec<usize>, f: &dyn Fn(&Skel, usize) -> CItem| -> Vec<CItem> {
            ids.into_iter().map(|i| f(me, i)).collect()
        };
        fn item(
            me: &Skel,
            i: usize,
            names: &[String],
            mods: &[usize],
            d: &[u64],
        ) -> CItem {
            let n = &me.nodes[i];
            let ch = if n.k == K::Mod {
                let pos = mods.iter().position(|m| *m == i).unwrap();
                let kids = me.children(Some(i));
                nth_perm(kids.len(), d[2 + pos])
                    .into_iter()
                    .map(|j| item(me, kids[j], names, mods, d))
                    .collect()
            } else {
                vec![]
            };
            let path = match n.target {
                Some(t) => me.target_path(t, names),
                None => vec![],
            };
            CItem { id: i, k: n.k, name: names[i].clone(), path, target: n.target, ch }
        }
        let mk = |me: &Skel, i: usize| item(me, i, &names, &mods, &d);
        let mut adds = vec![build(self, order(&a, d[0]), &mk)];
        if !b.is_empty() {
            adds.push(build(self, order(&b, d[1]), &mk));
        }
        Lib { adds }
    }

    /// absolute path of a `use` target with the given names
    pub fn target_path(&self, t: Target, names: &[String]) -> Vec<String> {
        match t {
            Target::Empty => vec![],
            Target::Accept => vec!["Verdict".into(), "Accept".into()],
            Target::OptSome => vec!["Option".into(), "Some".into()],
            Target::Missing => vec!["nope".into()],
            Target::Node(j) => {
                let j = j as usize;
                let mut p = match self.nodes[j].k {
                    K::Meth(r) | K::Stat(r) => {
                        if r == R::U {
                            vec!["u32".to_string()]
                        } else {
                            let reg = (0..self.nodes.len())
                                .find(|x| self.nodes[*x].k == K::Ty(r))
                                .unwrap();
                            self.target_path(Target::Node(reg as u8), names)
                        }
                    }
                    _ => {
                        let mut p = vec![];
                        let mut q = self.nodes[j].parent;
                        while let Some(m) = q {
                            p.insert(0, names[m].clone());
                            q = self.nodes[m].parent;
                        }
                        p
                    }
                };
                p.push(names[j].clone());
                p
            }
        }
    }
}
