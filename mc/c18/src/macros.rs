#![allow(non_snake_case, non_camel_case_types, non_upper_case_globals)]
//! The `library!` macro forms, checked on the valid subset (the macro
//! `expect`s every constructor by design): each form is paired with the
//! description of the library it must expand to; the same model and the same
//! probe scripts judge `Runtime::from_lib(library! { .. })`.

use crate::model;
use crate::real::{A, B, Obs};
use crate::space::{CItem, K, Lib, R, Target};
use crate::{Pending, judge, lib_json};
use roto::{Library, Runtime, Val, library};
use vcore::{Cx, Value, json};

pub(crate) fn named(id: usize, k: K, name: &str, ch: Vec<CItem>) -> CItem {
    CItem { id, k, name: name.into(), path: vec![], target: None, ch }
}
pub(crate) fn us(id: usize, path: &[&str]) -> CItem {
    CItem {
        id,
        k: K::Use,
        name: String::new(),
        path: path.iter().map(|s| s.to_string()).collect(),
        // only used for printing
        target: Some(Target::Missing),
        ch: vec![],
    }
}

pub struct Form {
    pub text: &'static str,
    pub lib: fn() -> Library,
    pub items: fn() -> Vec<CItem>,
}

// tags: id 0 -> 101, 1 -> 114, 2 -> 127, 3 -> 140, 4 -> 153, 5 -> 166
pub fn forms() -> Vec<Form> {
    vec![
        Form {
            text: "fn a() -> u32 { 101 }",
            lib: || library! { fn a() -> u32 { 101 } },
            items: || vec![named(0, K::Fn(R::U), "a", vec![])],
        },
        Form {
            text: "let a = || -> u32 { 101 };",
            lib: || library! { let a = || -> u32 { 101 }; },
            items: || vec![named(0, K::Fn(R::U), "a", vec![])],
        },
        Form {
            text: "fn é() -> u32 { 101 }",
            lib: || library! { fn é() -> u32 { 101 } },
            items: || vec![named(0, K::Fn(R::U), "é", vec![])],
        },
        Form {
            text: "fn a(x: Val<A>) -> u32 { 101 + x.0.0 } #[clone] type T = Val<A>;  (type declared after its use)",
            lib: || {
                library! {
                    fn a(x: Val<A>) -> u32 { 101 + x.0.0 }
                    #[clone] type T = Val<A>;
                }
            },
            items: || vec![named(0, K::Fn(R::A), "a", vec![]), named(1, K::Ty(R::A), "T", vec![])],
        },
        Form {
            text: "#[copy] type T = Val<B>; const b: Val<B> = Val(B(114)); impl Val<B> { fn a(x: Val<B>) -> u32 { 127 + x.0.0 } fn é() -> u32 { 140 } }",
            lib: || {
                library! {
                    #[copy] type T = Val<B>;
                    const b: Val<B> = Val(B(114));
                    impl Val<B> {
                        fn a(x: Val<B>) -> u32 { 127 + x.0.0 }
                        fn é() -> u32 { 140 }
                    }
                }
            },
            items: || {
                vec![
                    named(0, K::Ty(R::B), "T", vec![]),
                    named(1, K::Const(R::B), "b", vec![]),
                    named(2, K::Meth(R::B), "a", vec![]),
                    named(3, K::Stat(R::B), "é", vec![]),
                ]
            },
        },
        Form {
            text: "mod a { mod b { fn T() -> u32 { 127 } const a: u32 = 140; } fn b() -> u32 { 153 } }",
            lib: || {
                library! {
                    mod a {
                        mod b {
                            fn T() -> u32 { 127 }
                            const a: u32 = 140;
                        }
                        fn b() -> u32 { 153 }
                    }
                }
            },
            items: || {
                vec![named(
                    0,
                    K::Mod,
                    "a",
                    vec![
                        named(
                            1,
                            K::Mod,
                            "b",
                            vec![named(2, K::Fn(R::U), "T", vec![]), named(3, K::Const(R::U), "a", vec![])],
                        ),
                        named(4, K::Fn(R::U), "b", vec![]),
                    ],
                )]
            },
        },
        Form {
            text: "mod a { fn b() -> u32 { 114 } } use a::b;",
            lib: || {
                library! {
                    mod a { fn b() -> u32 { 114 } }
                    use a::b;
                }
            },
            items: || vec![named(0, K::Mod, "a", vec![named(1, K::Fn(R::U), "b", vec![])]), us(2, &["a", "b"])],
        },
        Form {
            text: "use a::{b, T}; mod a { fn b() -> u32 { 114 } const T: u32 = 127; }  (use before the module)",
            lib: || {
                library! {
                    use a::{b, T};
                    mod a {
                        fn b() -> u32 { 114 }
                        const T: u32 = 127;
                    }
                }
            },
            items: || {
                vec![
                    named(
                        0,
                        K::Mod,
                        "a",
                        vec![named(1, K::Fn(R::U), "b", vec![]), named(2, K::Const(R::U), "T", vec![])],
                    ),
                    us(3, &["a", "b"]),
                    us(4, &["a", "T"]),
                ]
            },
        },
        // nested groups in a `use` tree (seeded change C18-5: a segment pushed by one item
        // of a group leaked into the items after it): a multi-segment path or a nested
        // group first, in the middle and last, with a same-named item one level down
        Form {
            text: "mod a { fn g() -> u32 { 114 } mod b { fn f() -> u32 { 140 } fn g() -> u32 { 153 } } } use a::{b::f, g};",
            lib: || {
                library! {
                    mod a {
                        fn g() -> u32 { 114 }
                        mod b {
                            fn f() -> u32 { 140 }
                            fn g() -> u32 { 153 }
                        }
                    }
                    use a::{b::f, g};
                }
            },
            items: || {
                vec![
                    named(
                        0,
                        K::Mod,
                        "a",
                        vec![
                            named(1, K::Fn(R::U), "g", vec![]),
                            named(2, K::Mod, "b", vec![named(3, K::Fn(R::U), "f", vec![]), named(4, K::Fn(R::U), "g", vec![])]),
                        ],
                    ),
                    us(5, &["a", "b", "f"]),
                    us(6, &["a", "g"]),
                ]
            },
        },
        Form {
            text: "mod a { fn g() -> u32 { 114 } mod b { fn f() -> u32 { 140 } fn g() -> u32 { 153 } } } use a::{g, b::f};",
            lib: || {
                library! {
                    mod a {
                        fn g() -> u32 { 114 }
                        mod b {
                            fn f() -> u32 { 140 }
                            fn g() -> u32 { 153 }
                        }
                    }
                    use a::{g, b::f};
                }
            },
            items: || {
                vec![
                    named(
                        0,
                        K::Mod,
                        "a",
                        vec![
                            named(1, K::Fn(R::U), "g", vec![]),
                            named(2, K::Mod, "b", vec![named(3, K::Fn(R::U), "f", vec![]), named(4, K::Fn(R::U), "g", vec![])]),
                        ],
                    ),
                    us(5, &["a", "g"]),
                    us(6, &["a", "b", "f"]),
                ]
            },
        },
        Form {
            text: "mod a { fn g() -> u32 { 114 } const K: u32 = 127; mod b { fn f() -> u32 { 153 } fn h() -> u32 { 166 } } } use a::{K, b::{f, h}, g};",
            lib: || {
                library! {
                    mod a {
                        fn g() -> u32 { 114 }
                        const K: u32 = 127;
                        mod b {
                            fn f() -> u32 { 153 }
                            fn h() -> u32 { 166 }
                        }
                    }
                    use a::{K, b::{f, h}, g};
                }
            },
            items: || {
                vec![
                    named(
                        0,
                        K::Mod,
                        "a",
                        vec![
                            named(1, K::Fn(R::U), "g", vec![]),
                            named(2, K::Const(R::U), "K", vec![]),
                            named(3, K::Mod, "b", vec![named(4, K::Fn(R::U), "f", vec![]), named(5, K::Fn(R::U), "h", vec![])]),
                        ],
                    ),
                    us(6, &["a", "K"]),
                    us(7, &["a", "b", "f"]),
                    us(8, &["a", "b", "h"]),
                    us(9, &["a", "g"]),
                ]
            },
        },
        Form {
            text: "use Verdict::Accept;",
            lib: || library! { use Verdict::Accept; },
            items: || vec![us(0, &["Verdict", "Accept"])],
        },
        Form {
            text: "impl u32 { fn a(x: u32) -> u32 { 101 + x } fn b() -> u32 { 114 } }",
            lib: || {
                library! {
                    impl u32 {
                        fn a(x: u32) -> u32 { 101 + x }
                        fn b() -> u32 { 114 }
                    }
                }
            },
            items: || vec![named(0, K::Meth(R::U), "a", vec![]), named(1, K::Stat(R::U), "b", vec![])],
        },
        Form {
            text: "let inner = library! { fn a() -> u32 { 114 } }; library! { mod b { include!(inner); } }",
            lib: || {
                let inner = library! { fn a() -> u32 { 114 } };
                library! { mod b { include!(inner); } }
            },
            items: || vec![named(0, K::Mod, "b", vec![named(1, K::Fn(R::U), "a", vec![])])],
        },
        Form {
            text: "mod a { #[clone] type T = Val<A>; } fn b(x: Val<A>) -> u32 { 127 + x.0.0 } const é: Val<A> = Val(A(140)); use a::T;",
            lib: || {
                library! {
                    mod a { #[clone] type T = Val<A>; }
                    fn b(x: Val<A>) -> u32 { 127 + x.0.0 }
                    const é: Val<A> = Val(A(140));
                    use a::T;
                }
            },
            items: || {
                vec![
                    named(0, K::Mod, "a", vec![named(1, K::Ty(R::A), "T", vec![])]),
                    named(2, K::Fn(R::A), "b", vec![]),
                    named(3, K::Const(R::A), "é", vec![]),
                    us(4, &["a", "T"]),
                ]
            },
        },
        Form {
            text: "#[clone] type T = Val<A>; impl Val<A> { fn a() -> u32 { 114 } } use T::a;",
            lib: || {
                library! {
                    #[clone] type T = Val<A>;
                    impl Val<A> { fn a() -> u32 { 114 } }
                    use T::a;
                }
            },
            items: || {
                vec![named(0, K::Ty(R::A), "T", vec![]), named(1, K::Stat(R::A), "a", vec![]), us(2, &["T", "a"])]
            },
        },
        // the two known-defective constructs, through the macro
        Form {
            text: "mod a { mod b { fn T() -> u32 { 127 } } } use a::b::T;",
            lib: || {
                library! {
                    mod a { mod b { fn T() -> u32 { 127 } } }
                    use a::b::T;
                }
            },
            items: || {
                vec![
                    named(0, K::Mod, "a", vec![named(1, K::Mod, "b", vec![named(2, K::Fn(R::U), "T", vec![])])]),
                    us(3, &["a", "b", "T"]),
                ]
            },
        },
        Form {
            text: "mod a { fn b() -> u32 { 114 } } mod T { use a::b; }",
            lib: || {
                library! {
                    mod a { fn b() -> u32 { 114 } }
                    mod T { use a::b; }
                }
            },
            items: || {
                vec![
                    named(0, K::Mod, "a", vec![named(1, K::Fn(R::U), "b", vec![])]),
                    named(2, K::Mod, "T", vec![us(3, &["a", "b"])]),
                ]
            },
        },
        Form {
            text: "fn accept() -> u32 { 101 }  (a Roto keyword that is an ordinary Rust identifier)",
            lib: || library! { fn accept() -> u32 { 101 } },
            items: || vec![named(0, K::Fn(R::U), "accept", vec![])],
        },
        Form {
            text: "fn dep() -> u32 { 101 }  (a Roto keyword that is an ordinary Rust identifier)",
            lib: || library! { fn dep() -> u32 { 101 } },
            items: || vec![named(0, K::Fn(R::U), "dep", vec![])],
        },
        Form {
            text: "fn filter() -> u32 { 101 }  (a Roto keyword that is an ordinary Rust identifier)",
            lib: || library! { fn filter() -> u32 { 101 } },
            items: || vec![named(0, K::Fn(R::U), "filter", vec![])],
        },
        Form {
            text: "fn filtermap() -> u32 { 101 }  (a Roto keyword that is an ordinary Rust identifier)",
            lib: || library! { fn filtermap() -> u32 { 101 } },
            items: || vec![named(0, K::Fn(R::U), "filtermap", vec![])],
        },
        Form {
            text: "fn import() -> u32 { 101 }  (a Roto keyword that is an ordinary Rust identifier)",
            lib: || library! { fn import() -> u32 { 101 } },
            items: || vec![named(0, K::Fn(R::U), "import", vec![])],
        },
        Form {
            text: "fn pkg() -> u32 { 101 }  (a Roto keyword that is an ordinary Rust identifier)",
            lib: || library! { fn pkg() -> u32 { 101 } },
            items: || vec![named(0, K::Fn(R::U), "pkg", vec![])],
        },
        Form {
            text: "fn record() -> u32 { 101 }  (a Roto keyword that is an ordinary Rust identifier)",
            lib: || library! { fn record() -> u32 { 101 } },
            items: || vec![named(0, K::Fn(R::U), "record", vec![])],
        },
        Form {
            text: "fn reject() -> u32 { 101 }  (a Roto keyword that is an ordinary Rust identifier)",
            lib: || library! { fn reject() -> u32 { 101 } },
            items: || vec![named(0, K::Fn(R::U), "reject", vec![])],
        },
        Form {
            text: "fn std() -> u32 { 101 }  (a Roto keyword that is an ordinary Rust identifier)",
            lib: || library! { fn std() -> u32 { 101 } },
            items: || vec![named(0, K::Fn(R::U), "std", vec![])],
        },
        Form {
            text: "fn test() -> u32 { 101 }  (a Roto keyword that is an ordinary Rust identifier)",
            lib: || library! { fn test() -> u32 { 101 } },
            items: || vec![named(0, K::Fn(R::U), "test", vec![])],
        },
        Form {
            text: "mod test { fn a() -> u32 { 114 } }",
            lib: || library! { mod test { fn a() -> u32 { 114 } } },
            items: || vec![named(0, K::Mod, "test", vec![named(1, K::Fn(R::U), "a", vec![])])],
        },
        Form {
            text: "const accept: u32 = 101;",
            lib: || library! { const accept: u32 = 101; },
            items: || vec![named(0, K::Const(R::U), "accept", vec![])],
        },
        Form {
            text: "#[clone] type record = Val<A>;",
            lib: || library! { #[clone] type record = Val<A>; },
            items: || vec![named(0, K::Ty(R::A), "record", vec![])],
        },
        Form {
            text: "fn r#match() -> u32 { 101 }  (a raw identifier)",
            lib: || library! { fn r#match() -> u32 { 101 } },
            items: || vec![named(0, K::Fn(R::U), "r#match", vec![])],
        },
    ]
}

pub fn describe(sub: u64) -> Value {
    let fs = forms();
    match fs.get((sub / 2) as usize) {
        Some(f) => {
            let lib = Lib { adds: vec![(f.items)()] };
            let pred = model::predict(&lib);
            let mut c = lib_json(&lib, &pred);
            c["library_macro"] = json!(f.text);
            c
        }
        None => json!({"macro_form": sub}),
    }
}

/// sub = 2 * form + (0: Runtime::from_lib, 1: Runtime::new() + add)
pub fn run(cx: &mut Cx) {
    for (i, f) in forms().iter().enumerate() {
        for via_add in [false, true] {
            let sub = 2 * i as u64 + via_add as u64;
            if !cx.case(sub) {
                continue;
            }
            let lib = Lib { adds: vec![(f.items)()] };
            let pred = model::predict(&lib);
            cx.states(1);
            cx.nontrivial(vcore::util::mix(0x18, sub));
            if pred.open {
                cx.note(format!("macro form {i} is outside the specified subset"));
                continue;
            }
            if !pred.construct_ok {
                // an invalid name: the library value carries no error, so the
                // RegistrationError may come from from_lib / add — but it
                // must be an error, never a panic
                cx.transitions(1);
                cx.validated(1);
                cx.count("library_macro_forms_run", 1);
                let r = vcore::util::catch(|| {
                    let l = (f.lib)();
                    if via_add {
                        let mut rt = Runtime::new();
                        rt.add(l).map(|_| ())
                    } else {
                        Runtime::from_lib(l).map(|_| ())
                    }
                });
                cx.outcome(vcore::util::fnv_str(&format!("{:?}", r.as_ref().map(|x| x.is_ok()))));
                let (class, observed) = match r {
                    Ok(Err(_)) => continue,
                    Ok(Ok(())) => ("add-result", json!({"summary": "Ok", "steps": ["ok", "ok"], "error": ""})),
                    Err(p) => ("panic", json!({"summary": format!("PANIC: {p}"), "steps": ["panic"], "error": p})),
                };
                let mut c = lib_json(&lib, &pred);
                c["library_macro"] = json!(f.text);
                c["entry_point"] = json!(if via_add { "Runtime::new() + add" } else { "Runtime::from_lib" });
                cx.violation(
                    class,
                    sub,
                    c,
                    json!({"summary": "a RegistrationError (from the library value, from_lib or add), never a panic", "steps": ["err"]}),
                    observed,
                );
                continue;
            }
            let mut obs = Obs { construct: Ok(()), adds: vec![], panic: None };
            let r = vcore::util::catch(|| {
                let l = (f.lib)();
                if via_add {
                    let mut rt = Runtime::new();
                    rt.add(l).map(|_| rt)
                } else {
                    Runtime::from_lib(l)
                }
            });
            let rt = match r {
                Err(p) => {
                    obs.panic = Some(p);
                    None
                }
                Ok(Err(e)) => {
                    obs.adds.push(Err(e.to_string().lines().nth(1).unwrap_or("").trim().to_string()));
                    None
                }
                Ok(Ok(rt)) => {
                    obs.adds.push(Ok(()));
                    Some(rt)
                }
            };
            let mut pend: Vec<Pending> = vec![];
            let o = judge(&lib, &pred, &obs, rt.as_ref(), cx, true, &mut pend);
            cx.outcome(o.sig);
            cx.count("library_macro_forms_run", 1);
            for mut p in pend {
                p.case["library_macro"] = json!(f.text);
                p.case["entry_point"] = json!(if via_add { "Runtime::new() + add" } else { "Runtime::from_lib" });
                cx.violation(p.class, sub, p.case, p.expected, p.observed);
            }
        }
    }
}
