//! Reference model of registration, written from the property statement and
//! the documentation of `library!` / `Runtime::add` only.
//!
//! * every scope (the root, a module, a registered type) has ONE namespace:
//!   modules, types, functions, constants and imported names share it;
//! * methods and static methods of an impl block live in the scope of the type
//!   the block names, wherever the block itself is written;
//! * a `use` adds the last segment of its path as a name to the scope the
//!   `use` is located in; its path is absolute (from the root);
//! * constructing an item fails iff its name is not a valid non-keyword identifier;
//! * `add` fails iff a name is already taken in its scope, a Rust type is
//!   registered twice (in this or an earlier add), or a signature / impl block
//!   / constant mentions a Rust type that is registered neither earlier nor
//!   anywhere in the same add (item order is not significant);
//! * left open (no Ok/Err prediction, "unspecified"): a `use` whose path is
//!   empty or names nothing that exists at that time, and a `use` that
//!   re-imports an item into the scope that declares it (`use f;` next to `f`).

use crate::space::{CItem, K, Lib, R};
use std::collections::BTreeMap;

#[derive(Clone, Debug, PartialEq, Eq, PartialOrd, Ord)]
pub enum ScopeKey {
    /// the root (`[]`) or a module, by absolute path
    Mod(Vec<String>),
    /// the scope of the Roto type registered for this Rust type
    Ty(R),
}

#[derive(Clone, Debug, PartialEq, Eq)]
pub enum Den {
    /// an item of the library (skeleton node id)
    Item(usize),
    /// a variant of a built-in enum
    Variant(&'static str),
    /// a built-in enum (scope of its variants)
    BuiltinEnum(&'static str),
    /// the built-in type u32
    BuiltinU32,
    /// another built-in type of the root (primitive or List)
    BuiltinType,
}

#[derive(Clone, Debug)]
pub struct ItemInfo {
    pub k: K,
    pub name: String,
    pub scope: ScopeKey,
}

#[derive(Clone, Debug, Default)]
pub struct Scope {
    pub decls: BTreeMap<String, Den>,
    /// name -> (what it denotes, id of the use item)
    pub imports: BTreeMap<String, (Den, usize)>,
}

#[derive(Clone, Debug)]
pub struct State {
    pub scopes: BTreeMap<ScopeKey, Scope>,
    /// Rust type -> (module path, Roto name) of its registration
    pub types: BTreeMap<R, (Vec<String>, String)>,
    pub items: BTreeMap<usize, ItemInfo>,
    /// imports whose target did not exist: (location, name, use id)
    pub dangling: Vec<(Vec<String>, String, usize)>,
}

#[derive(Clone, Debug, PartialEq, Eq)]
pub struct Defect {
    pub class: &'static str,
    /// for duplicate names: who collides with whom ("decl-decl", "decl-import",
    /// "import-decl", "import-import"); otherwise ""
    pub kind: &'static str,
    /// the collision is in the root scope
    pub at_root: bool,
    pub detail: String,
}

/// Types the default runtime declares in the root (next to Option, Result, Verdict)
pub const BUILTIN_TYPE_NAMES: [&str; 17] = [
    "bool", "u8", "u16", "u32", "u64", "i8", "i16", "i32", "i64", "f32", "f64", "char", "String",
    "Asn", "IpAddr", "Prefix", "List",
];

pub fn valid_ident(s: &str) -> bool {
    const KW: [&str; 24] = [
        "accept", "const", "dep", "else", "enum", "filter", "filtermap", "for", "fn", "if",
        "import", "in", "let", "match", "pkg", "record", "reject", "return", "std", "super",
        "test", "while", "true", "false",
    ];
    let mut cs = s.chars();
    let Some(c) = cs.next() else { return false };
    if !(c.is_alphabetic() || c == '_') {
        return false;
    }
    if !cs.all(|c| c.is_alphanumeric() || c == '_') {
        return false;
    }
    // `AS` followed by a digit is the start of an AS number literal, whatever follows
    if s.starts_with("AS") && s[2..].starts_with(|c: char| c.is_ascii_digit()) {
        return false;
    }
    !KW.contains(&s)
}

impl State {
    pub fn new() -> State {
        let mut root = Scope::default();
        root.decls.insert("Verdict".into(), Den::BuiltinEnum("Verdict"));
        root.decls.insert("Option".into(), Den::BuiltinEnum("Option"));
        root.decls.insert("Result".into(), Den::BuiltinEnum("Result"));
        for n in BUILTIN_TYPE_NAMES {
            root.decls.insert(n.to_string(), Den::BuiltinType);
        }
        root.decls.insert("u32".into(), Den::BuiltinU32);
        for n in ["Some", "None", "Ok", "Err"] {
            root.imports.insert(n.into(), (Den::Variant(n), usize::MAX));
        }
        let mut scopes = BTreeMap::new();
        scopes.insert(ScopeKey::Mod(vec![]), root);
        scopes.insert(ScopeKey::Ty(R::U), Scope::default());
        let mut types = BTreeMap::new();
        types.insert(R::U, (vec![], "u32".to_string()));
        State { scopes, types, items: BTreeMap::new(), dangling: vec![] }
    }

    pub fn type_path(&self, r: R) -> Option<String> {
        let (p, n) = self.types.get(&r)?;
        let mut v = p.clone();
        v.push(n.clone());
        Some(v.join("."))
    }

    fn scope_mut(&mut self, k: &ScopeKey) -> &mut Scope {
        self.scopes.entry(k.clone()).or_default()
    }

    /// Resolve an absolute use path to (scope of the last segment, what it denotes)
    fn resolve(&self, path: &[String]) -> Option<Den> {
        let mut cur = ScopeKey::Mod(vec![]);
        for (i, seg) in path.iter().enumerate() {
            let sc = self.scopes.get(&cur)?;
            let den = match sc.decls.get(seg) {
                Some(d) => d.clone(),
                // the first segment is looked up like a name in the root:
                // a name another `use` brought in counts
                None if i == 0 => sc.imports.get(seg)?.0.clone(),
                None => return None,
            };
            if i + 1 == path.len() {
                return Some(den);
            }
            cur = match &den {
                Den::Item(id) => match self.items[id].k {
                    K::Mod => {
                        let ScopeKey::Mod(p) = &self.items[id].scope else { return None };
                        let mut p = p.clone();
                        p.push(self.items[id].name.clone());
                        ScopeKey::Mod(p)
                    }
                    K::Ty(r) => ScopeKey::Ty(r),
                    _ => return None,
                },
                Den::BuiltinU32 => ScopeKey::Ty(R::U),
                Den::BuiltinEnum(e) => {
                    // variants of the built-in enums
                    let last = i + 2 == path.len();
                    let v = path[i + 1].as_str();
                    let ok = match *e {
                        "Verdict" => ["Accept", "Reject"].contains(&v),
                        "Option" => ["Some", "None"].contains(&v),
                        _ => ["Ok", "Err"].contains(&v),
                    };
                    if last && ok {
                        let v: &'static str = match v {
                            "Accept" => "Accept",
                            "Reject" => "Reject",
                            "Some" => "Some",
                            "None" => "None",
                            "Ok" => "Ok",
                            _ => "Err",
                        };
                        return Some(Den::Variant(v));
                    }
                    return None;
                }
                _ => return None,
            };
        }
        None
    }

    /// One `add` call. Returns every defect of this add (none = Ok, state
    /// updated) and whether the outcome is left open by the documentation.
    pub fn add(&mut self, items: &[CItem]) -> (Vec<Defect>, bool) {
        let mut st = self.clone();
        let mut defects: Vec<Defect> = vec![];
        let mut open = false;
        let mut mentions: Vec<R> = vec![];
        let mut impl_fns: Vec<&CItem> = vec![];
        let mut uses: Vec<(ScopeKey, &CItem)> = vec![];

        fn declare(
            st: &mut State,
            defects: &mut Vec<Defect>,
            scope: &ScopeKey,
            it: &CItem,
        ) {
            let at_root = *scope == ScopeKey::Mod(vec![]);
            let sc = st.scope_mut(scope);
            if sc.decls.contains_key(&it.name) || sc.imports.contains_key(&it.name) {
                defects.push(Defect {
                    class: "duplicate-name",
                    kind: if sc.decls.contains_key(&it.name) { "decl-decl" } else { "decl-import" },
                    at_root,
                    detail: format!("`{}` is already taken in {:?}", it.name, scope),
                });
            } else {
                sc.decls.insert(it.name.clone(), Den::Item(it.id));
            }
            st.items.insert(it.id, ItemInfo { k: it.k, name: it.name.clone(), scope: scope.clone() });
        }

        fn walk<'a>(
            st: &mut State,
            defects: &mut Vec<Defect>,
            mentions: &mut Vec<R>,
            impl_fns: &mut Vec<&'a CItem>,
            uses: &mut Vec<(ScopeKey, &'a CItem)>,
            path: &[String],
            items: &'a [CItem],
        ) {
            let here = ScopeKey::Mod(path.to_vec());
            for it in items {
                match it.k {
                    K::Mod => {
                        declare(st, defects, &here, it);
                        let mut p = path.to_vec();
                        p.push(it.name.clone());
                        st.scope_mut(&ScopeKey::Mod(p.clone()));
                        walk(st, defects, mentions, impl_fns, uses, &p, &it.ch);
                    }
                    K::Ty(r) => {
                        declare(st, defects, &here, it);
                        if st.types.contains_key(&r) {
                            defects.push(Defect {
                                class: "type-registered-twice",
                                kind: "",
                                at_root: false,
                                detail: format!("{} is registered twice", r.rust()),
                            });
                        } else {
                            st.types.insert(r, (path.to_vec(), it.name.clone()));
                            st.scope_mut(&ScopeKey::Ty(r));
                        }
                    }
                    K::Fn(r) | K::Const(r) => {
                        declare(st, defects, &here, it);
                        if r != R::U {
                            mentions.push(r);
                        }
                    }
                    K::Meth(r) | K::Stat(r) => {
                        if r != R::U {
                            mentions.push(r);
                        }
                        impl_fns.push(it);
                    }
                    K::Use => uses.push((ScopeKey::Mod(path.to_vec()), it)),
                    K::ImplUse(r) => {
                        if r != R::U {
                            mentions.push(r);
                        }
                        uses.push((ScopeKey::Ty(r), it));
                    }
                }
            }
        }
        walk(&mut st, &mut defects, &mut mentions, &mut impl_fns, &mut uses, &[], items);

        mentions.sort();
        mentions.dedup();
        for r in mentions {
            if !st.types.contains_key(&r) {
                defects.push(Defect {
                    class: "unregistered-type",
                    kind: "",
                    at_root: false,
                    detail: format!("{} is mentioned but not registered", r.rust()),
                });
            }
        }
        for it in impl_fns {
            let (K::Meth(r) | K::Stat(r)) = it.k else { unreachable!() };
            if st.types.contains_key(&r) {
                declare(&mut st, &mut defects, &ScopeKey::Ty(r), it);
            }
        }
        // uses may depend on each other (`use a::b; use b::f;`): resolve until
        // nothing changes; what is left names nothing
        let mut pending = uses;
        loop {
            let before = pending.len();
            let mut rest = vec![];
            for (here, it) in pending {
                if it.path.is_empty() {
                    open = true;
                    continue;
                }
                let name = it.path.last().unwrap().clone();
                let Some(den) = st.resolve(&it.path) else {
                    rest.push((here, it));
                    continue;
                };
                if matches!(here, ScopeKey::Ty(_)) {
                    // a use inside an impl block: the documentation allows the
                    // same items as elsewhere; rejecting it would be in line
                    // with the other items an impl block refuses, so Ok/Err is
                    // open — but after Ok the name must be usable there
                    open = true;
                    if !st.scopes.contains_key(&here) {
                        continue; // impl block of an unregistered type: reported above
                    }
                }
                let at_root = here == ScopeKey::Mod(vec![]);
                let sc = st.scope_mut(&here);
                if let Some(d) = sc.decls.get(&name) {
                    if *d == den {
                        // `use f;` in the scope that declares f
                        open = true;
                    } else {
                        defects.push(Defect {
                            class: "duplicate-name",
                            kind: "import-decl",
                            at_root,
                            detail: format!("imported name `{name}` is already declared in {here:?}"),
                        });
                    }
                } else if sc.imports.contains_key(&name) {
                    defects.push(Defect {
                        class: "duplicate-name",
                        kind: "import-import",
                        at_root,
                        detail: format!("imported name `{name}` is already imported in {here:?}"),
                    });
                } else {
                    sc.imports.insert(name, (den, it.id));
                }
            }
            pending = rest;
            if pending.is_empty() || pending.len() == before {
                break;
            }
        }
        for (here, it) in pending {
            open = true;
            let loc = match &here {
                ScopeKey::Mod(p) => p.clone(),
                ScopeKey::Ty(_) => vec!["<impl>".to_string()],
            };
            st.dangling.push((loc, it.path.last().unwrap().clone(), it.id));
        }
        if defects.is_empty() {
            *self = st;
        }
        (defects, open)
    }
}

#[derive(Clone, Debug)]
pub struct Pred {
    /// every item constructor returns Ok
    pub construct_ok: bool,
    /// result of each add that is reached (stops after the first Err)
    pub adds: Vec<bool>,
    /// the documentation leaves the Ok/Err outcome open
    pub open: bool,
    pub defects: Vec<Defect>,
    /// state after the last successful add
    pub state: State,
}

impl Pred {
    /// {"summary", "steps": ["ok"|"err" for the constructors, add#1, add#2], "open"}
    pub fn json(&self) -> vcore::Value {
        let mut steps: Vec<&str> = vec![if self.construct_ok { "ok" } else { "err" }];
        for a in &self.adds {
            steps.push(if *a { "ok" } else { "err" });
        }
        vcore::json!({"summary": self.summary(), "steps": steps, "open": self.open})
    }
    pub fn all_ok(&self) -> bool {
        self.construct_ok && self.adds.iter().all(|b| *b)
    }
    pub fn summary(&self) -> String {
        if !self.construct_ok {
            return "Err from an item constructor".into();
        }
        let mut s: Vec<String> = self
            .adds
            .iter()
            .enumerate()
            .map(|(i, ok)| format!("add#{}: {}", i + 1, if *ok { "Ok" } else { "Err" }))
            .collect();
        if self.open {
            s.push("(Ok/Err left open by the documentation)".into());
        }
        s.join(", ")
    }
}

pub fn predict(lib: &Lib) -> Pred {
    let mut defects = vec![];
    for it in lib.all_items() {
        if !it.k.is_use() && !valid_ident(&it.name) {
            defects.push(Defect {
                class: "invalid-name",
                kind: "",
                at_root: false,
                detail: format!("{:?} is not a valid non-keyword identifier", it.name),
            });
        }
    }
    let mut state = State::new();
    if !defects.is_empty() {
        return Pred { construct_ok: false, adds: vec![], open: false, defects, state };
    }
    let mut adds = vec![];
    let mut open = false;
    for a in &lib.adds {
        let (d, o) = state.add(a);
        open |= o;
        let ok = d.is_empty();
        adds.push(ok);
        defects.extend(d);
        if !ok {
            break;
        }
    }
    Pred { construct_ok: true, adds, open, defects, state }
}

/// Number of independent defects of the library as a whole (all items in one
/// add): invalid names + names taken + Rust types registered twice + distinct
/// unregistered Rust types + uses of an empty path or of nothing (the two
/// injected use defects whose outcome the documentation leaves open).
/// Used to keep the libraries with at most one.
pub fn static_defects(single_add: &Lib) -> usize {
    let mut n = 0;
    for it in single_add.all_items() {
        if !it.k.is_use() && !valid_ident(&it.name) {
            n += 1;
        }
        if it.k.is_use()
            && matches!(it.target, Some(crate::space::Target::Empty | crate::space::Target::Missing))
        {
            n += 1;
        }
    }
    let mut st = State::new();
    let (d, _) = st.add(&single_add.adds[0]);
    n + d.len()
}
