//! Context types (adjacent to registration): `with_context_type::<C>()` must
//! return Err when a field of C has a type that is not registered in THIS
//! runtime — and a runtime it accepted must still compile scripts.
//!
//! Field types: a primitive; a Val type registered in this runtime; a Val
//! type known only to the process-wide TypeRegistry (an item was built for
//! another runtime); a Val type nobody ever resolved; a compound type.

use crate::real::{A, B};
use roto::{Context, FileTree, Impl, Runtime, Type, Val, location};
use vcore::{Cx, Value, json};

#[derive(Clone, PartialEq, Debug)]
pub struct Never(pub u32);

#[derive(Clone, Context)]
pub struct CPrim {
    pub k: u32,
}
#[derive(Clone, Context)]
pub struct CValA {
    pub k: Val<A>,
}
#[derive(Clone, Context)]
pub struct CValB {
    pub k: Val<B>,
}
#[derive(Clone, Context)]
pub struct CNever {
    pub k: Val<Never>,
}
#[derive(Clone, Context)]
pub struct COpt {
    pub k: Option<u32>,
}
#[derive(Clone, Context)]
pub struct CTwo {
    pub j: u32,
    pub k: Val<A>,
}

struct Config {
    text: &'static str,
    /// the model: with_context_type returns Ok
    ok: bool,
    /// Ok(value of the script `fn q() -> u32 { .. }`) / Err(message) / panic
    run: fn() -> Result<Result<Option<u32>, String>, String>,
}

/// compile a script on a runtime with context and call `q`
fn finish<C: Context + Clone + 'static>(
    rt: Result<Runtime<roto::Ctx<C>>, String>,
    script: &str,
    mut ctx: C,
) -> Result<Option<u32>, String> {
    let rt = rt?;
    // Ok(None): accepted, and then the compiler must not panic
    let compiled = vcore::util::catch(|| {
        FileTree::test_file("script.roto", script, 0).compile(&rt).map_err(|_| ())
    });
    match compiled {
        Err(p) => Ok(Some(panic_marker(&p))),
        Ok(Err(())) => Ok(None),
        Ok(Ok(mut pkg)) => {
            let f = pkg.get_function::<fn() -> u32>("q").map_err(|e| format!("get_function: {e}"));
            match f {
                Ok(f) => Ok(Some(f.call(&mut ctx))),
                Err(_) => Ok(None),
            }
        }
    }
}

thread_local! {
    static LAST_PANIC: std::cell::RefCell<String> = const { std::cell::RefCell::new(String::new()) };
}
const PANIC: u32 = u32::MAX;
fn panic_marker(p: &str) -> u32 {
    LAST_PANIC.with(|l| *l.borrow_mut() = p.to_string());
    PANIC
}

fn rt_with_a() -> Runtime<roto::NoCtx> {
    let mut rt = Runtime::new();
    rt.add(Type::clone::<Val<A>>("T", "", location!()).unwrap()).unwrap();
    rt
}

fn configs() -> Vec<Config> {
    vec![
        Config {
            text: "struct C { pub k: u32 }  Runtime::new().with_context_type::<C>()",
            ok: true,
            run: || {
                vcore::util::catch(|| {
                    finish(Runtime::new().with_context_type::<CPrim>(), "fn q() -> u32 { k + 1 }\n", CPrim { k: 76 })
                })
            },
        },
        Config {
            text: "struct C { pub k: Val<A> }  rt.add(Type::clone::<Val<A>>(\"T\")); rt.with_context_type::<C>()",
            ok: true,
            run: || {
                vcore::util::catch(|| {
                    finish(
                        rt_with_a().with_context_type::<CValA>(),
                        "fn keep(x: T) -> T { x }\nfn q() -> u32 { let y = keep(k); 77 }\n",
                        CValA { k: Val(A(1)) },
                    )
                })
            },
        },
        Config {
            text: "struct C { pub k: Val<A> }  let _elsewhere = Type::clone::<Val<A>>(\"T\"); Runtime::new().with_context_type::<C>()  (Val<A> is registered in no add of this runtime)",
            ok: false,
            run: || {
                vcore::util::catch(|| {
                    let _elsewhere = Type::clone::<Val<A>>("T", "", location!());
                    finish(Runtime::new().with_context_type::<CValA>(), "fn q() -> u32 { 77 }\n", CValA { k: Val(A(1)) })
                })
            },
        },
        Config {
            text: "struct C { pub k: Val<B> }  other.add(Type::copy::<Val<B>>(\"T\")); Runtime::new().with_context_type::<C>()  (Val<B> is registered in ANOTHER runtime)",
            ok: false,
            run: || {
                vcore::util::catch(|| {
                    let mut other = Runtime::new();
                    let _ = other.add(Type::copy::<Val<B>>("T", "", location!()).unwrap());
                    finish(Runtime::new().with_context_type::<CValB>(), "fn q() -> u32 { 77 }\n", CValB { k: Val(B(1)) })
                })
            },
        },
        Config {
            text: "struct C { pub k: Val<Never> }  Runtime::new().with_context_type::<C>()  (nobody ever resolved Val<Never>)",
            ok: false,
            run: || {
                vcore::util::catch(|| {
                    finish(Runtime::new().with_context_type::<CNever>(), "fn q() -> u32 { 77 }\n", CNever { k: Val(Never(1)) })
                })
            },
        },
        Config {
            text: "struct C { pub k: Option<u32> }  let _ = Impl::new::<Option<u32>>(..); Runtime::new().with_context_type::<C>()  (a compound type is not a registered type)",
            ok: false,
            run: || {
                vcore::util::catch(|| {
                    let _resolved = Impl::new::<Option<u32>>(location!());
                    finish(Runtime::new().with_context_type::<COpt>(), "fn q() -> u32 { 77 }\n", COpt { k: Some(1) })
                })
            },
        },
        Config {
            text: "struct C { pub j: u32, pub k: Val<A> }  Runtime::new().with_context_type::<C>()  (second field unregistered here)",
            ok: false,
            run: || {
                vcore::util::catch(|| {
                    let _elsewhere = Type::clone::<Val<A>>("T", "", location!());
                    finish(Runtime::new().with_context_type::<CTwo>(), "fn q() -> u32 { j + 1 }\n", CTwo { j: 76, k: Val(A(1)) })
                })
            },
        },
        Config {
            text: "struct C { pub j: u32, pub k: Val<A> }  rt.add(Type::clone::<Val<A>>(\"T\")); rt.with_context_type::<C>()",
            ok: true,
            run: || {
                vcore::util::catch(|| {
                    finish(rt_with_a().with_context_type::<CTwo>(), "fn q() -> u32 { j + 1 }\n", CTwo { j: 76, k: Val(A(1)) })
                })
            },
        },
    ]
}

pub fn n_configs() -> usize {
    configs().len()
}

fn case(c: &Config) -> Value {
    json!({"family": "context-type", "library": c.text, "uses": [], "model_defects": [], "invalid_names": [], "type_names": [],
           "model": if c.ok { "with_context_type: Ok, scripts compile, `q()` = 77" } else { "with_context_type: Err" }})
}

pub fn describe(sub: u64) -> Value {
    match configs().get(sub as usize) {
        Some(c) => case(c),
        None => json!({"family": "context-type", "sub": sub.to_string()}),
    }
}

pub fn run(cx: &mut Cx) {
    for (i, c) in configs().iter().enumerate() {
        let sub = i as u64;
        if !cx.case(sub) {
            continue;
        }
        cx.states(1);
        cx.nontrivial(vcore::util::mix(0x18c, sub));
        cx.transitions(1);
        cx.validated(1);
        cx.count("context_type_configurations", 1);
        let r = (c.run)();
        cx.outcome(vcore::util::fnv_str(&format!("{i}{r:?}")));
        let expected = json!({"summary": case(c)["model"], "steps": [if c.ok { "ok" } else { "err" }]});
        let (class, observed) = match &r {
            Err(p) => ("panic", json!({"summary": format!("PANIC: {p}"), "steps": ["panic"], "error": p})),
            Ok(Err(e)) if !c.ok => {
                let _ = e;
                continue;
            }
            Ok(Err(e)) => ("add-result", json!({"summary": format!("with_context_type: Err({e})"), "steps": ["err"], "error": e})),
            Ok(Ok(v)) => {
                let after = match v {
                    Some(PANIC) => format!("every compile panics: {}", LAST_PANIC.with(|l| l.borrow().clone())),
                    Some(x) => format!("q() = {x}"),
                    None => "the script does not compile".to_string(),
                };
                if c.ok && *v == Some(77) {
                    continue;
                }
                let class = if !c.ok {
                    "add-result"
                } else if *v == Some(PANIC) {
                    "compile-panic"
                } else {
                    "unreachable"
                };
                (class, json!({"summary": format!("with_context_type: Ok; then {after}"), "steps": ["ok"], "error": after}))
            }
        };
        cx.violation(class, sub, case(c), expected, observed);
    }
}
