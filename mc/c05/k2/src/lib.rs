//! C05 context structs (route r6): fields i8, i16, f64, RotoString in all 24
//! declaration orders (`#[repr(C)]`) plus one struct with the default layout
#![allow(unused_imports)]
use std::net::IpAddr;

use c05p::ctx::CtxTable;
use inetnum::{addr::Prefix, asn::Asn};
use roto::{RotoString, Val};

pub fn table(v: &mut CtxTable) {
    c05p::ctx_set!(v, fa: i8, fb: i16, fc: f64, fd: RotoString);
}
