//! C05 context structs (route r6): fields u8, Val<A64>, u16, Val<A32>
//! (registered types with alignment 64 and 32) in all 24 declaration orders
//! (`#[repr(C)]`) plus one struct with the default layout
use c05p::align::{A32, A64};
use c05p::ctx::CtxTable;
use roto::Val;

pub fn table(v: &mut CtxTable) {
    c05p::ctx_set!(v, fa: u8, fb: Val<A64>, fc: u16, fd: Val<A32>);
}
