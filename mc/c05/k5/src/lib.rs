//! C05 context structs (route r6): fields i32, i64, Asn, Val<host::K> in all 24
//! declaration orders (`#[repr(C)]`) plus one struct with the default layout
#![allow(unused_imports)]
use std::net::IpAddr;

use c05p::ctx::CtxTable;
use inetnum::{addr::Prefix, asn::Asn};
use roto::{RotoString, Val};

pub fn table(v: &mut CtxTable) {
    c05p::ctx_set!(v, fa: i32, fb: i64, fc: Asn, fd: Val<host::K>);
}
