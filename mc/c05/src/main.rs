//! C05 — values cross the host boundary unchanged in both directions.
use std::sync::OnceLock;

use c05p::ctx::CtxTable;
use c05p::r8::{self, R8};
use c05p::routes::{G1, G2, G3, Table};
use vcore::{Cfg, Check, Cx, Finding, Meta, Value, Violation, json};

fn table() -> &'static Table {
    static T: OnceLock<Table> = OnceLock::new();
    T.get_or_init(|| {
        let mut v: Table = vec![];
        c05t1::table(&mut v);
        c05t2::table(&mut v);
        c05t3::table(&mut v);
        c05t4::table(&mut v);
        c05t5::table(&mut v);
        c05t6::table(&mut v);
        c05t7::table(&mut v);
        c05t8::table(&mut v);
        c05t9::table(&mut v);
        c05t10::table(&mut v);
        c05t11::table(&mut v);
        c05t12::table(&mut v);
        v
    })
}

fn ctx_table() -> &'static CtxTable {
    static T: OnceLock<CtxTable> = OnceLock::new();
    T.get_or_init(|| {
        let mut v: CtxTable = vec![];
        c05k1::table(&mut v);
        c05k2::table(&mut v);
        c05k3::table(&mut v);
        c05k4::table(&mut v);
        c05k5::table(&mut v);
        v
    })
}

#[derive(Clone, Copy, Debug)]
enum Unit {
    R8(usize),
    Ctx(usize),
    Ty(usize, u8),
}

fn unit_table() -> &'static Vec<Unit> {
    static T: OnceLock<Vec<Unit>> = OnceLock::new();
    T.get_or_init(|| {
        let mut v = vec![];
        for i in 0..r8::units().len() {
            v.push(Unit::R8(i));
        }
        for i in 0..ctx_table().len() {
            v.push(Unit::Ctx(i));
        }
        for (i, _) in table().iter().enumerate() {
            for g in [G1, G3, G2] {
                v.push(Unit::Ty(i, g));
            }
        }
        v
    })
}

fn r8_units() -> &'static Vec<R8> {
    static T: OnceLock<Vec<R8>> = OnceLock::new();
    T.get_or_init(r8::units)
}

struct C05;

impl Check for C05 {
    fn id(&self) -> &'static str {
        "C05"
    }
    fn units(&self, _cfg: &Cfg) -> usize {
        unit_table().len()
    }
    fn run_unit(&self, unit: usize, cx: &mut Cx) {
        match unit_table()[unit] {
            Unit::R8(i) => r8::run(&r8_units()[i], cx),
            Unit::Ctx(i) => ctx_table()[i].run(cx),
            Unit::Ty(i, g) => table()[i].run(g, cx),
        }
    }
    fn describe(&self, cfg: &Cfg, unit: usize, sub: u64) -> Value {
        match unit_table()[unit] {
            Unit::R8(i) => r8::describe(&r8_units()[i], cfg.tier, sub),
            Unit::Ctx(i) => ctx_table()[i].describe(cfg.tier, sub),
            Unit::Ty(i, g) => table()[i].describe(g, cfg.tier, sub),
        }
    }
    fn matches(&self, f: &Finding, v: &Violation) -> bool {
        let c = &v.case;
        let route = c["route"].as_str().unwrap_or("");
        match f.matcher.as_str() {
            // N3: the value is right in its own width, wrong above it
            "small_int_not_extended" => {
                if v.class != "mismatch" || c["small_int"] != true || !["r8", "r3"].contains(&route) {
                    return false;
                }
                let bits = c["widened_type_bits"].as_u64().unwrap_or(0);
                let parse = |x: &Value| x["host_saw"].as_str().and_then(|s| s.parse::<i128>().ok());
                match (parse(&v.expected), parse(&v.observed)) {
                    (Some(e), Some(o)) if bits > 0 && bits < 64 => {
                        let m = (1i128 << bits) - 1;
                        e != o && (e & m) == (o & m)
                    }
                    _ => false,
                }
            }
            // Z1: a zero-sized registered parameter shifts the arguments after it
            "zst_registered_param" => {
                if !["r1", "r3"].contains(&route) || c["zst_registered"] != true {
                    return false;
                }
                let pos = c["pos"].as_u64().unwrap_or(0);
                if !(1..=6).contains(&pos) {
                    return false;
                }
                (v.class == "mismatch" && c["filler_mismatch"] == true && c["value_mismatch"] == false)
                    || v.class == "signal:SIGSEGV"
            }
            _ => false,
        }
    }
    fn meta(&self, _cfg: &Cfg) -> Meta {
        Meta {
            rule: "todo".into(),
            assumptions: vec![],
            bounds: json!({}),
            states_are: "".into(),
            transitions_are: "".into(),
        }
    }
}

fn main() {
    vcore::main(&C05)
}
