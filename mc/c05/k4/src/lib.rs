//! C05 context structs (route r6): fields u16, f32, u8, Val<host::Z> in all 24
//! declaration orders (`#[repr(C)]`) plus one struct with the default layout
#![allow(unused_imports)]
use std::net::IpAddr;

use c05p::ctx::CtxTable;
use inetnum::{addr::Prefix, asn::Asn};
use roto::{RotoString, Val};

pub fn table(v: &mut CtxTable) {
    c05p::ctx_set!(v, fa: u16, fb: f32, fc: u8, fd: Val<host::Z>);
}
