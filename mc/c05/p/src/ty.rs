//! The boundary-type descriptor trait `B`: Roto spelling, size class, the
//! exhaustive edge-value list, a canonical structural rendering (`show`, the
//! oracle compares these strings: integers in decimal, floats as canonicalised
//! bit patterns, lists element by element) and, where one exists, a Roto
//! expression that constructs the value inside a script (`lit`).

use std::net::{IpAddr, Ipv4Addr, Ipv6Addr};

use inetnum::{addr::Prefix, asn::Asn};
use roto::{List, RotoString, Val, Value, Verdict};
use vcore::{Cx, Tier, Value as Json};

use crate::routes::{self, Names};

pub trait B: Value<Transformed: PartialEq> + Clone + 'static {
    /// Roto spelling of the type
    fn roto() -> String;
    /// identifier-safe name
    fn id() -> String;
    /// size/alignment class label
    fn class() -> String;
    fn depth() -> usize {
        0
    }
    /// i8/u8/i16/u16/bool: passed in a register wider than the value
    fn small_int() -> bool {
        false
    }
    /// zero-sized registered type somewhere at the top level of the signature
    fn zst_registered() -> bool {
        false
    }
    /// mentions a zero-sized type anywhere
    fn mentions_zst() -> bool {
        false
    }
    /// the value (or, for a list, an element) needs more than the 16-byte
    /// alignment the ABI guarantees for stack frames
    fn over_aligned() -> bool {
        std::mem::align_of::<<Self as Value>::Transformed>() > 16
    }
    /// alignment of the transformed value (for a list: of its elements)
    fn max_align() -> usize {
        std::mem::align_of::<<Self as Value>::Transformed>()
    }
    fn edges(t: Tier) -> Vec<Self>;
    fn show(&self) -> String;
    fn lit(&self) -> Option<String>;
    /// a value different from `self` where the type has more than one value
    fn other(&self) -> Self {
        let e = crate::routes::edges::<Self>(Tier::Quick);
        let s = self.show();
        e.iter().find(|x| x.show() != s).unwrap_or(&e[0]).clone()
    }
    /// routes r7 and r9 (enum types only): construct in the script / match in
    /// the script; lists of the enum built in the script
    fn r7_run(_cx: &mut Cx) {}
    fn r7_script() -> Option<String> {
        None
    }
    fn r7_describe(_t: Tier, _route: u64, _pos: u64, _idx: usize) -> Json {
        Json::Null
    }
}

// ------------------------------------------------------------------ integers

fn int_boundary(bits: u32, signed: bool) -> Vec<i128> {
    let mut v: Vec<i128> = vec![0, 1, 2, 3, 7, 100, 127, 128, 200, 255, 256, 300];
    for s in [7u32, 8, 15, 16, 31, 32, 63] {
        if s < bits {
            v.push(1i128 << s);
            v.push((1i128 << s) - 1);
            v.push((1i128 << s) + 1);
        }
    }
    // byte-distinct and alternating patterns (detect truncation / byte shuffles)
    let pats: [u64; 4] = [0x0102030405060708, 0x5555555555555555, 0xAAAAAAAAAAAAAAAA, 0x8070605040302010];
    for p in pats {
        let m = if bits == 64 { p as i128 } else { (p as i128) & ((1i128 << bits) - 1) };
        v.push(m);
    }
    let (min, max) = if signed {
        (-(1i128 << (bits - 1)), (1i128 << (bits - 1)) - 1)
    } else {
        (0, (1i128 << bits) - 1)
    };
    if signed {
        let neg: Vec<i128> = v.iter().map(|x| -x).collect();
        v.extend(neg);
        // reinterpret patterns above max as negative numbers
        v = v.into_iter().map(|x| if x > max { x - (1i128 << bits) } else { x }).collect();
    }
    v.extend([min, min + 1, max, max - 1]);
    v.retain(|x| *x >= min && *x <= max);
    v.sort();
    v.dedup();
    v
}

macro_rules! int_leaf {
    ($t:ty, $bits:literal, $signed:literal, $class:literal) => {
        impl B for $t {
            fn roto() -> String {
                stringify!($t).into()
            }
            fn id() -> String {
                stringify!($t).into()
            }
            fn class() -> String {
                $class.into()
            }
            fn small_int() -> bool {
                $bits <= 16
            }
            fn edges(t: Tier) -> Vec<Self> {
                if $bits == 8 || ($bits == 16 && t == Tier::Thorough) {
                    (<$t>::MIN..=<$t>::MAX).collect()
                } else {
                    int_boundary($bits, $signed).into_iter().map(|x| x as $t).collect()
                }
            }
            fn show(&self) -> String {
                self.to_string()
            }
            fn lit(&self) -> Option<String> {
                // `-MIN` is written as an expression: the literal MIN's
                // magnitude is out of range for the type (unspecified)
                if $signed && *self == <$t>::MIN {
                    Some(format!("({} - 1)", <$t>::MIN + 1))
                } else if (*self as i128) > i64::MAX as i128 {
                    // integer literals are parsed as i64: larger u64 values
                    // are written as a sum that does not overflow u64
                    let rest = *self as i128 - i64::MAX as i128;
                    if rest > i64::MAX as i128 {
                        Some(format!("({} + {} + {})", i64::MAX, i64::MAX, rest - i64::MAX as i128))
                    } else {
                        Some(format!("({} + {})", i64::MAX, rest))
                    }
                } else {
                    Some(self.to_string())
                }
            }
        }
    };
}
int_leaf!(u8, 8, false, "1");
int_leaf!(i8, 8, true, "1");
int_leaf!(u16, 16, false, "2");
int_leaf!(i16, 16, true, "2");
int_leaf!(u32, 32, false, "4");
int_leaf!(i32, 32, true, "4");
int_leaf!(u64, 64, false, "8");
int_leaf!(i64, 64, true, "8");

impl B for bool {
    fn roto() -> String {
        "bool".into()
    }
    fn id() -> String {
        "bool".into()
    }
    fn class() -> String {
        "1".into()
    }
    fn small_int() -> bool {
        true
    }
    fn edges(_: Tier) -> Vec<Self> {
        vec![false, true]
    }
    fn show(&self) -> String {
        // look at the byte: a bool that arrives as 7 must be reported as such
        match unsafe { *(self as *const bool as *const u8) } {
            0 => "false".into(),
            1 => "true".into(),
            n => format!("bool:invalid-byte({n})"),
        }
    }
    fn lit(&self) -> Option<String> {
        Some(self.to_string())
    }
}

// ------------------------------------------------------------------ floats

macro_rules! float_leaf {
    ($t:ty, $u:ty, $class:literal, $canon:path, $pat:expr) => {
        impl B for $t {
            fn roto() -> String {
                stringify!($t).into()
            }
            fn id() -> String {
                stringify!($t).into()
            }
            fn class() -> String {
                $class.into()
            }
            fn edges(_: Tier) -> Vec<Self> {
                vec![
                    0.0,
                    -0.0,
                    1.0,
                    -1.0,
                    0.5,
                    1.5,
                    -2.5,
                    3.141592653589793,
                    1e10,
                    -1e-10,
                    <$t>::from_bits(1),
                    <$t>::MIN_POSITIVE,
                    <$t>::MAX,
                    <$t>::MIN,
                    <$t>::EPSILON,
                    <$t>::INFINITY,
                    <$t>::NEG_INFINITY,
                    <$t>::NAN,
                    <$t>::from_bits($pat),
                ]
            }
            fn show(&self) -> String {
                format!("{}:{:#x}", stringify!($t), $canon(*self))
            }
            fn lit(&self) -> Option<String> {
                if !self.is_finite() {
                    return None;
                }
                // shortest round-trip decimal; always contains '.' or 'e'
                let s = format!("{:?}", self.abs());
                Some(if self.is_sign_negative() { format!("-{s}") } else { s })
            }
        }
    };
}
float_leaf!(f32, u32, "4f", host::canon_f32, 0x01020304);
float_leaf!(f64, u64, "8f", host::canon_f64, 0x0102030405060708);

// ------------------------------------------------------------------ other leaves

impl B for char {
    fn roto() -> String {
        "char".into()
    }
    fn id() -> String {
        "char".into()
    }
    fn class() -> String {
        "4".into()
    }
    fn edges(_: Tier) -> Vec<Self> {
        vec![
            '\0', 'a', 'z', 'A', '0', ' ', '~', '\x7f', '\u{80}', 'é', '\u{7ff}', '\u{800}', '€', '\u{d7ff}',
            '\u{e000}', '\u{ffff}', '\u{10000}', '😀', '\u{10ffff}', '\n', '\t', '\'', '"', '\\',
        ]
    }
    fn show(&self) -> String {
        format!("U+{:04X}", *self as u32)
    }
    fn lit(&self) -> Option<String> {
        Some(format!("'{}'", self.escape_default()))
    }
}

impl B for Asn {
    fn roto() -> String {
        "Asn".into()
    }
    fn id() -> String {
        "Asn".into()
    }
    fn class() -> String {
        "4".into()
    }
    fn edges(_: Tier) -> Vec<Self> {
        [0u32, 1, 23456, 65000, 65535, 65536, 0x01020304, 0x80000000, u32::MAX - 1, u32::MAX]
            .into_iter()
            .map(Asn::from_u32)
            .collect()
    }
    fn show(&self) -> String {
        format!("AS{}", self.into_u32())
    }
    fn lit(&self) -> Option<String> {
        Some(format!("AS{}", self.into_u32()))
    }
}

fn v6_lit(a: &Ipv6Addr) -> String {
    let s = a.segments();
    format!("{:x}:{:x}:{:x}:{:x}:{:x}:{:x}:{:x}:{:x}", s[0], s[1], s[2], s[3], s[4], s[5], s[6], s[7])
}

fn ip_lit(a: &IpAddr) -> String {
    match a {
        IpAddr::V4(a) => a.to_string(),
        IpAddr::V6(a) => {
            if a.segments() == [0; 8] {
                "::".into()
            } else {
                v6_lit(a)
            }
        }
    }
}

fn ips() -> Vec<IpAddr> {
    vec![
        IpAddr::V4(Ipv4Addr::new(0, 0, 0, 0)),
        IpAddr::V4(Ipv4Addr::new(127, 0, 0, 1)),
        IpAddr::V4(Ipv4Addr::new(1, 2, 3, 4)),
        IpAddr::V4(Ipv4Addr::new(10, 0, 0, 1)),
        IpAddr::V4(Ipv4Addr::new(128, 0, 0, 0)),
        IpAddr::V4(Ipv4Addr::new(255, 255, 255, 255)),
        IpAddr::V6(Ipv6Addr::new(0, 0, 0, 0, 0, 0, 0, 0)),
        IpAddr::V6(Ipv6Addr::new(0, 0, 0, 0, 0, 0, 0, 1)),
        IpAddr::V6(Ipv6Addr::new(0x0102, 0x0304, 0x0506, 0x0708, 0x090a, 0x0b0c, 0x0d0e, 0x0f10)),
        IpAddr::V6(Ipv6Addr::new(0x2001, 0xdb8, 0, 0, 0, 0, 0, 1)),
        IpAddr::V6(Ipv6Addr::new(0, 0, 0, 0, 0, 0xffff, 0x0102, 0x0304)),
        IpAddr::V6(Ipv6Addr::new(0x8000, 0, 0, 0, 0, 0, 0, 0)),
        IpAddr::V6(Ipv6Addr::new(0xffff, 0xffff, 0xffff, 0xffff, 0xffff, 0xffff, 0xffff, 0xffff)),
    ]
}

impl B for IpAddr {
    fn roto() -> String {
        "IpAddr".into()
    }
    fn id() -> String {
        "IpAddr".into()
    }
    fn class() -> String {
        "ip17".into()
    }
    fn edges(_: Tier) -> Vec<Self> {
        ips()
    }
    fn show(&self) -> String {
        match self {
            IpAddr::V4(a) => format!("v4:{a}"),
            IpAddr::V6(a) => format!("v6:{}", v6_lit(a)),
        }
    }
    fn lit(&self) -> Option<String> {
        Some(ip_lit(self))
    }
}

impl B for Prefix {
    fn roto() -> String {
        "Prefix".into()
    }
    fn id() -> String {
        "Prefix".into()
    }
    fn class() -> String {
        "prefix".into()
    }
    fn edges(_: Tier) -> Vec<Self> {
        let p = |a: IpAddr, l: u8| Prefix::new(a, l).expect("valid prefix");
        let v4 = |a, b, c, d| IpAddr::V4(Ipv4Addr::new(a, b, c, d));
        let v6 = |a, b, h| IpAddr::V6(Ipv6Addr::new(a, b, 0, 0, 0, 0, 0, h));
        vec![
            p(v4(0, 0, 0, 0), 0),
            p(v4(128, 0, 0, 0), 1),
            p(v4(10, 0, 0, 0), 8),
            p(v4(192, 168, 0, 0), 16),
            p(v4(1, 2, 3, 0), 24),
            p(v4(1, 2, 3, 4), 32),
            p(v4(255, 255, 255, 255), 32),
            p(v6(0, 0, 0), 0),
            p(v6(0x8000, 0, 0), 1),
            p(v6(0x2001, 0xdb8, 0), 32),
            p(v6(0, 0, 1), 128),
            p(IpAddr::V6(Ipv6Addr::new(0xffff, 0xffff, 0xffff, 0xffff, 0xffff, 0xffff, 0xffff, 0xffff)), 128),
            p(IpAddr::V6(Ipv6Addr::new(0x0102, 0x0304, 0x0506, 0x0708, 0x090a, 0x0b0c, 0x0d0e, 0x0f10)), 128),
        ]
    }
    fn show(&self) -> String {
        format!("{}/{}", self.addr().show(), self.len())
    }
    fn lit(&self) -> Option<String> {
        Some(format!("{}/{}", ip_lit(&self.addr()), self.len()))
    }
}

impl B for RotoString {
    fn roto() -> String {
        "String".into()
    }
    fn id() -> String {
        "String".into()
    }
    fn class() -> String {
        "ptr".into()
    }
    fn edges(_: Tier) -> Vec<Self> {
        let mut v: Vec<String> = vec![
            "".into(),
            "a".into(),
            "hello".into(),
            "é€😀".into(),
            "q\"b\\s\nn\tt'".into(),
            "{x} {{y}}".into(),
            "\0nul".into(),
        ];
        for n in [7usize, 8, 15, 16, 17, 23, 24, 25, 31, 32, 33, 1000] {
            v.push((0..n).map(|i| (b'a' + (i % 26) as u8) as char).collect());
        }
        v.into_iter().map(|s| RotoString::from(s.as_str())).collect()
    }
    fn show(&self) -> String {
        // a string read from the wrong place may hold arbitrary bytes: the
        // rendering must stay valid UTF-8 (it travels in the result line)
        let s = self.to_string();
        format!("{:?}", String::from_utf8_lossy(s.as_bytes()))
    }
    fn lit(&self) -> Option<String> {
        Some(format!("\"{}\"", self.to_string().escape_default()))
    }
}

impl B for () {
    fn roto() -> String {
        "()".into()
    }
    fn id() -> String {
        "unit".into()
    }
    fn class() -> String {
        "zst".into()
    }
    fn mentions_zst() -> bool {
        true
    }
    fn edges(_: Tier) -> Vec<Self> {
        vec![()]
    }
    fn show(&self) -> String {
        "()".into()
    }
    fn lit(&self) -> Option<String> {
        Some("()".into())
    }
}

impl B for Val<host::Tr> {
    fn roto() -> String {
        "Tr".into()
    }
    fn id() -> String {
        "Tr".into()
    }
    fn class() -> String {
        "tr24".into()
    }
    fn edges(_: Tier) -> Vec<Self> {
        [0u64, 1, 7, 0x0102030405060708, u64::MAX].into_iter().map(|p| Val(host::Tr::new(p))).collect()
    }
    fn show(&self) -> String {
        format!("Tr({})", self.0.payload)
    }
    fn lit(&self) -> Option<String> {
        Some(format!("mk({})", self.0.payload.lit()?))
    }
}

impl B for Val<host::Z> {
    fn roto() -> String {
        "Z".into()
    }
    fn id() -> String {
        "Z".into()
    }
    fn class() -> String {
        "zst".into()
    }
    fn zst_registered() -> bool {
        true
    }
    fn mentions_zst() -> bool {
        true
    }
    fn edges(_: Tier) -> Vec<Self> {
        vec![Val(host::Z::new())]
    }
    fn show(&self) -> String {
        "Z".into()
    }
    fn lit(&self) -> Option<String> {
        Some("mkz()".into())
    }
}

impl B for Val<host::K> {
    fn roto() -> String {
        "K".into()
    }
    fn id() -> String {
        "K".into()
    }
    fn class() -> String {
        "4".into()
    }
    fn edges(_: Tier) -> Vec<Self> {
        [0u32, 1, 7, 0x01020304, 0x80000000, u32::MAX].into_iter().map(|p| Val(host::K(p))).collect()
    }
    fn show(&self) -> String {
        format!("K({})", self.0.0)
    }
    fn lit(&self) -> Option<String> {
        Some(format!("mkk({})", self.0.0))
    }
}

macro_rules! aligned_leaf {
    ($t:ident, $roto:literal, $mk:literal, $class:literal) => {
        impl B for Val<crate::align::$t> {
            fn roto() -> String {
                $roto.into()
            }
            fn id() -> String {
                $roto.into()
            }
            fn class() -> String {
                $class.into()
            }
            fn edges(_: Tier) -> Vec<Self> {
                [0u64, 7, 0x0102030405060708, u64::MAX].into_iter().map(|p| Val(crate::align::$t(p))).collect()
            }
            fn show(&self) -> String {
                format!("{}({})", $roto, self.0.0)
            }
            fn lit(&self) -> Option<String> {
                Some(format!("{}({})", $mk, self.0.0.lit()?))
            }
        }
    };
}
aligned_leaf!(A16, "A16", "mka16", "align16");
aligned_leaf!(A32, "A32", "mka32", "align32");
aligned_leaf!(A64, "A64", "mka64", "align64");

// ------------------------------------------------------------------ constructors

impl<P: B> B for Option<P> {
    fn roto() -> String {
        format!("Option[{}]", P::roto())
    }
    fn id() -> String {
        format!("O{}", P::id())
    }
    fn class() -> String {
        format!("Option<{}>", P::class())
    }
    fn depth() -> usize {
        P::depth() + 1
    }
    fn mentions_zst() -> bool {
        P::mentions_zst()
    }
    fn edges(t: Tier) -> Vec<Self> {
        let mut v = vec![None];
        v.extend(P::edges(t).into_iter().map(Some));
        v
    }
    fn show(&self) -> String {
        match self {
            Some(x) => format!("Some({})", x.show()),
            None => "None".into(),
        }
    }
    fn lit(&self) -> Option<String> {
        match self {
            Some(x) => Some(format!("Option.Some({})", x.lit()?)),
            None => Some("Option.None".into()),
        }
    }
    fn r7_run(cx: &mut Cx) {
        routes::r7_option::<P>(cx);
        routes::r9_list::<Self>(cx);
    }
    fn r7_script() -> Option<String> {
        Some(routes::script_r7_option(&P::roto()))
    }
    fn r7_describe(t: Tier, route: u64, pos: u64, idx: usize) -> Json {
        if route == routes::R9 {
            return routes::r9_describe::<Self>(t, pos, idx);
        }
        routes::r7_option_describe::<P>(t, pos, idx)
    }
}

impl<A: B, E: B> B for Result<A, E> {
    fn roto() -> String {
        format!("Result[{}, {}]", A::roto(), E::roto())
    }
    fn id() -> String {
        format!("R{}_{}", A::id(), E::id())
    }
    fn class() -> String {
        format!("Result<{},{}>", A::class(), E::class())
    }
    fn depth() -> usize {
        A::depth().max(E::depth()) + 1
    }
    fn mentions_zst() -> bool {
        A::mentions_zst() || E::mentions_zst()
    }
    fn edges(t: Tier) -> Vec<Self> {
        let mut v: Vec<Self> = A::edges(t).into_iter().map(Ok).collect();
        v.extend(E::edges(t).into_iter().map(Err));
        v
    }
    fn show(&self) -> String {
        match self {
            Ok(x) => format!("Ok({})", x.show()),
            Err(x) => format!("Err({})", x.show()),
        }
    }
    fn lit(&self) -> Option<String> {
        match self {
            Ok(x) => Some(format!("Result.Ok({})", x.lit()?)),
            Err(x) => Some(format!("Result.Err({})", x.lit()?)),
        }
    }
    fn r7_run(cx: &mut Cx) {
        routes::r7_two::<A, E, Self>(cx, &RES, Ok, Err, |r| r.as_ref());
        routes::r9_list::<Self>(cx);
    }
    fn r7_script() -> Option<String> {
        Some(routes::script_r7_two(&RES, &A::roto(), &E::roto()))
    }
    fn r7_describe(t: Tier, route: u64, pos: u64, idx: usize) -> Json {
        if route == routes::R9 {
            return routes::r9_describe::<Self>(t, pos, idx);
        }
        routes::r7_two_describe::<A, E, Self>(&RES, t, pos, idx)
    }
}

const RES: Names = Names { ty: "Result", a: "Ok", b: "Err" };
const VER: Names = Names { ty: "Verdict", a: "Accept", b: "Reject" };

impl<A: B, E: B> B for Verdict<A, E> {
    fn roto() -> String {
        format!("Verdict[{}, {}]", A::roto(), E::roto())
    }
    fn id() -> String {
        format!("V{}_{}", A::id(), E::id())
    }
    fn class() -> String {
        format!("Verdict<{},{}>", A::class(), E::class())
    }
    fn depth() -> usize {
        A::depth().max(E::depth()) + 1
    }
    fn mentions_zst() -> bool {
        A::mentions_zst() || E::mentions_zst()
    }
    fn edges(t: Tier) -> Vec<Self> {
        let mut v: Vec<Self> = A::edges(t).into_iter().map(Verdict::Accept).collect();
        v.extend(E::edges(t).into_iter().map(Verdict::Reject));
        v
    }
    fn show(&self) -> String {
        match self {
            Verdict::Accept(x) => format!("Accept({})", x.show()),
            Verdict::Reject(x) => format!("Reject({})", x.show()),
        }
    }
    fn lit(&self) -> Option<String> {
        match self {
            Verdict::Accept(x) => Some(format!("Verdict.Accept({})", x.lit()?)),
            Verdict::Reject(x) => Some(format!("Verdict.Reject({})", x.lit()?)),
        }
    }
    fn r7_run(cx: &mut Cx) {
        routes::r7_two::<A, E, Self>(cx, &VER, Verdict::Accept, Verdict::Reject, |r| match r {
            Verdict::Accept(a) => Ok(a),
            Verdict::Reject(e) => Err(e),
        });
        routes::r9_list::<Self>(cx);
    }
    fn r7_script() -> Option<String> {
        Some(routes::script_r7_two(&VER, &A::roto(), &E::roto()))
    }
    fn r7_describe(t: Tier, route: u64, pos: u64, idx: usize) -> Json {
        if route == routes::R9 {
            return routes::r9_describe::<Self>(t, pos, idx);
        }
        routes::r7_two_describe::<A, E, Self>(&VER, t, pos, idx)
    }
}

/// lists of length 0, 1 (one per payload edge), 4 and 5 (windows over the
/// payload edges, so every payload edge occurs at both lengths; 4 -> 5 is the
/// first growth boundary of the list buffer)
impl<P: B> B for List<P> {
    fn roto() -> String {
        format!("List[{}]", P::roto())
    }
    fn id() -> String {
        format!("L{}", P::id())
    }
    fn class() -> String {
        format!("List<{}>", P::class())
    }
    fn depth() -> usize {
        P::depth() + 1
    }
    fn mentions_zst() -> bool {
        P::mentions_zst()
    }
    fn over_aligned() -> bool {
        P::over_aligned()
    }
    fn max_align() -> usize {
        P::max_align()
    }
    fn edges(t: Tier) -> Vec<Self> {
        let e = P::edges(t);
        let mut v: Vec<Self> = vec![List::new()];
        for x in &e {
            let l = List::new();
            l.push(x.clone());
            v.push(l);
        }
        for len in [4usize, 5] {
            let mut i = 0;
            while i < e.len() {
                let l = List::new();
                for k in 0..len {
                    l.push(e[(i + k) % e.len()].clone());
                }
                v.push(l);
                i += len;
            }
        }
        v
    }
    fn show(&self) -> String {
        let v: Vec<String> = self.to_vec().iter().map(|x| x.show()).collect();
        format!("[{}]", v.join(", "))
    }
    fn lit(&self) -> Option<String> {
        let v: Option<Vec<String>> = self.to_vec().iter().map(|x| x.lit()).collect();
        Some(format!("[{}]", v?.join(", ")))
    }
}
