//! r6: context field reads. `ctx_set!` generates, for four field types, the
//! 24 `#[repr(C)]` structs with the fields declared in every order plus one
//! struct with the default representation, each with `#[derive(Context)]`.
//! A script function reads every field and hands it to a host sink; each sink
//! must see the value Rust stored in that field.

use std::marker::PhantomData;

use roto::{Context, FileTree, Runtime};
use vcore::util::catch;
use vcore::{Cx, SUB_SETUP, Tier, Value, json};

use crate::routes::{edges, reg_sink, set_tier, take_log};
use crate::ty::B;

pub const R6: u64 = 6;

pub trait CtxSpec: Context + 'static {
    type F0: B;
    type F1: B;
    type F2: B;
    type F3: B;
    /// the Rust declaration, for the evidence
    const DECL: &'static str;
    const FIELDS: [&'static str; 4];
    fn make(a: Self::F0, b: Self::F1, c: Self::F2, d: Self::F3) -> Self;
    fn offsets() -> [usize; 4];
}

fn tys<S: CtxSpec>() -> [String; 4] {
    [S::F0::roto(), S::F1::roto(), S::F2::roto(), S::F3::roto()]
}
fn ids<S: CtxSpec>() -> [String; 4] {
    [S::F0::id(), S::F1::id(), S::F2::id(), S::F3::id()]
}

/// every field is read by the script and handed to a host sink
pub fn script<S: CtxSpec>() -> String {
    let ids = ids::<S>();
    let body: String = (0..4).map(|j| format!("    snk_{}({});\n", ids[j], S::FIELDS[j])).collect();
    format!("fn g() {{\n{body}}}\n")
}

fn case<S: CtxSpec>(idx: usize, values: &[String]) -> Value {
    json!({"route": "r6", "struct": S::DECL, "fields": S::FIELDS, "field_types": tys::<S>(),
           "offsets": S::offsets(), "value_index": idx, "values": values, "script": script::<S>()})
}

pub fn run<S: CtxSpec>(cx: &mut Cx) {
    if crate::routes::abandoned(cx) {
        return;
    }
    let t = cx.cfg.tier;
    set_tier(t);
    if !cx.case(SUB_SETUP) {
        return;
    }
    let mut items = vec![];
    let mut seen: Vec<String> = vec![];
    macro_rules! sink {
        ($F:ty) => {
            // also makes the field type known to the global type registry
            if !seen.contains(&<$F>::id()) {
                seen.push(<$F>::id());
                reg_sink::<$F>(&mut items);
            }
        };
    }
    sink!(S::F0);
    sink!(S::F1);
    sink!(S::F2);
    sink!(S::F3);
    let rt = match Runtime::from_lib(host::lib())
        .and_then(|mut rt| rt.add(crate::align::items()).map(|_| rt))
        .and_then(|mut rt| rt.add(items).map(|_| rt))
        .map_err(|e| e.to_string())
        .and_then(|rt| rt.with_context_type::<S>())
    {
        Ok(rt) => rt,
        Err(e) => {
            cx.violation("register", SUB_SETUP, case::<S>(0, &[]), json!("Ok"), json!(e));
            return;
        }
    };
    let src = script::<S>();
    let mut pkg = match catch(|| FileTree::test_file("script.roto", &src, 0).compile(&rt)) {
        Ok(Ok(p)) => p,
        Ok(Err(r)) => {
            let mut s = String::new();
            let _ = catch(|| r.write(&mut s, false));
            let s: String = s.chars().take(600).collect();
            cx.violation("compile", SUB_SETUP, case::<S>(0, &[]), json!("compiles"), json!(s));
            return;
        }
        Err(p) => {
            cx.violation("compile-panic", SUB_SETUP, case::<S>(0, &[]), json!("compiles"), json!(p));
            return;
        }
    };
    let before = crate::routes::anomalies_now();
    let (e0, e1, e2, e3) = (edges::<S::F0>(t), edges::<S::F1>(t), edges::<S::F2>(t), edges::<S::F3>(t));
    let n = e0.len().max(e1.len()).max(e2.len()).max(e3.len());
    cx.sample(json!({"route": "r6", "struct": S::DECL, "offsets": S::offsets(), "cases": n, "script": src}));
    match pkg.get_function::<fn() -> ()>("g") {
        Err(e) => cx.violation(
            "get_function",
            R6 << 44,
            case::<S>(0, &[]),
            json!("Ok"),
            json!(e.to_string().chars().take(300).collect::<String>()),
        ),
        Ok(func) => {
            let mut h = 0u64;
            let mut cnt = 0u64;
            let over = S::F0::over_aligned() || S::F1::over_aligned() || S::F2::over_aligned() || S::F3::over_aligned();
            let mut reached = 4;
            for i in 0..n {
                let r = crate::align::for_residues(over, &mut |k| {
                    let s = (R6 << 44) | (k << 32) | i as u64;
                    if !cx.case(s) {
                        return;
                    }
                    let (v0, v1, v2, v3) =
                        (&e0[i % e0.len()], &e1[i % e1.len()], &e2[i % e2.len()], &e3[i % e3.len()]);
                    let want = vec![v0.show(), v1.show(), v2.show(), v3.show()];
                    let mut c = S::make(v0.clone(), v1.clone(), v2.clone(), v3.clone());
                    take_log();
                    crate::align::take_events();
                    func.call(&mut c);
                    let got = take_log();
                    drop(c);
                    cnt += 1;
                    for g in &got {
                        h = vcore::util::mix(h, vcore::util::fnv_str(g));
                    }
                    let ev = crate::align::take_events();
                    if !ev.is_empty() {
                        let mut cj = case::<S>(i, &want);
                        cj["stack_residue_class"] = json!(k);
                        cj["all_on_stack"] = json!(ev.iter().all(|e| e.on_stack));
                        cj["max_align"] = json!(ev.iter().map(|e| e.align).max());
                        let ops: Vec<String> = ev
                            .iter()
                            .map(|e| format!("{} {}: address % {} = {}", e.ty, e.op, e.align, e.rem))
                            .collect();
                        cx.violation("misaligned", s, cj, json!("every address at which a registered type is cloned, dropped or compared is a multiple of its alignment"), json!(ops));
                    }
                    if got != want {
                        let bad: Vec<&str> =
                            (0..4).filter(|j| got.get(*j) != want.get(*j)).map(|j| S::FIELDS[j]).collect();
                        let mut cj = case::<S>(i, &want);
                        cj["fields_wrong"] = json!(bad);
                        cj["stack_residue_class"] = json!(k);
                        cj["sinks_saw_this_run"] = json!(got);
                        let agree = crate::routes::agree_list(&want, &got);
                        cx.violation("mismatch", s, cj, json!({"sinks_saw": want}), json!({"sinks_agree": agree}));
                    }
                });
                reached = reached.min(r);
            }
            if reached < 4 {
                cx.count("stack_residues_not_reached", 1);
            }
            cx.states(cnt * 4);
            cx.transitions(cnt);
            cx.validated(cnt * 4);
            cx.count("calls_r6", cnt);
            cx.count("field_reads_r6", cnt * 4);
            cx.outcome(h);
            cx.nontrivial(vcore::util::fnv_str(S::DECL));
        }
    }
    let g = crate::routes::garbage_since(before);
    if !g.is_empty() {
        cx.violation(
            "garbage",
            SUB_SETUP,
            case::<S>(0, &[]),
            json!("no tracked value is read from memory that never held one"),
            json!(g.into_iter().take(5).collect::<Vec<_>>()),
        );
    }
    drop(pkg);
    drop(rt);
}

pub fn describe<S: CtxSpec>(t: Tier, s: u64) -> Value {
    if s == SUB_SETUP {
        return case::<S>(0, &[]);
    }
    let i = (s & 0xffff_ffff) as usize;
    let want: Vec<String> = {
        let (e0, e1, e2, e3) = (S::F0::edges(t), S::F1::edges(t), S::F2::edges(t), S::F3::edges(t));
        vec![e0[i % e0.len()].show(), e1[i % e1.len()].show(), e2[i % e2.len()].show(), e3[i % e3.len()].show()]
    };
    case::<S>(i, &want)
}

pub trait CtxEntry: Send + Sync {
    fn decl(&self) -> &'static str;
    fn run(&self, cx: &mut Cx);
    fn describe(&self, t: Tier, sub: u64) -> Value;
}

pub struct CE<S>(PhantomData<fn() -> S>);

impl<S> Default for CE<S> {
    fn default() -> Self {
        CE(PhantomData)
    }
}

impl<S: CtxSpec> CtxEntry for CE<S> {
    fn decl(&self) -> &'static str {
        S::DECL
    }
    fn run(&self, cx: &mut Cx) {
        run::<S>(cx)
    }
    fn describe(&self, t: Tier, sub: u64) -> Value {
        describe::<S>(t, sub)
    }
}

pub type CtxTable = Vec<Box<dyn CtxEntry>>;

/// one context struct: `ctx_one!(v, [repr(C)], a: A, b: B, c: C, d: D)`
#[macro_export]
macro_rules! ctx_one {
    ($v:ident, [$($repr:tt)*], $a:ident: $A:ty, $b:ident: $B:ty, $c:ident: $C:ty, $d:ident: $D:ty) => {{
        use roto::Context;
        #[derive(Clone, Context)]
        $($repr)*
        pub struct S {
            pub $a: $A,
            pub $b: $B,
            pub $c: $C,
            pub $d: $D,
        }
        impl $crate::ctx::CtxSpec for S {
            type F0 = $A;
            type F1 = $B;
            type F2 = $C;
            type F3 = $D;
            const DECL: &'static str = concat!(
                stringify!($($repr)*), " struct S { ",
                stringify!($a), ": ", stringify!($A), ", ",
                stringify!($b), ": ", stringify!($B), ", ",
                stringify!($c), ": ", stringify!($C), ", ",
                stringify!($d), ": ", stringify!($D), " }"
            );
            const FIELDS: [&'static str; 4] = [stringify!($a), stringify!($b), stringify!($c), stringify!($d)];
            fn make(a: $A, b: $B, c: $C, d: $D) -> Self {
                S { $a: a, $b: b, $c: c, $d: d }
            }
            fn offsets() -> [usize; 4] {
                [
                    std::mem::offset_of!(S, $a),
                    std::mem::offset_of!(S, $b),
                    std::mem::offset_of!(S, $c),
                    std::mem::offset_of!(S, $d),
                ]
            }
        }
        $v.push(Box::new($crate::ctx::CE::<S>::default()));
    }};
}

/// all 24 declaration orders of four fields as `#[repr(C)]` structs, plus the
/// first order with the default representation
#[macro_export]
macro_rules! ctx_set {
    ($v:ident, $a:ident: $A:ty, $b:ident: $B:ty, $c:ident: $C:ty, $d:ident: $D:ty) => {
        $crate::ctx_one!($v, [#[repr(C)]], $a: $A, $b: $B, $c: $C, $d: $D);
        $crate::ctx_one!($v, [#[repr(C)]], $a: $A, $b: $B, $d: $D, $c: $C);
        $crate::ctx_one!($v, [#[repr(C)]], $a: $A, $c: $C, $b: $B, $d: $D);
        $crate::ctx_one!($v, [#[repr(C)]], $a: $A, $c: $C, $d: $D, $b: $B);
        $crate::ctx_one!($v, [#[repr(C)]], $a: $A, $d: $D, $b: $B, $c: $C);
        $crate::ctx_one!($v, [#[repr(C)]], $a: $A, $d: $D, $c: $C, $b: $B);
        $crate::ctx_one!($v, [#[repr(C)]], $b: $B, $a: $A, $c: $C, $d: $D);
        $crate::ctx_one!($v, [#[repr(C)]], $b: $B, $a: $A, $d: $D, $c: $C);
        $crate::ctx_one!($v, [#[repr(C)]], $b: $B, $c: $C, $a: $A, $d: $D);
        $crate::ctx_one!($v, [#[repr(C)]], $b: $B, $c: $C, $d: $D, $a: $A);
        $crate::ctx_one!($v, [#[repr(C)]], $b: $B, $d: $D, $a: $A, $c: $C);
        $crate::ctx_one!($v, [#[repr(C)]], $b: $B, $d: $D, $c: $C, $a: $A);
        $crate::ctx_one!($v, [#[repr(C)]], $c: $C, $a: $A, $b: $B, $d: $D);
        $crate::ctx_one!($v, [#[repr(C)]], $c: $C, $a: $A, $d: $D, $b: $B);
        $crate::ctx_one!($v, [#[repr(C)]], $c: $C, $b: $B, $a: $A, $d: $D);
        $crate::ctx_one!($v, [#[repr(C)]], $c: $C, $b: $B, $d: $D, $a: $A);
        $crate::ctx_one!($v, [#[repr(C)]], $c: $C, $d: $D, $a: $A, $b: $B);
        $crate::ctx_one!($v, [#[repr(C)]], $c: $C, $d: $D, $b: $B, $a: $A);
        $crate::ctx_one!($v, [#[repr(C)]], $d: $D, $a: $A, $b: $B, $c: $C);
        $crate::ctx_one!($v, [#[repr(C)]], $d: $D, $a: $A, $c: $C, $b: $B);
        $crate::ctx_one!($v, [#[repr(C)]], $d: $D, $b: $B, $a: $A, $c: $C);
        $crate::ctx_one!($v, [#[repr(C)]], $d: $D, $b: $B, $c: $C, $a: $A);
        $crate::ctx_one!($v, [#[repr(C)]], $d: $D, $c: $C, $a: $A, $b: $B);
        $crate::ctx_one!($v, [#[repr(C)]], $d: $D, $c: $C, $b: $B, $a: $A);
        $crate::ctx_one!($v, [], $a: $A, $b: $B, $c: $C, $d: $D);
    };
}
