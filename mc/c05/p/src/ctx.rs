//! r6: context field reads. `ctx_set!` generates, for four field types, the
//! 24 `#[repr(C)]` structs with the fields declared in every order plus one
//! struct with the default representation, each with `#[derive(Context)]`.
//! A script `fn g<j>() -> F<j> { <field j> }` reads every field; the value must
//! be the one Rust stored.

use std::marker::PhantomData;

use roto::{Context, FileTree, Runtime, Value as RotoValue};
use vcore::util::catch;
use vcore::{Cx, SUB_SETUP, Tier, Value, json};

use crate::routes::{edges, set_tier};
use crate::ty::B;

pub const R6: u64 = 6;

pub trait CtxSpec: Context + 'static {
    type F0: B;
    type F1: B;
    type F2: B;
    type F3: B;
    /// the Rust declaration, for the evidence
    const DECL: &'static str;
    const FIELDS: [&'static str; 4];
    fn make(a: Self::F0, b: Self::F1, c: Self::F2, d: Self::F3) -> Self;
    fn offsets() -> [usize; 4];
}

pub fn script<S: CtxSpec>() -> String {
    let tys = [S::F0::roto(), S::F1::roto(), S::F2::roto(), S::F3::roto()];
    (0..4).map(|j| format!("fn g{j}() -> {} {{\n    {}\n}}\n", tys[j], S::FIELDS[j])).collect()
}

fn case<S: CtxSpec>(field: usize, idx: usize, value: &str) -> Value {
    let tys = [S::F0::roto(), S::F1::roto(), S::F2::roto(), S::F3::roto()];
    json!({"route": "r6", "struct": S::DECL, "field": S::FIELDS.get(field), "field_index": field,
           "ty": tys.get(field), "field_types": tys, "offsets": S::offsets(), "value_index": idx,
           "value": value, "script": script::<S>()})
}

macro_rules! field_loop {
    ($cx:expr, $pkg:expr, $S:ty, $j:literal, $F:ty, $n:expr, $mk:expr, $e:expr) => {{
        match $pkg.get_function::<fn() -> $F>(concat!("g", $j)) {
            Err(e) => $cx.violation(
                "get_function",
                (R6 << 44) | (($j as u64) << 36),
                case::<$S>($j, 0, ""),
                json!("Ok"),
                json!(e.to_string().chars().take(300).collect::<String>()),
            ),
            Ok(func) => {
                let mut h = 0u64;
                let mut n = 0u64;
                for i in 0..$n {
                    let s = (R6 << 44) | (($j as u64) << 36) | i as u64;
                    if !$cx.case(s) {
                        continue;
                    }
                    let mut c: $S = $mk(i);
                    let want: String = $e[i % $e.len()].show();
                    let r = func.call(&mut c);
                    let got = r.show();
                    drop(r);
                    drop(c);
                    n += 1;
                    h = vcore::util::mix(h, vcore::util::fnv_str(&got));
                    if got != want {
                        $cx.violation("mismatch", s, case::<$S>($j, i, &want), json!({"read": want}), json!({"read": got}));
                    }
                }
                $cx.states(n);
                $cx.transitions(n);
                $cx.validated(n);
                $cx.count("calls_r6", n);
                $cx.outcome(h);
                $cx.nontrivial(vcore::util::mix(vcore::util::fnv_str(<$S>::DECL), $j as u64));
            }
        }
    }};
}

pub fn run<S: CtxSpec>(cx: &mut Cx) {
    let t = cx.cfg.tier;
    set_tier(t);
    if !cx.case(SUB_SETUP) {
        return;
    }
    // the field types must be known to the global type registry
    <S::F0 as RotoValue>::resolve();
    <S::F1 as RotoValue>::resolve();
    <S::F2 as RotoValue>::resolve();
    <S::F3 as RotoValue>::resolve();
    let rt = match Runtime::from_lib(host::lib())
        .map_err(|e| e.to_string())
        .and_then(|rt| rt.with_context_type::<S>())
    {
        Ok(rt) => rt,
        Err(e) => {
            cx.violation("register", SUB_SETUP, case::<S>(9, 0, ""), json!("Ok"), json!(e));
            return;
        }
    };
    let src = script::<S>();
    let mut pkg = match catch(|| FileTree::test_file("script.roto", &src, 0).compile(&rt)) {
        Ok(Ok(p)) => p,
        Ok(Err(r)) => {
            let mut s = String::new();
            let _ = catch(|| r.write(&mut s, false));
            let s: String = s.chars().take(600).collect();
            cx.violation("compile", SUB_SETUP, case::<S>(9, 0, ""), json!("compiles"), json!(s));
            return;
        }
        Err(p) => {
            cx.violation("compile-panic", SUB_SETUP, case::<S>(9, 0, ""), json!("compiles"), json!(p));
            return;
        }
    };
    let before = crate::routes::anomalies_now();
    let (e0, e1, e2, e3) = (edges::<S::F0>(t), edges::<S::F1>(t), edges::<S::F2>(t), edges::<S::F3>(t));
    let n = e0.len().max(e1.len()).max(e2.len()).max(e3.len());
    let mk = |i: usize| {
        S::make(
            e0[i % e0.len()].clone(),
            e1[i % e1.len()].clone(),
            e2[i % e2.len()].clone(),
            e3[i % e3.len()].clone(),
        )
    };
    cx.sample(json!({"route": "r6", "struct": S::DECL, "offsets": S::offsets(), "cases_per_field": n, "script": src}));
    field_loop!(cx, pkg, S, 0, S::F0, n, mk, e0);
    field_loop!(cx, pkg, S, 1, S::F1, n, mk, e1);
    field_loop!(cx, pkg, S, 2, S::F2, n, mk, e2);
    field_loop!(cx, pkg, S, 3, S::F3, n, mk, e3);
    let g = crate::routes::garbage_since(before);
    if !g.is_empty() {
        cx.violation(
            "garbage",
            SUB_SETUP,
            case::<S>(9, 0, ""),
            json!("no tracked value is read from memory that never held one"),
            json!(g.into_iter().take(5).collect::<Vec<_>>()),
        );
    }
    drop(pkg);
    drop(rt);
}

pub fn describe<S: CtxSpec>(t: Tier, s: u64) -> Value {
    if s == SUB_SETUP {
        return case::<S>(9, 0, "");
    }
    let j = ((s >> 36) & 0xff) as usize;
    let i = (s & ((1 << 36) - 1)) as usize;
    let v = match j {
        0 => {
            let e = S::F0::edges(t);
            e[i % e.len()].show()
        }
        1 => {
            let e = S::F1::edges(t);
            e[i % e.len()].show()
        }
        2 => {
            let e = S::F2::edges(t);
            e[i % e.len()].show()
        }
        _ => {
            let e = S::F3::edges(t);
            e[i % e.len()].show()
        }
    };
    case::<S>(j, i, &v)
}

pub trait CtxEntry: Send + Sync {
    fn decl(&self) -> &'static str;
    fn run(&self, cx: &mut Cx);
    fn describe(&self, t: Tier, sub: u64) -> Value;
}

pub struct CE<S>(PhantomData<fn() -> S>);

impl<S> Default for CE<S> {
    fn default() -> Self {
        CE(PhantomData)
    }
}

impl<S: CtxSpec> CtxEntry for CE<S> {
    fn decl(&self) -> &'static str {
        S::DECL
    }
    fn run(&self, cx: &mut Cx) {
        run::<S>(cx)
    }
    fn describe(&self, t: Tier, sub: u64) -> Value {
        describe::<S>(t, sub)
    }
}

pub type CtxTable = Vec<Box<dyn CtxEntry>>;

/// one context struct: `ctx_one!(v, [repr(C)], a: A, b: B, c: C, d: D)`
#[macro_export]
macro_rules! ctx_one {
    ($v:ident, [$($repr:tt)*], $a:ident: $A:ty, $b:ident: $B:ty, $c:ident: $C:ty, $d:ident: $D:ty) => {{
        use roto::Context;
        #[derive(Clone, Context)]
        $($repr)*
        pub struct S {
            pub $a: $A,
            pub $b: $B,
            pub $c: $C,
            pub $d: $D,
        }
        impl $crate::ctx::CtxSpec for S {
            type F0 = $A;
            type F1 = $B;
            type F2 = $C;
            type F3 = $D;
            const DECL: &'static str = concat!(
                stringify!($($repr)*), " struct S { ",
                stringify!($a), ": ", stringify!($A), ", ",
                stringify!($b), ": ", stringify!($B), ", ",
                stringify!($c), ": ", stringify!($C), ", ",
                stringify!($d), ": ", stringify!($D), " }"
            );
            const FIELDS: [&'static str; 4] = [stringify!($a), stringify!($b), stringify!($c), stringify!($d)];
            fn make(a: $A, b: $B, c: $C, d: $D) -> Self {
                S { $a: a, $b: b, $c: c, $d: d }
            }
            fn offsets() -> [usize; 4] {
                [
                    std::mem::offset_of!(S, $a),
                    std::mem::offset_of!(S, $b),
                    std::mem::offset_of!(S, $c),
                    std::mem::offset_of!(S, $d),
                ]
            }
        }
        $v.push(Box::new($crate::ctx::CE::<S>::default()));
    }};
}

/// all 24 declaration orders of four fields as `#[repr(C)]` structs, plus the
/// first order with the default representation
#[macro_export]
macro_rules! ctx_set {
    ($v:ident, $a:ident: $A:ty, $b:ident: $B:ty, $c:ident: $C:ty, $d:ident: $D:ty) => {
        $crate::ctx_one!($v, [#[repr(C)]], $a: $A, $b: $B, $c: $C, $d: $D);
        $crate::ctx_one!($v, [#[repr(C)]], $a: $A, $b: $B, $d: $D, $c: $C);
        $crate::ctx_one!($v, [#[repr(C)]], $a: $A, $c: $C, $b: $B, $d: $D);
        $crate::ctx_one!($v, [#[repr(C)]], $a: $A, $c: $C, $d: $D, $b: $B);
        $crate::ctx_one!($v, [#[repr(C)]], $a: $A, $d: $D, $b: $B, $c: $C);
        $crate::ctx_one!($v, [#[repr(C)]], $a: $A, $d: $D, $c: $C, $b: $B);
        $crate::ctx_one!($v, [#[repr(C)]], $b: $B, $a: $A, $c: $C, $d: $D);
        $crate::ctx_one!($v, [#[repr(C)]], $b: $B, $a: $A, $d: $D, $c: $C);
        $crate::ctx_one!($v, [#[repr(C)]], $b: $B, $c: $C, $a: $A, $d: $D);
        $crate::ctx_one!($v, [#[repr(C)]], $b: $B, $c: $C, $d: $D, $a: $A);
        $crate::ctx_one!($v, [#[repr(C)]], $b: $B, $d: $D, $a: $A, $c: $C);
        $crate::ctx_one!($v, [#[repr(C)]], $b: $B, $d: $D, $c: $C, $a: $A);
        $crate::ctx_one!($v, [#[repr(C)]], $c: $C, $a: $A, $b: $B, $d: $D);
        $crate::ctx_one!($v, [#[repr(C)]], $c: $C, $a: $A, $d: $D, $b: $B);
        $crate::ctx_one!($v, [#[repr(C)]], $c: $C, $b: $B, $a: $A, $d: $D);
        $crate::ctx_one!($v, [#[repr(C)]], $c: $C, $b: $B, $d: $D, $a: $A);
        $crate::ctx_one!($v, [#[repr(C)]], $c: $C, $d: $D, $a: $A, $b: $B);
        $crate::ctx_one!($v, [#[repr(C)]], $c: $C, $d: $D, $b: $B, $a: $A);
        $crate::ctx_one!($v, [#[repr(C)]], $d: $D, $a: $A, $b: $B, $c: $C);
        $crate::ctx_one!($v, [#[repr(C)]], $d: $D, $a: $A, $c: $C, $b: $B);
        $crate::ctx_one!($v, [#[repr(C)]], $d: $D, $b: $B, $a: $A, $c: $C);
        $crate::ctx_one!($v, [#[repr(C)]], $d: $D, $b: $B, $c: $C, $a: $A);
        $crate::ctx_one!($v, [#[repr(C)]], $d: $D, $c: $C, $a: $A, $b: $B);
        $crate::ctx_one!($v, [#[repr(C)]], $d: $D, $c: $C, $b: $B, $a: $A);
        $crate::ctx_one!($v, [], $a: $A, $b: $B, $c: $C, $d: $D);
    };
}
