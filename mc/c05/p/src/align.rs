//! Registered types with an alignment above the 16 bytes the ABI guarantees
//! for the stack pointer (`A32`, `A64`; `A16` is the control), and the
//! machinery to observe where compiled code keeps them.
//!
//! A host function never sees the address of a `Val<T>` argument: roto's
//! trampoline copies the value out first. The places where Rust code does see
//! the address compiled code uses are `Clone::clone(&self)`, `Drop::drop(&mut
//! self)` and `PartialEq::eq(&self, &other)` (called through `extern_clone` /
//! `extern_drop` / `extern_eq`). These impls CHECK the address (through
//! `black_box`, since rustc assumes references are aligned) and record a
//! misalignment event instead of relying on rustc's debug-assertion check.
//!
//! Whether a frame of compiled code is 32/64-byte aligned depends on the stack
//! pointer at the call, so every case of an over-aligned type is run at all
//! four residues of the stack pointer modulo 64 (`at_residues`).

use std::cell::RefCell;

use roto::{Function, Item, Type, Val, location};

#[derive(Clone, Debug, PartialEq)]
pub struct Event {
    pub op: &'static str,
    pub ty: &'static str,
    pub align: usize,
    /// address modulo the alignment
    pub rem: usize,
    /// the address lies within 8 MiB of the current stack pointer
    pub on_stack: bool,
}

thread_local! {
    static EVENTS: RefCell<Vec<Event>> = const { RefCell::new(Vec::new()) };
}

pub fn take_events() -> Vec<Event> {
    EVENTS.with(|e| std::mem::take(&mut *e.borrow_mut()))
}

#[inline(never)]
fn check_addr(addr: usize, align: usize, op: &'static str, ty: &'static str) {
    // opaque to the optimiser: `&T` is assumed to be aligned
    let addr = std::hint::black_box(addr);
    let rem = addr % align;
    if rem != 0 {
        let here = 0u8;
        let sp = &here as *const u8 as usize;
        let on_stack = addr.abs_diff(sp) < (8 << 20);
        EVENTS.with(|e| {
            let mut e = e.borrow_mut();
            if e.len() < 64 {
                e.push(Event { op, ty, align, rem, on_stack });
            }
        });
    }
}

macro_rules! aligned_ty {
    ($name:ident, $align:literal, $roto:literal) => {
        #[repr(align($align))]
        pub struct $name(pub u64);

        impl $name {
            pub const ALIGN: usize = $align;
        }
        impl Clone for $name {
            fn clone(&self) -> Self {
                check_addr(self as *const Self as usize, $align, "clone(&self)", $roto);
                $name(self.0)
            }
        }
        impl Drop for $name {
            fn drop(&mut self) {
                check_addr(self as *const Self as usize, $align, "drop(&mut self)", $roto);
            }
        }
        impl PartialEq for $name {
            fn eq(&self, o: &Self) -> bool {
                check_addr(self as *const Self as usize, $align, "eq(&self)", $roto);
                check_addr(o as *const Self as usize, $align, "eq(&other)", $roto);
                self.0 == o.0
            }
        }
        impl std::fmt::Debug for $name {
            fn fmt(&self, f: &mut std::fmt::Formatter<'_>) -> std::fmt::Result {
                write!(f, "{}({})", $roto, self.0)
            }
        }
    };
}
aligned_ty!(A16, 16, "A16");
aligned_ty!(A32, 32, "A32");
aligned_ty!(A64, 64, "A64");

/// `#[clone] type A16/A32/A64`, constructors `mka16/32/64(x: u64)` and readers
/// `geta16/32/64(p) -> u64`; added to every runtime of the check
pub fn items() -> Vec<Item> {
    let mut v: Vec<Item> = vec![];
    macro_rules! reg {
        ($t:ident, $name:literal, $mk:literal, $get:literal) => {
            v.push(Type::clone::<Val<$t>>($name, "", location!()).expect("register type").into());
            v.push(
                Function::new($mk, "", vec!["x"], |x: u64| Val($t(x)), location!()).expect("register mk").into(),
            );
            v.push(
                Function::new($get, "", vec!["p"], |p: Val<$t>| p.0.0, location!()).expect("register get").into(),
            );
        };
    }
    reg!(A16, "A16", "mka16", "geta16");
    reg!(A32, "A32", "mka32", "geta32");
    reg!(A64, "A64", "mka64", "geta64");
    v
}

// ------------------------------------------------------------------ stack residues

#[inline(never)]
fn pad<const N: usize>(seen: &mut [bool; 4], f: &mut dyn FnMut(u64)) {
    let mut buf = [0u8; N];
    std::hint::black_box(&mut buf);
    let sp: usize;
    // SAFETY: reads the stack pointer, nothing else
    unsafe { core::arch::asm!("mov {}, rsp", out(reg) sp, options(nomem, nostack, preserves_flags)) };
    let k = (sp % 64) / 16;
    if !seen[k] {
        seen[k] = true;
        f(k as u64);
    }
    std::hint::black_box(&buf);
}

/// Calls `f(k)` once for every residue class k = (rsp mod 64) / 16 that can be
/// reached by padding the stack; returns how many of the four were reached.
pub fn at_residues(f: &mut dyn FnMut(u64)) -> usize {
    let mut seen = [false; 4];
    let cands: [fn(&mut [bool; 4], &mut dyn FnMut(u64)); 8] =
        [pad::<0>, pad::<16>, pad::<32>, pad::<48>, pad::<64>, pad::<80>, pad::<96>, pad::<112>];
    for c in cands {
        c(&mut seen, f);
        if seen.iter().all(|x| *x) {
            break;
        }
    }
    seen.iter().filter(|x| **x).count()
}

/// once (k = 0) for ordinary types, at every stack residue for over-aligned ones
pub fn for_residues(over_aligned: bool, f: &mut dyn FnMut(u64)) -> usize {
    if over_aligned {
        at_residues(f)
    } else {
        f(0);
        4
    }
}

// ------------------------------------------------------------------ r10

/// r10: the value lives in a STACK SLOT OF COMPILED CODE - a script local, a
/// temporary, the out-pointer of a host call, a match binding, a record
/// field - and is cloned / dropped / compared / handed to a host function
/// from there. One unit per aligned type; every script is `fn(u64) -> u64`,
/// the payload arithmetic is the oracle, the address checks of the type ride
/// along. Run at all four stack-pointer residues modulo 64.
pub const R10: u64 = 10;

pub const LOCALS_TYPES: [(&str, usize); 3] = [("A16", 16), ("A32", 32), ("A64", 64)];

/// (function name, body, expected result as a function of x)
fn locals_fns(t: &str) -> Vec<(&'static str, String, fn(u64) -> u64)> {
    let l = t.to_lowercase();
    let (mk, get) = (format!("mk{l}"), format!("get{l}"));
    vec![
        // the reproducer of the audit: two locals, each handed to a host function
        ("two_locals", format!("    let a = {mk}(x);\n    let b = {mk}(x + 1);\n    {get}(a) + {get}(b)\n"), |x| 2 * x + 1),
        ("copy_local", format!("    let a = {mk}(x);\n    let b = a;\n    {get}(a) + {get}(b)\n"), |x| 2 * x),
        ("temporary", format!("    {get}({mk}(x))\n"), |x| x),
        ("unused_local", format!("    let a = {mk}(x);\n    x\n"), |x| x),
        ("compare", format!("    let a = {mk}(x);\n    let b = {mk}(x);\n    if a == b {{\n        {get}(a)\n    }} else {{\n        0\n    }}\n"), |x| x),
        (
            "in_option",
            format!("    let o = Option.Some({mk}(x));\n    match o {{\n        Some(v) => {get}(v),\n        None => 0,\n    }}\n"),
            |x| x,
        ),
        ("in_record", format!("    let r = Rec {{ k: 1, a: {mk}(x) }};\n    {get}(r.a)\n"), |x| x),
        ("in_list", format!("    let l = [{mk}(x), {mk}(x + 1)];\n    match l.get(1) {{\n        Some(v) => {get}(v),\n        None => 0,\n    }}\n"), |x| x + 1),
    ]
}

pub fn locals_script(t: &str) -> String {
    let mut s = format!("record Rec {{ k: u8, a: {t} }}\n\n");
    for (name, body, _) in locals_fns(t) {
        s += &format!("fn {name}(x: u64) -> u64 {{\n{body}}}\n\n");
    }
    s
}

const XS: [u64; 8] = [0, 1, 7, 255, 65536, 0x0102030405060708, (1 << 62) - 1, 1 << 62];

fn locals_case(ti: usize, f: usize, xi: usize, k: u64) -> vcore::Value {
    let (t, a) = LOCALS_TYPES[ti];
    let fns = locals_fns(t);
    let (name, body, _) = &fns[f.min(fns.len() - 1)];
    vcore::json!({"route": "r10", "ty": t, "max_align": a, "fn": name, "x": XS[xi.min(7)].to_string(),
                  "stack_residue_class": k,
                  "script": format!("fn {name}(x: u64) -> u64 {{\n{body}}}\n"),
                  "lives_in": "stack slot of compiled code (script local / temporary / out-pointer / match binding / record field)"})
}

pub fn run_locals(ti: usize, cx: &mut vcore::Cx) {
    use vcore::{SUB_SETUP, json};
    if crate::routes::abandoned(cx) {
        return;
    }
    let (t, a) = LOCALS_TYPES[ti];
    let src = locals_script(t);
    if !cx.case(SUB_SETUP) {
        return;
    }
    let rt = match crate::routes::runtime_with(vec![]) {
        Ok(rt) => rt,
        Err(e) => {
            cx.violation("register", SUB_SETUP, json!({"route": "r10", "ty": t}), json!("Ok"), json!(e));
            return;
        }
    };
    let Some(mut pkg) = crate::routes::compile(cx, &rt, &src, "r10", t) else { return };
    cx.sample(json!({"route": "r10", "ty": t, "align": a, "script": src}));
    let mut reached = 4;
    for (fi, (name, _, want)) in locals_fns(t).into_iter().enumerate() {
        let func = match pkg.get_function::<fn(u64) -> u64>(name) {
            Ok(f) => f,
            Err(e) => {
                cx.violation("get_function", SUB_SETUP, locals_case(ti, fi, 0, 0), json!("Ok"), json!(e.to_string()));
                continue;
            }
        };
        let mut cnt = 0u64;
        let mut h = 0u64;
        for (xi, x) in XS.iter().enumerate() {
            let r = at_residues(&mut |k| {
                let s = (R10 << 44) | ((fi as u64) << 36) | (k << 32) | xi as u64;
                if !cx.case(s) {
                    return;
                }
                take_events();
                let got = func.call(*x);
                cnt += 1;
                h = vcore::util::mix(h, got);
                let ev = take_events();
                if !ev.is_empty() {
                    let mut c = locals_case(ti, fi, xi, k);
                    c["all_on_stack"] = json!(ev.iter().all(|e| e.on_stack));
                    let ops: Vec<String> =
                        ev.iter().map(|e| format!("{} {}: address % {} = {}", e.ty, e.op, e.align, e.rem)).collect();
                    cx.violation(
                        "misaligned",
                        s,
                        c,
                        json!("every address at which a registered type is cloned, dropped or compared is a multiple of its alignment"),
                        json!(ops),
                    );
                }
                if got != want(*x) {
                    cx.violation(
                        "mismatch",
                        s,
                        locals_case(ti, fi, xi, k),
                        json!({"returned": want(*x).to_string()}),
                        json!({"returned": got.to_string()}),
                    );
                }
            });
            reached = reached.min(r);
        }
        cx.states(cnt);
        cx.transitions(cnt);
        cx.validated(cnt);
        cx.count("calls_r10", cnt);
        cx.outcome(h);
        cx.nontrivial(vcore::util::fnv_str(&format!("r10 {t} {name}")));
    }
    if reached < 4 {
        cx.count("stack_residues_not_reached", 1);
    }
    drop(pkg);
    drop(rt);
}

pub fn describe_locals(ti: usize, s: u64) -> vcore::Value {
    if s == vcore::SUB_SETUP {
        return vcore::json!({"route": "r10", "kind": "setup", "ty": LOCALS_TYPES[ti].0, "script": locals_script(LOCALS_TYPES[ti].0)});
    }
    locals_case(ti, ((s >> 36) & 0xff) as usize, (s & 0xffff_ffff) as usize, (s >> 32) & 0xf)
}
